"""Literal mining: integer constants that appear in the library sources under test (thresholds, block
sizes, #defines, 1<<k) become extra boundary values for the size-like dimensions of the checks, so that a
threshold *introduced by an edit* is probed on both sides without anyone having to know it in advance.
Deterministic: a function of the source text only."""
import os, re


def _strip(src):
    src = re.sub(r'/\*.*?\*/', ' ', src, flags=re.S)
    src = re.sub(r'//[^\n]*', ' ', src)
    src = re.sub(r'"(?:[^"\\]|\\.)*"', '""', src)
    return src


def mine(srcdir, lo=48, hi=1 << 20, skip=('poseidon_goldilocks_constants.hpp',), exts=('.cpp', '.hpp', '.h')):
    vals = set()
    for fn in sorted(os.listdir(srcdir)):
        if fn in skip or not fn.endswith(exts):
            continue
        try:
            s = _strip(open(os.path.join(srcdir, fn), errors='replace').read())
        except OSError:
            continue
        for m in re.finditer(r'\b1(?:U|UL|ULL|L|LL)?\s*<<\s*(\d+)\b', s):
            k = int(m.group(1))
            if k < 40:
                vals.add(1 << k)
        for m in re.finditer(r'(?<![\w.])(0[xX][0-9a-fA-F]+|\d+)(?:[uU]?[lL]{0,2})\b', s):
            t = m.group(1)
            try:
                v = int(t, 16) if t[:2].lower() == '0x' else int(t)
            except ValueError:
                continue
            vals.add(v)
            # products like 1024 * nThreads, 8 * 1024: also the neighbours' product with small factors is cheap to probe
    out = sorted(v for v in vals if lo <= v <= hi)
    return out


def around(lits, cap=None, deltas=(-1, 0, 1), mults=(1, 2, 3)):
    s = set()
    for v in lits:
        for m in mults:
            for d in deltas:
                x = v * m + d
                if x > 0 and (cap is None or x <= cap):
                    s.add(x)
    return sorted(s)


def pow2ceil(lits, cap):
    s = set()
    for v in lits:
        p = 1
        while p < v:
            p *= 2
        for q in (p, 2 * p):
            if q <= cap:
                s.add(q)
    return sorted(s)


if __name__ == '__main__':
    import sys
    print(mine(sys.argv[1] if len(sys.argv) > 1 else '/repo/src'))
