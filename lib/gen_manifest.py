#!/usr/bin/env python3
"""Regenerates MANIFEST.json from the table below (kept in one place so it stays valid)."""
import json, os
V = os.path.dirname(os.path.dirname(os.path.abspath(__file__)))
props = [json.loads(l) for l in open(os.path.join(V, 'properties.jsonl'))]
ids = [p['id'] for p in props]

# id -> (engine, technique, level text, level note, design ref)
CHECKS = {}
exec(open(os.path.join(V, 'lib', 'manifest_table.py')).read())

checks, na = [], []
for i in ids:
    if i in CHECKS:
        c = CHECKS[i]
        checks.append({
            'property_id': i,
            'quick_cmd': 'bin/check %s --tier quick' % i,
            'thorough_cmd': 'bin/check %s --tier thorough' % i,
            'evidence_file': 'evidence/%s.json' % i,
            'replay_cmd_template': 'bin/check %s --replay {path}' % i,
            'engine': c['engine'],
            'level_claimed': {'category': 'model_checking', 'text': c['text'], 'design_ref': c.get('ref', 'DESIGN.md §4 ' + i)},
            'level_note': c['note'],
            'technique': c['technique'],
        })
    else:
        na.append({'property_id': i, 'reason': NOT_APPLICABLE.get(i, 'check not built yet in this round; no claim is made')})
m = {
    'version': 1,
    'setup_cmd': 'python3 bin/setup',
    'hooks': {
        'guard': 'GOLDILOCKS_VERIF',
        'enable': 'none needed: no source hooks; private state is read with -fno-access-control and libc/OpenMP/TSan entry points are interposed at link time',
        'baseline_off_cmd': 'cd /repo && make testcpu && ./testcpu',
        'source_commits': [],
        'add_only': True,
    },
    'engines': ENGINES,
    'checks': checks,
    'not_applicable': na,
    'notes': NOTES,
}
json.dump(m, open(os.path.join(V, 'MANIFEST.json'), 'w'), indent=1)
print('MANIFEST.json: %d checks, %d not_applicable' % (len(checks), len(na)))
