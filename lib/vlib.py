"""Driver library: build harnesses from /repo's working tree, run them, collect the
reporting protocol, confirm violations by replay, apply KNOWN_FINDINGS, write evidence."""
import os, sys, re, json, time, shutil, subprocess, hashlib, fnmatch, tempfile, atexit, signal
from concurrent.futures import ThreadPoolExecutor

VERIF = os.path.dirname(os.path.dirname(os.path.abspath(__file__)))
REPO = os.environ.get('VERIF_REPO', '/repo')
# where build output, evidence and replay files go (default: /verif itself; mutation runs use a scratch root)
OUT = os.environ.get('VERIF_OUT', VERIF)
SRC = os.path.join(REPO, 'src')
COMMON = os.path.join(VERIF, 'engine', 'common')
SIMW = os.path.join(VERIF, 'engine', 'simw')
TEAMSCHED = os.path.join(VERIF, 'engine', 'teamsched')
HARNESS = os.path.join(VERIF, 'harness')
NCPU = os.cpu_count() or 4
CXX = os.environ.get('VERIF_CXX', 'g++')


def has_avx512():
    try:
        return ' avx512f' in open('/proc/cpuinfo').read()
    except Exception:
        return False


def harness_env():
    """environment for every harness process: library OpenMP teams must not spin (many processes run
    side by side) and the default team size (nThreads = 0 paths) is fixed so runs are reproducible"""
    e = dict(os.environ)
    e['OMP_WAIT_POLICY'] = 'passive'
    e['GOMP_SPINCOUNT'] = '0'
    e.setdefault('OMP_NUM_THREADS', '4')
    e['OMP_DYNAMIC'] = 'false'
    return e


class FrameworkError(Exception):
    pass


class Ctx:
    def __init__(self, prop, tier, seed):
        self.prop = prop
        self.tier = tier
        self.seed = seed
        self.t0 = time.time()
        self.build_dir = os.path.join(OUT, 'build', prop)
        os.makedirs(self.build_dir, exist_ok=True)
        self.stats = {}
        self.samples = []
        self.viols = []        # dicts: sig, case, detail, step
        self.uncovered = []
        self.infos = []
        self.notes = []
        self.steps = {}        # name -> dict(binary=..., recipe=...)
        self.exhaustive = True
        self.incomplete = []
        self.scratch_dirs = []
        self._scaled = None
        self.deadline = self.t0 + (45 * 60 if tier == 'thorough' else 9 * 60)
        self.bounds = {}
        self.assumptions = []
        self.rule = ''
        self.hardware_avx512 = has_avx512()
        atexit.register(self.cleanup)

    # ------------------------------------------------------------ scratch / scaled tree
    def scratch(self):
        base = os.environ.get('VERIF_SCRATCH', '/var/tmp')
        d = tempfile.mkdtemp(prefix='verif_%s_' % self.prop, dir=base)
        self.scratch_dirs.append(d)
        return d

    def cleanup(self):
        for d in self.scratch_dirs:
            shutil.rmtree(d, ignore_errors=True)
        self.scratch_dirs = []

    def scaled_tree(self):
        """width-scaled copy of /repo/src (None if the rules cannot scale the current tree)"""
        if self._scaled is not None:
            return self._scaled or None
        d = self.scratch()
        r = subprocess.run([sys.executable, os.path.join(SIMW, 'scale_tree.py'), SRC, d], capture_output=True, text=True)
        if r.returncode != 0:
            self.uncovered.append('scaled tier unavailable: ' + r.stdout.strip() + r.stderr.strip()[-300:])
            self.exhaustive = False
            self._scaled = ''
            return None
        self.infos.append('scale_tree: ' + r.stdout.strip())
        self._scaled = d
        return d

    def lits(self):
        """integer constants mined from the sources under test (see lib/mine.py)"""
        if not hasattr(self, '_lits'):
            from lib import mine
            self._lits = mine.mine(SRC)
        return self._lits

    def lits_arg(self):
        return ','.join(str(x) for x in self.lits()) or '0'

    # ------------------------------------------------------------ building
    def flags_native(self, avx512=False, omp=True, extra=()):
        f = ['-std=c++17', '-O2', '-mavx2', '-fno-access-control', '-w', '-I' + COMMON, '-I' + SRC]
        if avx512:
            f += ['-mavx512f', '-D__AVX512__']
        if omp:
            f += ['-fopenmp']
        return f + list(extra)

    def flags_scaled(self, w, sig=False, avx512=False, omp=True, extra=()):
        t = self.scaled_tree()
        if t is None:
            return None
        f = ['-std=c++17', '-O2', '-fno-access-control', '-w', '-DVW=%d' % w, '-I' + os.path.join(SIMW, 'include'), '-I' + COMMON, '-I' + t]
        if sig:
            f += ['-DSIMW_SIG']
        if avx512:
            f += ['-D__AVX512__']
        if omp:
            f += ['-fopenmp']
        return f + list(extra)

    def compile_many(self, jobs):
        """jobs: list of (name, sources, flags, libs). Compiles in parallel, returns {name: binary path}.
        A compile failure of code under /repo is a framework error for that step only (recorded, step skipped)."""
        out = {}

        def one(job):
            name, sources, flags, libs = job
            exe = os.path.join(self.build_dir, name)
            if os.path.exists(exe):
                os.unlink(exe)
            # pseudo flags: --cxx=<compiler> selects another compiler for this job, --optional makes a failure of the job an
            # `uncovered` entry instead of a framework error (extra build configurations of code that is also built the normal way)
            cxx = CXX
            for f in flags:
                if f.startswith('--cxx='):
                    cxx = f[6:]
            flags = [f for f in flags if not f.startswith('--cxx=')]
            cmd = [cxx] + [f for f in flags if f != '--optional'] + sources + ['-o', exe] + libs
            if '--optional' in flags:
                cmd.append('--optional')
            optional = cmd[-1] == '--optional'
            if optional:
                cmd = cmd[:-1]
            if any(not os.path.exists(x) for x in sources if isinstance(x, str) and x.endswith('.o')):
                class RR:
                    returncode, stderr = 1, 'an object this job links was not built'
                return name, exe, RR(), cmd + (['--optional'] if optional else [])
            r = subprocess.run(cmd, capture_output=True, text=True)
            return name, exe, r, cmd + (['--optional'] if optional else [])

        with ThreadPoolExecutor(max_workers=min(NCPU, max(1, len(jobs)))) as ex:
            for name, exe, r, cmd in ex.map(one, jobs):
                if r.returncode != 0 and cmd and cmd[-1] == '--optional':
                    first = [l for l in r.stderr.split('\n') if 'error' in l][:1]
                    self.uncovered.append('optional build %s failed, step skipped: %s' % (name, (first[0] if first else r.stderr[-200:]).strip()[:300]))
                    continue
                if cmd and cmd[-1] == '--optional':
                    cmd = cmd[:-1]
                if r.returncode != 0:
                    scaled = any(f.startswith('-DVW=') for f in cmd) or any(os.path.basename(x).startswith(('k_', 'm_', 'c0')) and x.endswith('.o') and not os.path.exists(x) for x in cmd)
                    if scaled:
                        # the width-scaled model cannot express something in the current source (an intrinsic or asm
                        # form the model does not know): the scaled tier becomes unavailable, never an alarm
                        first = [l for l in r.stderr.split('\n') if 'error' in l][:1]
                        self.uncovered.append('scaled build %s failed, tier skipped: %s' % (name, (first[0] if first else r.stderr[-200:]).strip()[:300]))
                        self.exhaustive = False
                        continue
                    sys.stderr.write('BUILD FAILED %s\n%s\n%s\n' % (name, ' '.join(cmd), r.stderr[-3000:]))
                    raise FrameworkError('build failed: ' + name)
                out[name] = exe
                self.steps[name] = {'binary': exe, 'cmd': cmd}
        return out

    # ------------------------------------------------------------ running
    def time_left(self):
        return self.deadline - time.time()

    def run_step(self, step, exe, args=(), timeout=None, env=None, tag=None, allow_fail=False, collect=True):
        """run a harness, parse protocol.  Returns dict with stats of this run."""
        if timeout is None:
            timeout = max(10, self.time_left())
        if self.time_left() < 5:
            self.exhaustive = False
            self.incomplete.append('%s: skipped (global deadline)' % step)
            return None
        cmd = [exe, '--tier', self.tier, '--seed', str(self.seed), '--jobs', str(NCPU)] + list(args)
        e = harness_env()
        if env:
            e.update(env)
        t0 = time.time()
        timed_out = False
        p = subprocess.Popen(cmd, stdout=subprocess.PIPE, stderr=subprocess.PIPE, text=True, env=e, errors='replace', start_new_session=True)
        try:
            out, err = p.communicate(timeout=timeout)
        except subprocess.TimeoutExpired:
            timed_out = True
            try:
                os.killpg(p.pid, signal.SIGKILL)
            except Exception:
                p.kill()
            out, err = p.communicate()
            self.exhaustive = False
            self.incomplete.append('%s %s: time limit %.0fs hit; output produced until then is kept' % (step, ' '.join(args), timeout))

        class R:
            pass
        r = R()
        r.stdout, r.stderr, r.returncode = out or '', err or '', (0 if timed_out else p.returncode)
        dt = time.time() - t0
        if r.returncode != 0 and allow_fail:
            return {'_rc': r.returncode, '_stderr': r.stderr, '_stdout': r.stdout, '_wall': dt}
        if r.returncode < 0 or r.returncode == 255:
            # the harness process itself was killed by a signal / ended by exit(-1): the code under test crashed in a part of the
            # enumeration that is not run in isolated children.  That is a finding about the code, not a framework error; what
            # the step printed before it died is kept.
            self.exhaustive = False
            self.incomplete.append('%s: harness process ended with status %d' % (step, r.returncode))
            self.viols.append({'sig': '%s.harness-died.%s' % (self.prop, step), 'case': '', 'step': step, 'args': list(args), 'noreplay': True,
                               'detail': 'the enumeration process %s ended with status %d (signal / exit inside the code under test); stderr tail: %s' % (step, r.returncode, r.stderr[-400:].replace('\n', ' | '))})
        elif r.returncode != 0:
            sys.stderr.write('HARNESS FAILED %s rc=%d\n%s\n%s\n' % (' '.join(cmd), r.returncode, r.stdout[-2000:], r.stderr[-3000:]))
            raise FrameworkError('harness %s exited with %d' % (step, r.returncode))
        local = {}
        if not collect:
            return {'_rc': 0, '_stderr': r.stderr, '_stdout': r.stdout, '_wall': dt}
        for line in r.stdout.split('\n'):
            if line.startswith('STAT '):
                try:
                    k, v = line[5:].rsplit(' ', 1)
                    v = int(v)
                except ValueError:
                    continue
                local[k] = local.get(k, 0) + v
                self.stats[k] = self.stats.get(k, 0) + v
            elif line.startswith('SAMPLE '):
                try:
                    s = json.loads(line[7:])
                except Exception:
                    s = {'raw': line[7:]}
                if tag:
                    s['step'] = tag
                self.samples.append(s)
            elif line.startswith('VIOL '):
                parts = line[5:].split('\t')
                while len(parts) < 3:
                    parts.append('')
                self.viols.append({'sig': parts[0], 'case': parts[1], 'detail': parts[2], 'step': step, 'args': list(args)})
            elif line.startswith('UNCOVERED '):
                self.uncovered.append(line[10:])
            elif line.startswith('INFO '):
                self.infos.append(line[5:])
        if local.get('framework_worker_abnormal'):
            # a worker process of the harness ended abnormally (the code under test crashed or ended the process) and no case-level
            # report covers it: what that worker had left to enumerate was not run.  Never silent.
            before = [v for v in self.viols if v['step'] == step]
            info = [l[5:] for l in r.stdout.split('\n') if l.startswith('INFO worker_abnormal')][:3]
            if not before:
                self.viols.append({'sig': '%s.worker-died.%s' % (self.prop, step), 'case': '', 'detail': 'an enumeration worker of %s ended abnormally (%s) without a case-level report; stderr tail: %s' % (step, '; '.join(info), r.stderr[-400:].replace('\n', ' | ')), 'step': step, 'args': list(args), 'noreplay': True})
            self.exhaustive = False
            self.incomplete.append('%s: %d worker(s) ended abnormally' % (step, local['framework_worker_abnormal']))
        if local.get('early_stop_workers'):
            self.exhaustive = False
            self.incomplete.append('%s: workers stopped early after 25 crashing cases each' % step)
        local['_wall'] = dt
        local['_stdout'] = r.stdout
        local['_stderr'] = r.stderr
        local['_rc'] = 0
        return local

    def replay_case(self, step, case, extra_args=()):
        exe = self.steps[step]['binary']
        cmd = [exe, '--one', case] + list(extra_args)
        env = harness_env()
        env.update(getattr(self, 'replay_env', {}) or {})
        try:
            r = subprocess.run(cmd, capture_output=True, text=True, timeout=1800, errors='replace', env=env)
        except subprocess.TimeoutExpired:
            return ['TIMEOUT']
        sigs = []
        mapper = getattr(self, 'sig_mapper', None)
        for line in r.stdout.split('\n'):
            if line.startswith('VIOL '):
                parts = line[5:].split('\t')
                sg = parts[0]
                if mapper:
                    sg = mapper(sg, parts[2] if len(parts) > 2 else '') or sg
                sigs.append(sg)
        if r.returncode != 0 and not sigs:
            sigs.append('REPLAY-EXIT-%d' % r.returncode)
        return sigs


    def replay_step(self, step, args=(), tier=None):
        """re-run a whole enumeration step (same tier, seed and arguments: the enumeration order is deterministic) and return the
        violation signatures it prints -- the replay of a violation that depends on the cases executed before it"""
        exe = self.steps[step]['binary']
        cmd = [exe, '--tier', tier or self.tier, '--seed', str(self.seed), '--jobs', str(NCPU)] + list(args)
        env = harness_env()
        env.update(getattr(self, 'replay_env', {}) or {})
        try:
            r = subprocess.run(cmd, capture_output=True, text=True, timeout=3600, errors='replace', env=env)
        except subprocess.TimeoutExpired:
            return ['TIMEOUT']
        sigs = []
        mapper = getattr(self, 'sig_mapper', None)
        for line in r.stdout.split('\n'):
            if line.startswith('VIOL '):
                parts = line[5:].split('\t')
                sg = parts[0]
                if mapper:
                    sg = mapper(sg, parts[2] if len(parts) > 2 else '') or sg
                sigs.append(sg)
        return sigs


# ---------------------------------------------------------------- known findings
def load_known(prop):
    known, fixed = [], []
    p = os.path.join(VERIF, 'KNOWN_FINDINGS.txt')
    if not os.path.exists(p):
        return known, fixed
    for line in open(p):
        line = line.strip()
        if not line or line.startswith('#'):
            continue
        m = re.match(r'known:\s+property=(\S+)\s+sig=(\S+)\s+::\s*(.*)$', line)
        if m:
            if m.group(1) == prop:
                known.append({'glob': m.group(2), 'text': m.group(3)})
            continue
        m = re.match(r'fixed:\s+property=(\S+)\s+(\S+)\s+(.*)$', line)
        if m and m.group(1) == prop:
            fixed.append({'commit': m.group(2), 'text': m.group(3)})
    return known, fixed


def finish(ctx, level_note_assumptions=None):
    """confirm violations, apply known findings, write evidence, print verdict lines, return exit code"""
    prop = ctx.prop
    known, fixed = load_known(prop)
    # group by signature; confirm the first case of each signature by replay in a fresh process
    bysig = {}
    for v in ctx.viols:
        bysig.setdefault(v['sig'], []).append(v)
    unknown, known_hit = [], {}
    for sig, vs in sorted(bysig.items()):
        v = vs[0]
        if v['case'] and v['step'] in ctx.steps and not v.get('noreplay'):
            def norm(x):
                # memory corruption may end a process with different signals from run to run: any crash of the
                # same case in the same call counts as the same failure when replaying
                if re.match(r'C18\.(asan|ubsan)\.', x):
                    return 'C18.SANITIZER-REPORT'  # memory corruption shows up as different reports from run to run
                return re.sub(r'\.(segv|abort(@[^.]*(\.(cpp|hpp):\d+)?)?|sigbus|sigfpe|timeout|signal\d+|exit\d+)\.', '.CRASH.', x)
            rs = ctx.replay_case(v['step'], v['case'], v.get('args', ()))
            if sig not in rs and norm(sig) not in [norm(x) for x in rs]:
                # second attempt before declaring nondeterminism
                rs = ctx.replay_case(v['step'], v['case'], v.get('args', ()))
            if sig not in rs and norm(sig) not in [norm(x) for x in rs]:
                # not reproducible in isolation: the failure may depend on the cases the worker executed before it (state that
                # the code under test keeps between calls).  The enumeration is deterministic, so the whole step is the replay:
                # the violation is reported only if the same signature comes back when the step is run again
                rs2 = ctx.replay_step(v['step'], v.get('args', ()))
                if sig in rs2 or norm(sig) in [norm(x) for x in rs2]:
                    v['mode'] = 'step'
                    v['detail'] += ' [the case passes when executed alone in a fresh process and fails again when the whole step is re-run: the result depends on earlier calls in the same process]'
                    ctx.notes.append('violation %s reproduces only in the context of its enumeration step (replay re-runs the step)' % sig)
                else:
                    sys.stderr.write('FRAMEWORK ERROR: violation %s case [%s] did not reproduce on replay (got %s; whole step: %s)\n' % (sig, v['case'], rs, sorted(set(rs2))[:5]))
                    write_evidence(ctx, violations=len(bysig), extra={'framework_error': 'non-reproducible ' + sig})
                    return 2
            ctx.stats['traces_replayed'] = ctx.stats.get('traces_replayed', 0) + 1
        hit = None
        for k in known:
            if fnmatch.fnmatchcase(sig, k['glob']):
                hit = k
                break
        if hit:
            known_hit.setdefault(hit['glob'], (hit, []))[1].append(v)
        else:
            unknown.append(v)
    for glob, (k, vs) in known_hit.items():
        print('KNOWN-FINDING: property=%s %s [sig=%s e.g. %s]' % (prop, k['text'], vs[0]['sig'], vs[0]['case']))
    rc = 0
    if unknown:
        os.makedirs(os.path.join(OUT, 'replays', prop), exist_ok=True)
        for v in unknown:
            h = hashlib.sha1((v['sig'] + v['case']).encode()).hexdigest()[:12]
            path = os.path.join(OUT, 'replays', prop, '%s.json' % h)
            json.dump({'property': prop, 'step': v['step'], 'args': v.get('args', []), 'case': v['case'], 'sig': v['sig'], 'detail': v['detail'], 'mode': v.get('mode', 'case'),
                       'tier': ctx.tier, 'how': 'bin/check %s --replay %s' % (prop, path)}, open(path, 'w'), indent=1)
            print('VIOLATION property=%s replay=%s' % (prop, path))
            print('  sig=%s case=[%s] %s' % (v['sig'], v['case'][:400], v['detail'][:300]))
        rc = 1
    write_evidence(ctx, violations=len(unknown), extra={'known_findings_matched': [k for k in known_hit], 'fixed_entries': [f['commit'] for f in fixed]})
    return rc


def write_evidence(ctx, violations=0, extra=None):
    st = ctx.stats
    cov = {
        'states': int(st.get('states', 0)),
        'transitions': int(st.get('transitions', 0)),
        'traces_validated_against_impl': int(st.get('traces_validated_against_impl', 0)),
        'evaluations': int(st.get('evaluations', st.get('transitions', 0))),
        'distinct_nontrivial': int(st.get('distinct_nontrivial', 0)),
        'distinct_outcomes': int(st.get('distinct_outcomes', 0)),
        'rule': ctx.rule,
        'samples': ctx.samples[:40] if ctx.samples else [{'note': 'no sample emitted'}],
        'exhaustive': bool(ctx.exhaustive and not ctx.incomplete),
        'bounds': ctx.bounds,
        'incomplete': ctx.incomplete,
        'uncovered': ctx.uncovered[:100],
        'hardware_avx512': ctx.hardware_avx512,
        'counters': {k: v for k, v in sorted(st.items()) if not k.startswith('_')},
        'notes': ctx.notes + ctx.infos[:60],
    }
    if extra:
        cov.update(extra)
    ev = {
        'property_id': ctx.prop,
        'tier': ctx.tier,
        'seed': int(ctx.seed),
        'level': 'model_checking',
        'coverage': cov,
        'assumptions': ctx.assumptions,
        'wall_s': round(time.time() - ctx.t0, 2),
        'violations': int(violations),
    }
    os.makedirs(os.path.join(OUT, 'evidence'), exist_ok=True)
    p = os.path.join(OUT, 'evidence', ctx.prop + '.json')
    tmp = p + '.tmp'
    json.dump(ev, open(tmp, 'w'), indent=1)
    os.replace(tmp, p)
