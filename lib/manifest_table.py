ENGINES = [
    {'name': 'simw', 'path': 'engine/simw', 'serves_properties': ['C01','C02','C06','C07','C08','C09','C10','C11','C13','C14'], 'kind_free_text': 'width-scaled recompilation of the real source (model immintrin.h + asm translated from its text), exhaustive over all operand values at w=2,4,8'},
    {'name': 'lift64', 'path': 'harness', 'serves_properties': ['C01','C02','C06','C09','C10','C11','C13','C14','C15'], 'kind_free_text': 'exhaustive tuples over 64-bit boundary alphabets on the compiled library, closure over library-produced non-canonical values'},
]
NOTES = 'All checks: bin/check <ID> --tier quick|thorough; rebuilds harnesses from /repo/src on every run; KNOWN_FINDINGS.txt lists recorded defects.'
NOT_APPLICABLE = {}
CHECKS['C01'] = {
    'engine': 'simw+lift64',
    'technique': 'exhaustive enumeration of all operand values on the width-scaled real source (w=2,4; 8 thorough) + all alphabet pairs and closure on the compiled asm',
    'text': 'Every operand pair of the structurally identical field at half-word width w is executed through the repository source (asm blocks translated from their text) for all ops, overloads and aliasing forms, and every pair over a 64-bit boundary alphabet (plus values the library itself produces) through the compiled code; oracle is __int128 arithmetic. A universal claim over 2^128 pairs cannot be enumerated at 64 bits; the small-scope enumeration is complete per width and the 64-bit layer pins the compiled instructions.',
    'note': 'Trusted: the 12-mnemonic x86 semantics in engine/simw/simw_asm.h (bit-exact at w=32 by conformance run), the half-word constant scaling rule, __int128 oracle. Not covered: a defect that exists only at w=32 and off the alphabets/closure.',
}

for _id,_fam,_n in (('C02','AVX2','4'),('C11','AVX-512','8')):
    CHECKS[_id] = {
        'engine': 'simw+lift64',
        'technique': 'exhaustive enumeration of all admitted operand pairs per kernel on the width-scaled real header (w=2,4; 8 thorough), all alphabet pairs on the compiled kernels, model-vs-hardware conformance and path-signature lifting',
        'text': 'Each '+_fam+' lane kernel is executed from the repository header, recompiled at half-word width w against a software intrinsics model, on every operand pair its documented assumption admits, in every lane position; the compiled kernels run on all ordered pairs of a 64-bit boundary alphabet; the w=32 model is compared bit-for-bit with the hardware on those pairs and every path signature seen at small width is matched by a 64-bit execution on the compiled kernel. Lanes are independent so per-lane pair enumeration covers the register-content quantifier.',
        'note': 'Trusted: the software model of the intrinsics (bound to hardware by the conformance step), operand assumptions as read from header comments, __int128 oracle. Not covered: defects present only at w=32 off the alphabet and off every lifted path class.',
    }

for _id,_fam in (('C13','AVX2'),('C14','AVX-512 (two interleaved states)')):
    CHECKS[_id] = {
        'engine': 'simw+lift64',
        'technique': 'exhaustive enumeration of lane operand tuples and representation tuples through the width-scaled real kernels (w=2,4; 8 thorough) and alphabet/generator tuples on the compiled kernels',
        'text': 'The '+_fam+' dot/sparse/dense kernels are run from the repository source at half-word width w on every 6-tuple of lane operands (w=2), every triple of addend representations through the adder chain (all 256^3 at w=4), every 4-tuple of row-result representations through the column sums, every admitted coefficient triple of the 8-bit variants and every unit coefficient array against tagged states (routing); the compiled kernels run on alphabet tuples with <=2 deviations and on lane products that land in [p,2^64) in all addends. Oracle: integer matrix-vector product mod p.',
        'note': 'Trusted: intrinsics model (bound by C02/C11 conformance), __int128 oracle, scaled form of the 8-bit precondition. Composition bugs need two or more non-canonical values in one lane (probability ~2^-64 at full width); the scaled enumeration covers every such combination, the native run covers them through exact-product generators.',
    }

ENGINES.append({'name': 'cfgx', 'path': 'harness', 'serves_properties': ['C03','C04','C05','C07','C08','C19'], 'kind_free_text': 'configuration explorer: full cross product of shape/length/thread/backend dimensions, exact-size guard-page arenas, one process per case group with per-case crash attribution, independent reference'})
CHECKS['C06'] = {
    'engine': 'simw+lift64',
    'technique': 'exhaustive single-position deviation over all 2^16 lane values (and position pairs) on the whole permutation recompiled at w=8; table obligations; bounded-deviation enumeration on the compiled code',
    'text': 'All three implementations of the full permutation are recompiled from the repository source at 16-bit lanes and run on every state that deviates from a base state in one position by any lane value (thorough: four base states and all position pairs over a 64-value set), so every internal correction path and every canonical/non-canonical hand-off between kernels is executed many times; results are compared with an independent reference permutation. The compiled code is run on base states with <=2 deviating positions over the 64-bit alphabet, the two known-answer vectors and chained outputs. 1057 table obligations (constants small/canonical, 8-bit MDS, flattened layouts) are checked exhaustively.',
    'note': 'Equality for every 64-bit state is inferred: kernels right under preconditions (C02/C11/C13/C14) + preconditions hold at call sites (tables, dense scaled run) + structure (native). Scaled run uses constants reduced mod p_8. Reference schedule is the optimised one on the library tables; KATs pin the constants.',
}
CHECKS['C07'] = {
    'engine': 'cfgx',
    'technique': 'exhaustive enumeration of lengths x content patterns x variants x guard-page placements against a reference sponge',
    'text': 'Every length 0..41 (thorough 0..130) with zero, counting, non-canonical and every single-marker content, for the scalar, AVX2 and paired AVX-512 variants, each placed against PROT_NONE guard pages on both ends so the read extent is exact; digests compared with an independent sponge. The same enumeration runs on the w=8 recompiled source.',
    'note': 'Lengths above the bound are not enumerated; the loop structure repeats per 8-element block and all residues are covered at least five times. Reference is the harness\'s own.',
}
CHECKS['C08'] = {
    'engine': 'cfgx',
    'technique': 'exhaustive cross product rows x cols x dim x threads x backend x batch size with exact guard-page extents against a reference tree',
    'text': 'Every combination of rows in {1..16 (64)}, cols in {0..12,15,16,17}, dim in {1,2,3}, thread counts {0,1,2,3,5}, backend {seq, avx, avx512, wrapper} and every batch size 1..cols+1 is built on exact-size guard-page arenas and every element of the tree buffer is compared with a reference tree; crashes are attributed to the exact configuration.',
    'note': 'Contents are three patterns per configuration (dependence on contents is through the hash, covered by C06/C07). Schedules of the thread team are covered by C12.',
}

ENGINES.append({'name': 'ovl', 'path': 'engine/ovl', 'serves_properties': ['C16','C17'], 'kind_free_text': 'overload catalogue parsed from the headers on every run, spec by rule + listed exceptions, generated wrappers, exhaustive stride/index/value-pass enumeration with exact read/write sets (sentinels, guard pages, ASan-poisoned exact blocks)'})
ENGINES.append({'name': 'ptxw', 'path': 'engine/ptxw', 'serves_properties': ['C20'], 'kind_free_text': 'PTX-subset interpreter generated from the text of gl64_t.cuh (98 asm statements), width-parametric integer classes, both __CUDA_ARCH__ variants; table checker'})
for _id,_what in (('C03','forward transform equals the DFT'),('C04','inverse transform equals the inverse DFT'),('C05','extendPol equals the low-degree extension on 7<w_Next>')):
    CHECKS[_id] = {
        'engine': 'cfgx',
        'technique': 'exhaustive enumeration of the configuration space (domain incl. non-powers of two, size, columns, phases, blocks, buffer, destination aliasing, threads, prior call on the object) x complete impulse basis, closed-form oracle; exhaustive obligations on the bit-reversal helper; large sizes with boundary impulses',
        'text': 'Every configuration in the cross product of object domain D<=32 (thorough 128), size n<=D including 0, column counts {0,1,2,3,5}, all phase values 0..log2 D+2 and 2^64-1, block counts {0,1,2,3,ncols,ncols+1,2^64-1}, scratch buffer or NULL, destination = source/other/NULL and constructor thread counts is executed on the real object with the complete impulse basis in every column plus a dense non-canonical input, on exact-size guard-page arrays; '+_what+' by comparison with a closed-form kernel. Linearity makes the basis sufficient for all inputs. Also: objects constructed with non-power-of-two domains, the same call after another call on the object, sizes 2^13..2^16 (thorough 2^20) with impulse columns checked on every output row, and the bit-reversal helper BR(x,d) for every d=1..32 on all 1- and 2-bit patterns and all x<2^12.',
        'note': 'Linearity rests on C01 and on the absence of data-dependent control flow in the transform code. Sizes above the bound are not run; all schedule shapes (pass counts, clamping, parity, block remainders) occur below it. Thread schedules are C12.',
    }
CHECKS['C16'] = {
    'engine': 'ovl',
    'technique': 'exhaustive enumeration over the overload catalogue x stride/index configurations x alias forms x tag and boundary value passes, exact write/read sets',
    'text': 'All 159 live batched/AVX2/AVX-512 overloads of the cubic-extension add/sub/mul/copy families are extracted from the header on every run, given a spec by rule (exceptions listed), and each is called on every combination of strides {0,1,3,5,1000}, six index-array shapes and 122 value passes (tags making every position distinct, boundary values rotated through every position); element k of the result is compared with the scalar extension operation in the output layout, the result arena must be untouched elsewhere, and an ASan build with exact poisoned blocks bounds the reads. 150 alias forms (result object = operand object, both operands one object) are run wherever carrier shapes allow, with the oracle taken from a snapshot of the operands.',
    'note': 'Spec rule is the harness author\'s reading of names/parameters; memory carriers alias only with identical designated positions (no partial overlap); colliding output lanes not enumerated; values from a boundary alphabet (lane arithmetic is C02/C11/C09).',
}
CHECKS['C17'] = {
    'engine': 'ovl',
    'technique': 'exhaustive enumeration over the overload catalogue x stride/index configurations x value passes; parcpy/parSetZero over all sizes and thread arguments in the bound',
    'text': 'All 160 defined base-field copy/add/sub/mul batch/AVX2/AVX-512 wrappers are catalogued from the headers and exercised as for C16 (lane k = field op on the k-th designated operands, exact write set, ASan-bounded reads). 200 alias forms as in C16. parcpy and parSetZero run for every size in {0..40,63,64,65,1000} and thread argument in {INT_MIN,-1,0,1,2,3,7,64,size,size+1} with sentinel-fenced destinations, both at top level and from inside another parallel region (where the runtime grants a single thread).',
    'note': 'add_batch(...,const uint64_t offsets2[4]) is declared but never defined: listed uncovered. Commented-out declarations in the AVX-512 block are not overloads.',
}
CHECKS['C20'] = {
    'engine': 'ptxw',
    'technique': 'exhaustive enumeration of all operand tuples on the device code executed through a PTX interpreter at word width w=4,6 (8 thorough), alphabet pairs at 64 bits; exhaustive table equations',
    'text': 'gl64_t.cuh is converted from its text on every run (every asm statement becomes interpreter calls with carry flag and predicates persisting as PTX defines), compiled for __CUDA_ARCH__ 700 and 600, and every public arithmetic operation is run on all operand tuples at reduced word width and on alphabet pairs at 64 bits against __int128 arithmetic with canonical results required; the three device tables are checked row by row (328 equations) against the CPU table and their defining relations.',
    'note': 'No nvcc/GPU in the sandbox: model traces cannot be replayed on a device (traces_validated_against_impl = 0); trusted base is the PTX semantics in engine/ptxw/ptxw.hpp. An unknown opcode makes the arithmetic half report unavailable instead of guessing.',
}

CHECKS['C19'] = {
    'engine': 'cfgx',
    'technique': 'explicit-state breadth-first search over call histories on the real object (canonical key from private fields) + exhaustive unmerged exploration of all histories up to depth 4 (5) over large calls; differential (fresh object) and closed-form oracles',
    'text': 'Starting from a freshly constructed object, every call of a 192-call alphabet (NTT/INTT/extendPol x sizes x columns x phases x blocks) is applied from every distinct canonical object state until a BFS level adds no new state; each transition output is compared with a fresh object and with the closed-form oracle; history replay must reproduce the recorded key. Because a key cannot know state that a change adds to the object, all 1554 (thorough 9330) histories up to depth 4 (5) over six large calls (2^12..2^14) are additionally explored without any state merging, the last call of each compared with a fresh object. The object is destroyed after every explored history.',
    'note': 'Key completeness argument in DESIGN §4 C19: results depend on call arguments, constructor tables, (r,r_) and the process-wide default team size only. Objects D in {8 (16,4 thorough)}; larger domains follow the same code paths (C03-C05 cover sizes).',
}

CHECKS['C09'] = {
    'engine': 'simw+lift64',
    'technique': 'exhaustive enumeration of every operand in every representation of the width-scaled extension field (w=2: F_13^3) through the real source; bounded enumeration at w=4 and on the compiled code',
    'text': 'At w=2 the base field is F_13 and x^3-x-1 stays irreducible, so the extension is a field of 2197 elements: add, sub, mul run on all 4096x4096 pairs of coefficient-triple representations in all aliasing forms, square/neg/inv/isOne on all elements, the mixed base/integer variants and div with every base representation, mulScalar with every decimal string in [-3p,3p], batchInverse on all 55,986 arrays of length 1..6 over a 6-element alphabet; at w=4 and natively the same operations run on boundary triples (native: 1728^2 pairs). Oracle: schoolbook product reduced by x^3=x+1.',
    'note': 'Polynomial identities are width independent; the base-field operations they are built from are covered by C01 at 64 bits. Inverse of the zero element is not part of the statement.',
}
CHECKS['C10'] = {
    'engine': 'simw+lift64',
    'technique': 'exhaustive enumeration of all operands at w=2,4 through the real source; alphabet + continued-fraction-hard operands on the compiled code; zero operands in child processes; watchdog for termination',
    'text': 'inv on every representation with a mod p != 0 (a*inv(a)=1), div on all (x,a), exp on all (b,e) in [0,2^2w)^2 plus 190 large exponents, for w=2 and 4 where p_w is prime; natively inv/div on the alphabet plus operands that maximise the length or the quotient size of the Euclid loop, exp on alphabet x 260 exponents; inv/div with 0 and p run in a child that must end with a diagnostic and no value; every worker has a watchdog that names the operand on a hang.',
    'note': 'Termination for all 2^64 operands is argued from the strictly decreasing remainder of the Euclid loop; the watchdog only detects a violation on explored operands.',
}
CHECKS['C15'] = {
    'engine': 'lift64',
    'technique': 'exhaustive enumeration of all 2^32 int32 values (thorough) and of boundary neighbourhoods / k*p+r integers x all radices against GMP',
    'text': 'Every int32 goes through fromS32 and toS32 (thorough; quick uses +-4096 neighbourhoods of the four corners and +-2^k); all outward conversions and predicates run on ~80k raw representations around every threshold in the code (0, 2^31, p-2^31, (p-1)/2, p, 2^63, 2^64); 500 integers k*p+r with |k| up to 2^65 are converted as strings in every radix 2..36 and as mpz; oracle is GMP with floor modulus.',
    'note': 'int64/uint64 conversions are checked on the alphabet and neighbourhoods, not on all 2^64 values; their code has a single comparison each, whose both sides and boundary are in the set.',
}

ENGINES.append({'name': 'teamsched', 'path': 'engine/teamsched', 'serves_properties': ['C12'], 'kind_free_text': 'own OpenMP runtime (GOMP_parallel/omp_*), exact per-member access recorder fed by compile-only -fsanitize=thread instrumentation and wrapped mem*/malloc, serial-order and coroutine-based preemption-bounded schedulers; pthread stand-in for a free-running ThreadSanitizer pass'})
CHECKS['C12'] = {
    'engine': 'teamsched',
    'technique': 'exhaustive member orders with per-region access-set conflict check (partial-order reduction) + granted-team clamping (runtime grants fewer threads than requested) + preemption-bounded (<=2, thorough <=3) exhaustive interleaving exploration per region under a controlled scheduler + free-running ThreadSanitizer with a re-entrancy battery',
    'text': 'The library objects are linked against an own OpenMP runtime that decides which team member runs. Every scenario (transforms, extension, Merkle builders incl. batched and AVX-512, parcpy/parSetZero) is executed for every team size and every member order with exact per-member read/write sets: no two members may conflict in any region and the output must be bit-identical to the single-member run. On the small scenarios every interleaving with at most two preemptions at element granularity is explored region by region, with the end-of-region memory state compared to the default schedule. Every scenario is also run with the granted team clamped to 1, 2 and 3 members (num_threads is an upper bound). The same bodies run with real threads under ThreadSanitizer, followed by a battery of concurrent callers of the static scalar/hash functions whose results must equal their sequential runs.',
    'note': 'Sequential consistency assumed; instrumented accesses are what gcc -fsanitize=thread emits with mem* builtins disabled plus wrapped mem* calls. The first region of NTT_iters runs with the process-wide default team (omp_set_num_threads is called after it), which the runtime models.',
}

CHECKS['C18'] = {
    'engine': 'cfgx+ovl (sanitizer builds)',
    'technique': 'the exhaustive enumerations of C03-C10, C13-C17, C19 re-executed on AddressSanitizer+UBSan builds with exact-size guard-page / poisoned arenas; every report attributed to the enumerated case',
    'text': 'Memory safety is decided on the same finite spaces as the functional properties: every transform configuration, every call history with destruction of the object, every sponge length and Merkle shape (smallest shapes included), the Poseidon/cubic/inverse/conversion enumerations, the matrix kernels with exact heap coefficient blocks and the whole overload catalogue are run under AddressSanitizer (bounds, alloc/dealloc and new/delete mismatch) and non-recoverable UBSan; arrays are exact-size and fenced by PROT_NONE pages so that vector code and inline asm that the sanitizer does not instrument still fault on an out-of-extent access.',
    'note': 'Uninitialised reads are not detected (no MemorySanitizer-instrumented libstdc++/gmp offline). Leak checking is off. Shapes above the enumeration bounds are not run. A stack step measures the stack high-water mark of 74 transform / Merkle / sponge / batchInverse configurations at count c and 4c on a harness-owned stack and reports growth only after the extrapolated call really overruns an 8 MiB stack in a child process.',
}

# Dimensions added to the enumerations after the seeding rounds (DESIGN §6); appended to the level text of each check.
ADDED = {
    'C01': 'Also: every operation evaluated during static initialisation, inlined into leaf routines (14 live locals; local arrays of 4..16 elements) and mulScalar with literal scalars, over all ordered pairs of 14 boundary words; every power of two and its neighbours in the alphabet.',
    'C02': 'Also: whole-register cases when a lane depends on its neighbours (cross-lane), the same kernels compiled inside an AVX-512 build and with -march=native, alias forms of every kernel, every power of two in the alphabet.',
    'C11': 'Also: whole-register cases when a lane depends on its neighbours (cross-lane), alias forms of every kernel, every power of two in the alphabet.',
    'C03': 'Also: non-power-of-two domains, prior calls on the object, sizes 2^13..2^16 (2^20), boundary words planted at pipeline stages, every thread-count argument 1..17 (34), the default team size of the environment, the caller inside its own parallel region, the other buffer alignment, the source donated as scratch, extend=true on a forward call, a copy-constructed object, column counts around mined constants, 18 460 obligations on BR(). Every column partition (ncols 4..12, nblock 1..ncols+1), every pass schedule (nphase 1..log2 n) at n = 128, 256, 8192, and a -DNDEBUG build of the same sources over the small domains.',
    'C04': 'Also: the dimensions listed for C03. Every column partition (ncols 4..12, nblock 1..ncols+1), every pass schedule (nphase 1..log2 n) at n = 128, 256, 8192, and a -DNDEBUG build of the same sources over the small domains.',
    'C05': 'Also: the dimensions listed for C03 (planted stage = coefficients after the coset scaling). Every column partition (ncols 4..12, nblock 1..ncols+1), every pass schedule (nphase 1..log2 n) at n = 128, 256, 8192, and a -DNDEBUG build of the same sources over the small domains.',
    'C06': 'Also: alias forms of the hash wrappers.',
    'C07': 'Also: lengths around mined constants, lengths up to 2^24+1 (differential), three alignments.',
    'C08': 'Also: big shapes (rows to 2^15), teams around and above the processor count and every nThreads 1..128, batch sizes up to 2^63 and around 2^64/dim, the caller inside its own parallel region, rows/columns around mined constants.',
    'C09': 'Also: arrays up to 65537 elements, batchInverse with the result at every 8-byte offset modulo 64, batchInverse under memory caps (allocation failure as an environment answer), pointer overloads and in-place forms. Batch arrays also partially overlapping (result shifted by -2..+2 elements against the source in one buffer).',
    'C10': 'Also: operands floor(p/[q1;..;qk]) for every Euclid quotient word, every 3-call history over the inv/div forms, a call that ends the process is named by an exit handler.',
    'C12': 'Also: three input contents per scenario (all different / all equal / all zero), team sweep 2..17 (34) on 32..256 (2048) rows, blow-up factors up to 32 on N in {1,2}, dense parcpy size sweep, re-entrancy battery and free-running ThreadSanitizer pass; both OpenMP stand-ins implement the remaining GOMP entry points.',
    'C13': 'Also: alias forms, carry72 and straddle-2^64 operands, the coefficient array at every word offset modulo 64, the same kernels compiled inside an AVX-512 build and with -march=native.',
    'C14': 'Also: alias forms, carry72 and straddle-2^64 operands, the coefficient array at every word offset modulo 64.',
    'C15': 'Also: every numeral text of 1..3 (4) symbols in every radix with an own parser, long numerals with leading zeros / upper case, the array overload of toString, the conversions repeated under a digit-grouping global locale, alias forms of the reference overloads. The reference-output toString overload on a string reused across calls.',
    'C16': 'Also: index-list shapes (all gap words), placements (0/8/16/24 mod 32), adjacent base pointers, constant sweep (2^k-1, 2^k, 2^k+1), whole-element patterns (one, zero, non-canonical one, basis elements, -1, base-field element in a / b / both x every stride configuration), huge strides on sparse reservations, a ThreadSanitizer re-entrancy step with shared index tables, the AVX2 overloads compiled inside an AVX-512 build and with -march=native. Index lists with repeated neighbours (every word over consecutive/jump/wrap/repeat with at least one repeat) on the input operands.',
    'C17': 'Also: the passes listed for C16; parcpy / parSetZero from inside a parallel region, on every size 0..18432 and with buffers backed by shared and file mappings. Index lists with repeated neighbours on the input operands.',
    'C18': 'Also: a stack step (stack high-water at count c and 4c on a harness-owned stack; growth confirmed by a real overrun of an 8 MiB stack), an application-owned GMP allocator in the history harness. The transform sweep includes every column partition (ncols 4..12, nblock 1..ncols+1).',
    'C19': 'Also: unmerged exploration of all histories to depth 4 (5) over large calls and over eleven small calls including the public computeR, histories on objects constructed with extension 2, 4, 8; a replay that does not reproduce the canonical key is a violation.',
    'C20': 'Also: the readers perform line splicing before comment removal and give table initialisers and PTX immediates their C value (leading 0 = octal); 47 operations per build including the compound operators.',
}
for _k, _v in ADDED.items():
    if _k in CHECKS:
        CHECKS[_k]['text'] = CHECKS[_k]['text'].rstrip() + ' ' + _v
