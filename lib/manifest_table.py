ENGINES = [
    {'name': 'simw', 'path': 'engine/simw', 'serves_properties': ['C01'], 'kind_free_text': 'width-scaled recompilation of the real source (model immintrin.h + asm translated from its text), exhaustive over all operand values at w=2,4,8'},
    {'name': 'lift64', 'path': 'harness', 'serves_properties': ['C01'], 'kind_free_text': 'exhaustive tuples over 64-bit boundary alphabets on the compiled library, closure over library-produced non-canonical values'},
]
NOTES = 'All checks: bin/check <ID> --tier quick|thorough; rebuilds harnesses from /repo/src on every run; KNOWN_FINDINGS.txt lists recorded defects.'
NOT_APPLICABLE = {}
CHECKS['C01'] = {
    'engine': 'simw+lift64',
    'technique': 'exhaustive enumeration of all operand values on the width-scaled real source (w=2,4; 8 thorough) + all alphabet pairs and closure on the compiled asm',
    'text': 'Every operand pair of the structurally identical field at half-word width w is executed through the repository source (asm blocks translated from their text) for all ops, overloads and aliasing forms, and every pair over a 64-bit boundary alphabet (plus values the library itself produces) through the compiled code; oracle is __int128 arithmetic. A universal claim over 2^128 pairs cannot be enumerated at 64 bits; the small-scope enumeration is complete per width and the 64-bit layer pins the compiled instructions.',
    'note': 'Trusted: the 12-mnemonic x86 semantics in engine/simw/simw_asm.h (bit-exact at w=32 by conformance run), the half-word constant scaling rule, __int128 oracle. Not covered: a defect that exists only at w=32 and off the alphabets/closure.',
}
