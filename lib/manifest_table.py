ENGINES = [
    {'name': 'simw', 'path': 'engine/simw', 'serves_properties': ['C01','C02','C11','C13','C14'], 'kind_free_text': 'width-scaled recompilation of the real source (model immintrin.h + asm translated from its text), exhaustive over all operand values at w=2,4,8'},
    {'name': 'lift64', 'path': 'harness', 'serves_properties': ['C01','C02','C11','C13','C14'], 'kind_free_text': 'exhaustive tuples over 64-bit boundary alphabets on the compiled library, closure over library-produced non-canonical values'},
]
NOTES = 'All checks: bin/check <ID> --tier quick|thorough; rebuilds harnesses from /repo/src on every run; KNOWN_FINDINGS.txt lists recorded defects.'
NOT_APPLICABLE = {}
CHECKS['C01'] = {
    'engine': 'simw+lift64',
    'technique': 'exhaustive enumeration of all operand values on the width-scaled real source (w=2,4; 8 thorough) + all alphabet pairs and closure on the compiled asm',
    'text': 'Every operand pair of the structurally identical field at half-word width w is executed through the repository source (asm blocks translated from their text) for all ops, overloads and aliasing forms, and every pair over a 64-bit boundary alphabet (plus values the library itself produces) through the compiled code; oracle is __int128 arithmetic. A universal claim over 2^128 pairs cannot be enumerated at 64 bits; the small-scope enumeration is complete per width and the 64-bit layer pins the compiled instructions.',
    'note': 'Trusted: the 12-mnemonic x86 semantics in engine/simw/simw_asm.h (bit-exact at w=32 by conformance run), the half-word constant scaling rule, __int128 oracle. Not covered: a defect that exists only at w=32 and off the alphabets/closure.',
}

for _id,_fam,_n in (('C02','AVX2','4'),('C11','AVX-512','8')):
    CHECKS[_id] = {
        'engine': 'simw+lift64',
        'technique': 'exhaustive enumeration of all admitted operand pairs per kernel on the width-scaled real header (w=2,4; 8 thorough), all alphabet pairs on the compiled kernels, model-vs-hardware conformance and path-signature lifting',
        'text': 'Each '+_fam+' lane kernel is executed from the repository header, recompiled at half-word width w against a software intrinsics model, on every operand pair its documented assumption admits, in every lane position; the compiled kernels run on all ordered pairs of a 64-bit boundary alphabet; the w=32 model is compared bit-for-bit with the hardware on those pairs and every path signature seen at small width is matched by a 64-bit execution on the compiled kernel. Lanes are independent so per-lane pair enumeration covers the register-content quantifier.',
        'note': 'Trusted: the software model of the intrinsics (bound to hardware by the conformance step), operand assumptions as read from header comments, __int128 oracle. Not covered: defects present only at w=32 off the alphabet and off every lifted path class.',
    }

for _id,_fam in (('C13','AVX2'),('C14','AVX-512 (two interleaved states)')):
    CHECKS[_id] = {
        'engine': 'simw+lift64',
        'technique': 'exhaustive enumeration of lane operand tuples and representation tuples through the width-scaled real kernels (w=2,4; 8 thorough) and alphabet/generator tuples on the compiled kernels',
        'text': 'The '+_fam+' dot/sparse/dense kernels are run from the repository source at half-word width w on every 6-tuple of lane operands (w=2), every triple of addend representations through the adder chain (all 256^3 at w=4), every 4-tuple of row-result representations through the column sums, every admitted coefficient triple of the 8-bit variants and every unit coefficient array against tagged states (routing); the compiled kernels run on alphabet tuples with <=2 deviations and on lane products that land in [p,2^64) in all addends. Oracle: integer matrix-vector product mod p.',
        'note': 'Trusted: intrinsics model (bound by C02/C11 conformance), __int128 oracle, scaled form of the 8-bit precondition. Composition bugs need two or more non-canonical values in one lane (probability ~2^-64 at full width); the scaled enumeration covers every such combination, the native run covers them through exact-product generators.',
    }
