"""C09 cubic-extension scalar arithmetic (DESIGN §4 C09)."""
import os
from lib import vlib
MAIN = os.path.join(vlib.HARNESS, 'c09_cubic.cpp')


def build(ctx, only_step=None):
    def srcs(d):
        return [MAIN, os.path.join(d, 'goldilocks_base_field.cpp'), os.path.join(d, 'goldilocks_cubic_extension.cpp')]
    jobs = [('c09_native', srcs(vlib.SRC), ctx.flags_native(), ['-lgmpxx', '-lgmp'])]
    t = ctx.scaled_tree()
    if t:
        for w in (2, 4):
            jobs.append(('c09_w%d' % w, srcs(t), ctx.flags_scaled(w), ['-lgmpxx', '-lgmp']))
    if only_step:
        jobs = [j for j in jobs if j[0] == only_step]
    ctx.bins = ctx.compile_many(jobs)


def explore(ctx):
    ctx.rule = ('scaled w=2 (F_13[x]/(x^3-x-1), a field of 2197 elements): add/sub/mul on ALL pairs of all 4096 coefficient-triple representations in all aliasing forms; square/neg/isOne/inv on all elements; '
                'mixed base/integer variants and div with every base representation; mulScalar with every decimal string in [-3p,3p]; batchInverse on every array of length 1..6 over a 6-element alphabet. '
                'w=4 (ring Z/241): boundary triples, and mul with one free coefficient per operand over all 256^2 values. native: all pairs of triples over a 12-value alphabet. '
                'state = (op, operands); transition = one call; non-trivial = an operand with a non-canonical coefficient')
    ctx.bounds = {'scaled_widths': [2, 4], 'native_coefficient_alphabet': '12 (thorough 28)', 'batchInverse_lengths': '1..6 exhaustive + 8,9,16,33,64'}
    ctx.assumptions = ['x^3-x-1 is irreducible over F_13 (checked: no root) so inverses exist at w=2; at w=4 (x=84 is a root mod 241) only ring identities are checked',
                       'oracle: schoolbook product reduced with x^3=x+1, x^4=x^2+x, __int128']
    for n in ('c09_native', 'c09_w2', 'c09_w4'):
        if n in ctx.bins:
            ctx.run_step(n, ctx.bins[n], ['--lits', ctx.lits_arg()])
