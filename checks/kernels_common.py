"""Shared by C02 (AVX2) and C11 (AVX-512): lane kernels (DESIGN §4 C02/C11)."""
import os
from lib import vlib

H = vlib.HARNESS
MAIN = os.path.join(H, 'c02_kernels.cpp')
KTU = os.path.join(H, 'kernels_tu.cpp')


def build(ctx, family, only_step=None):
    avx512 = family == 'avx512'
    pre = 'k_' + family
    jobs = []
    inc = ['-I' + H]
    native_ok = (not avx512) or ctx.hardware_avx512
    ctx.native_ok = native_ok
    t = ctx.scaled_tree()
    widths = [2, 4, 8] if (ctx.tier == 'thorough' or (only_step or '').endswith('w8')) else [2, 4]
    # objects
    objs = []
    if native_ok:
        objs.append((pre + '_nat.o', [KTU], ctx.flags_native(avx512=avx512, extra=inc + ['-DKNS=nat', '-c']), []))
    if t:
        for w in widths + [32]:
            ex = inc + ['-DKNS=mdl', '-c']
            if w == 32:
                ex += ['-DGoldilocks=GoldilocksMdl']
            objs.append((pre + '_w%d.o' % w, [KTU], ctx.flags_scaled(w, sig=True, avx512=avx512, extra=ex), []))
    # other build configurations of the SAME kernels (see matrix_common): AVX2 kernels inside an AVX-512 build and under -march=native
    xcfg = []
    if not avx512:
        if ctx.hardware_avx512:
            xcfg.append(('a512', ctx.flags_native(avx512=True, extra=inc)))
        xcfg.append(('march', ctx.flags_native(avx512=False, extra=inc + ['-march=native'])))
        import shutil
        if shutil.which('clang++'):  # another compiler (argument evaluation order, different code generation); optional
            xcfg.append(('clang', ctx.flags_native(avx512=False, omp=False, extra=inc + ['--cxx=clang++', '--optional'])))
        for tag, fl in xcfg:
            objs.append((pre + '_nat_%s.o' % tag, [KTU], fl + ['-DKNS=nat', '-c'], []))
    ctx.xcfg = [t_ for t_, _ in xcfg]
    o = ctx.compile_many(objs)
    base = ['-std=c++17', '-O2', '-fopenmp', '-w', '-I' + vlib.COMMON, '-I' + H]
    for tag, fl in xcfg:
        if pre + '_nat_%s.o' % tag in o:
            jobs.append((pre + '_native_' + tag, [MAIN, o[pre + '_nat_%s.o' % tag]], base + ['-DHAVE_NAT'], []))
    if native_ok:
        jobs.append((pre + '_native', [MAIN, o[pre + '_nat.o']], base + ['-DHAVE_NAT'], []))
    if t:
        for w in widths:
            if pre + '_w%d.o' % w in o:
                jobs.append((pre + '_w%d' % w, [MAIN, o[pre + '_w%d.o' % w]], base + ['-DHAVE_MDL'], []))
        if native_ok and pre + '_w32.o' in o:
            jobs.append((pre + '_conf', [MAIN, o[pre + '_w32.o'], o[pre + '_nat.o']], base + ['-DHAVE_MDL', '-DHAVE_NAT'], []))
        elif pre + '_w32.o' in o:
            jobs.append((pre + '_model32', [MAIN, o[pre + '_w32.o']], base + ['-DHAVE_MDL'], []))
    ctx.bins = ctx.compile_many(jobs)
    ctx.widths = widths
    ctx.family = family


def explore(ctx):
    fam = ctx.family
    pre = 'k_' + fam
    fa = ['--family', fam]
    ctx.rule = ('per kernel: all operand pairs/values admitted by the documented operand assumption, executed through the repository header '
                'recompiled at half-word width w against the software intrinsics model, every pair in every lane position (w<=4); '
                'compiled kernels on all ordered alphabet pairs; model(w=32) vs hardware bit-for-bit on the same pairs. '
                'state = (kernel, operand tuple); transition = one lane evaluation; non-trivial = path signature (vector of compare/mask results) with a correction taken')
    ctx.bounds = {'scaled_widths': ctx.widths, 'alphabet': 'A_t' if ctx.tier == 'thorough' else 'A_q', 'family': fam}
    ctx.assumptions = ['software model of %d intrinsics is bit-exact at w=32 (checked kernel-by-kernel against the hardware in this run when the CPU supports the family)' % 50,
                       'small-scope: all inputs for w in the listed widths; 64-bit layer on alphabets and lifted path signatures',
                       'operand assumptions taken from the header comments: shifted/canonical first operand, b<=p-1, multiplier < 2^8 (scaled: < min(2^8,2^w)), c_h < 2^w for the 96-bit reduction']
    sigs = []
    for tag in getattr(ctx, 'xcfg', []):
        n = pre + '_native_' + tag
        if n in ctx.bins:
            ctx.run_step(n, ctx.bins[n], fa)
            ctx.bounds.setdefault('other build configurations of the same kernels', []).append({'a512': '-mavx512f -D__AVX512__', 'march': '-march=native', 'clang': 'clang++'}[tag])
    if ctx.native_ok:
        ctx.run_step(pre + '_native', ctx.bins[pre + '_native'], fa)
    else:
        ctx.notes.append('CPU lacks avx512f: compiled AVX-512 kernels not executed; w=32 software model stands in')
        ctx.uncovered.append('native AVX-512 execution (no avx512f on this CPU)')
    for w in ctx.widths:
        n = pre + '_w%d' % w
        if n in ctx.bins:
            r = ctx.run_step(n, ctx.bins[n], fa)
            if r:
                for line in r['_stdout'].split('\n'):
                    if line.startswith('INFO sig '):
                        sigs.append(line[len('INFO sig '):])
    if pre + '_conf' in ctx.bins:
        sf = os.path.join(ctx.build_dir, 'sigs_%s.txt' % fam)
        open(sf, 'w').write('\n'.join(sigs) + '\n')
        ctx.run_step(pre + '_conf', ctx.bins[pre + '_conf'], fa + ['--sigfile', sf])
    elif pre + '_model32' in ctx.bins:
        pass
    ctx.infos = [i for i in ctx.infos if not i.startswith('sig ')][:40]
