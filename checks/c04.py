from checks import ntt_common as K
def build(ctx, only_step=None): K.build(ctx, only_step)
def explore(ctx): K.explore(ctx, 'C04')
