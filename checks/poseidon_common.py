"""Build helper shared by C06, C07, C08 (and C18): one harness source built natively for AVX2,
natively for AVX-512 and width-scaled (w=8) against the scaled source tree."""
import os
from lib import vlib
H = vlib.HARNESS


def variants(ctx, main, prefix, scaled=True, extra=(), only_step=None):
    inc = ['-I' + H] + list(extra)
    src = [os.path.join(vlib.SRC, f) for f in ('poseidon_goldilocks.cpp', 'goldilocks_base_field.cpp')]
    jobs = [(prefix + '_avx2', [main] + src, ctx.flags_native(extra=inc), ['-lgmp'])]
    if ctx.hardware_avx512:
        jobs.append((prefix + '_avx512', [main] + src, ctx.flags_native(avx512=True, extra=inc), ['-lgmp']))
    else:
        ctx.uncovered.append('native AVX-512 execution (no avx512f on this CPU); the w=8 model build still runs the AVX-512 source')
    if scaled:
        t = ctx.scaled_tree()
        if t:
            ssrc = [os.path.join(t, f) for f in ('poseidon_goldilocks.cpp', 'goldilocks_base_field.cpp')]
            jobs.append((prefix + '_w8', [main] + ssrc, ctx.flags_scaled(8, avx512=True, extra=inc), ['-lgmp']))
    if only_step:
        jobs = [j for j in jobs if j[0] == only_step]
    return jobs
