"""C17 strided / offset / broadcast base-field wrappers and bulk copies move the right data (DESIGN §4 C17, engine ovl)."""
import os, sys
from lib import vlib
sys.path.insert(0, os.path.join(vlib.VERIF, 'engine', 'ovl'))
import ovlcheck

MAIN = os.path.join(vlib.HARNESS, 'c17_ovl.cpp')
PAR = os.path.join(vlib.HARNESS, 'c17_par.cpp')


def build(ctx, only_step=None):
    bf = os.path.join(vlib.SRC, 'goldilocks_base_field.cpp')
    extra = []
    for mode in ('plain', 'asan'):
        name = 'c17_par_' + mode
        if only_step and only_step != name:
            continue
        fl = ctx.flags_native(extra=['-O1'] + (ovlcheck.ASAN if mode == 'asan' else []))
        extra.append((name, [PAR, bf], fl, ['-lgmp']))
    ovlcheck.build(ctx, 'C17', MAIN, only_step, extra_links=extra)


def explore(ctx):
    ctx.rule = ('catalogue of every copy/add/sub/mul _batch/_avx/_avx512 helper declared in class Goldilocks (comments removed, pure lane kernels excluded), matched to its definition; '
                'spec by rule from name + parameter list (engine/ovl/decls.py); one generated wrapper per overload. state = (overload, stride/index configuration, value pass); '
                'transition = one call; per call: lane k of the result (register, contiguous, strided or indexed) == (a op b) mod p on the k-th designated operands, every other position of the '
                'result arena keeps its sentinel, inputs / index arrays unchanged; alias forms (result object == operand object, both operands one object) judged against a snapshot of the operands taken before the call; ASan build: inputs are exact-size heap blocks. '
                'parcpy/parSetZero: state = (function, size, thread argument); destination element-wise, guard zones / exact heap blocks around it, source unchanged. '
                'non-trivial = non-unit stride, non-identity index array, non-canonical operand; for parcpy: thread argument < 1, > size or not dividing size')
    ctx.assumptions = ['the intended semantics of a helper is what its name and parameters promise under the rule of engine/ovl/decls.py; helpers the rule cannot classify or that have no definition are reported uncovered',
                       'result carriers are not enumerated with colliding lanes (stride 0, repeated indices); aliasing only in the whole-object forms listed per overload (c:a, c:b, a:b, c:a:b: same register object / same array with identical designated positions), never partially overlapping',
                       'operand values: finite boundary alphabet in every position and relative rotation; lane arithmetic itself is the subject of C02/C11',
                       'parcpy/parSetZero: sizes {0..40,63,64,65,1000} x thread arguments {INT_MIN,-1,0,1,2,3,7,64,size,size+1}; real OpenMP runtime, one schedule per call (no schedule enumeration: chunks are disjoint by construction)']
    ovlcheck.explore(ctx, 'C17')
    ctx.bounds['parcpy/parSetZero'] = 'size in {0..40,63,64,65,1000} x threads in {INT_MIN,-1,0,1,2,3,7,64,size,size+1} x {top level, nested}; dense sweep: every size 41..18432 and +-70 around mined constants and their doubles x threads {7,13}'
    ctx.bounds['mined literals'] = ctx.lits()
    for name in ('c17_par_plain', 'c17_par_asan'):
        if name in ctx.bins:
            ctx.run_step(name, ctx.bins[name], ['--lits', ctx.lits_arg()], tag=name)
