"""C10 base-field inv / div / exp (DESIGN §4 C10)."""
import os
from lib import vlib
MAIN = os.path.join(vlib.HARNESS, 'c10_inv.cpp')


def build(ctx, only_step=None):
    jobs = [('c10_native', [MAIN, os.path.join(vlib.SRC, 'goldilocks_base_field.cpp')], ctx.flags_native(), ['-lgmp'])]
    t = ctx.scaled_tree()
    if t:
        for w in (2, 4):
            jobs.append(('c10_w%d' % w, [MAIN, os.path.join(t, 'goldilocks_base_field.cpp')], ctx.flags_scaled(w), ['-lgmp']))
    if only_step:
        jobs = [j for j in jobs if j[0] == only_step]
    ctx.bins = ctx.compile_many(jobs)


def explore(ctx):
    ctx.rule = ('scaled w=2,4 (p_w = 13, 241 prime): inv on ALL representations with a mod p != 0 (a*inv(a)=1), div on all (x,a), exp on all (b,e) in [0,2^2w)^2 plus 190 large exponents; '
                'native: inv/div on the alphabet plus continued-fraction-hard operands, exp on alphabet x 260 exponents; zero operands (0 and p) in a child process must not return; '
                'every worker under a watchdog (termination). state = (op, operands); transition = one call; non-trivial = non-canonical operand')
    ctx.bounds = {'scaled_widths': [2, 4], 'alphabet': 'A_t' if ctx.tier == 'thorough' else 'A_q',
                  'euclid quotient words': ('every word over {1..8, 2^10, 2^20, 2^31} up to length 5 (operand floor(p/[q1;..;qk]) and its neighbours), sparse words +-2^i+-2^j, 2^i+2^j+2^k'
                                            if ctx.tier == 'thorough' else 'every word over {1,2,3,7,2^20} up to length 4 (operand floor(p/[q1;..;qk]) and its neighbours)')}
    ctx.assumptions = ['w=8 is not used: p_8 = 65281 = 97*673 is composite, inverses do not exist for all residues', 'oracle: own square-and-multiply and multiplication with __int128']
    for n in ('c10_native', 'c10_w2', 'c10_w4'):
        if n in ctx.bins:
            ctx.run_step(n, ctx.bins[n])
