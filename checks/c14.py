from checks import matrix_common as K
def build(ctx, only_step=None): K.build(ctx, 'avx512', only_step)
def explore(ctx): K.explore(ctx)
