"""C19 transform objects are reusable: BFS over call histories on the real object (DESIGN §4 C19)."""
import os
from lib import vlib
MAIN = os.path.join(vlib.HARNESS, 'c19_history.cpp')


def build(ctx, only_step=None):
    src = [os.path.join(vlib.SRC, f) for f in ('ntt_goldilocks.cpp', 'goldilocks_base_field.cpp')]
    ctx.bins = ctx.compile_many([('c19_bfs', [MAIN] + src, ctx.flags_native(extra=['-I' + vlib.HARNESS]), ['-lgmp'])])


def explore(ctx):
    ctx.rule = ('explicit-state BFS over the real NTT_Goldilocks object: state = call history replayed on a fresh object, canonical key = private fields '
                '(s, nThreads, extension, hashes of roots/powTwoInv, r==NULL or the N it was built for with hashes of r and r_) + process-wide default OpenMP team size; '
                'from every new key ALL calls of the alphabet {NTT, INTT, extendPol} x sizes 2^k<=D x ncols{1,3} x nphase{1,2,3} x nblock{1,2} are applied; per transition the output must equal '
                'a fresh object\'s output for the same arguments and the closed-form oracle; replaying a history must reproduce its key. non-trivial = transition taken from a non-initial state')
    ctx.bounds = {'objects': '(D=8,nThreads=1),(D=8,nThreads=3)' + (',(D=16,2),(D=4,5)' if ctx.tier == 'thorough' else ''), 'depth_cap': 4 if ctx.tier == 'thorough' else 3,
                  'search ends': 'when a BFS level adds no new canonical state (reported in notes) or at the depth cap',
                  'deep part': 'all histories up to depth %d over 6 large calls (2^12..2^14) on an object of domain 2^13, without state merging' % (5 if ctx.tier == 'thorough' else 4)}
    ctx.assumptions = ['canonicalisation: later results depend only on the call arguments, constructor tables, (r, r_) and the default team size -- all in the key; fields that are hashed are compared by content']
    r = ctx.run_step('c19_bfs', ctx.bins['c19_bfs'], ['--lits', ctx.lits_arg()])
    if ctx.stats.get('framework_replay_divergence', 0):
        # the same call history replayed on a fresh object led to a different canonical key: the object's state is not a function of
        # the calls made on it (e.g. a table that a background thread is still filling) -- that is C19's claim failing, not the harness
        ctx.viols.append({'sig': 'C19.state-not-a-function-of-the-history', 'case': '', 'step': 'c19_bfs', 'args': ['--lits', ctx.lits_arg()], 'noreplay': True,
                          'detail': '%d replay(s) of a recorded call history on a fresh object did not reproduce the recorded canonical key (private fields of the object)' % ctx.stats.get('framework_replay_divergence', 0)})
        ctx.exhaustive = False
    if ctx.stats.get('depth_cap_hit', 0):
        ctx.exhaustive = False
        ctx.incomplete.append('BFS depth cap reached with unexpanded states')
    ctx.stats['traces_validated_against_impl'] = ctx.stats.get('transitions', 0)
    ctx.infos = [i for i in ctx.infos if i.startswith('bfs') or i.startswith('deep')]
