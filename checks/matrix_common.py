"""Shared by C13 (AVX2) and C14 (AVX-512): 12-wide dot/sparse/dense kernels (DESIGN §4 C13/C14)."""
import os
from lib import vlib
H = vlib.HARNESS
MAIN = os.path.join(H, 'c13_matrix.cpp')
MTU = os.path.join(H, 'mat_tu.cpp')


def build(ctx, family, only_step=None):
    avx512 = family == 'avx512'
    pre = 'm_' + family
    inc = ['-I' + H]
    ctx.native_ok = (not avx512) or ctx.hardware_avx512
    t = ctx.scaled_tree()
    widths = [2, 4, 8] if ctx.tier == 'thorough' else [2, 4]
    if only_step and only_step.endswith('w8'):
        widths = [2, 4, 8]
    objs = []
    if ctx.native_ok:
        objs.append((pre + '_nat.o', [MTU], ctx.flags_native(avx512=avx512, extra=inc + ['-DKNS=nat', '-c']), []))
    if t:
        for w in widths:
            objs.append((pre + '_w%d.o' % w, [MTU], ctx.flags_scaled(w, avx512=avx512, extra=inc + ['-DKNS=mdl', '-c']), []))
    # other build configurations of the SAME kernels: the AVX2 kernels inside an AVX-512 build (-mavx512f -D__AVX512__) and under
    # -march=native (whatever ISA macros this CPU defines, e.g. __AVX512VL__): code behind #ifdef is code too
    xcfg = []
    if not avx512:
        if ctx.hardware_avx512:
            xcfg.append(('a512', ctx.flags_native(avx512=True, extra=inc)))
        xcfg.append(('march', ctx.flags_native(avx512=False, extra=inc + ['-march=native'])))
        import shutil
        if shutil.which('clang++'):  # another compiler (argument evaluation order, different code generation); optional
            xcfg.append(('clang', ctx.flags_native(avx512=False, omp=False, extra=inc + ['--cxx=clang++', '--optional'])))
        for tag, fl in xcfg:
            objs.append((pre + '_nat_%s.o' % tag, [MTU], fl + ['-DKNS=nat', '-c'], []))
    ctx.xcfg = [t_ for t_, _ in xcfg]
    o = ctx.compile_many(objs)
    jobs = []
    for tag, fl in xcfg:
        if pre + '_nat_%s.o' % tag in o:
            lf = fl if tag != 'clang' else ctx.flags_native(avx512=False, extra=inc + ['--optional'])  # the clang object is linked into a g++ harness
            jobs.append((pre + '_native_' + tag, [MAIN, o[pre + '_nat_%s.o' % tag], os.path.join(vlib.SRC, 'goldilocks_base_field.cpp')], lf + ['-DHAVE_NAT'], ['-lgmp']))
    if ctx.native_ok:
        jobs.append((pre + '_native', [MAIN, o[pre + '_nat.o'], os.path.join(vlib.SRC, 'goldilocks_base_field.cpp')], ctx.flags_native(avx512=avx512, extra=inc + ['-DHAVE_NAT']), ['-lgmp']))
    if t:
        for w in widths:
            if pre + '_w%d.o' % w not in o:
                continue
            jobs.append((pre + '_w%d' % w, [MAIN, o[pre + '_w%d.o' % w], os.path.join(t, 'goldilocks_base_field.cpp')], ctx.flags_scaled(w, avx512=avx512, extra=inc + ['-DHAVE_MDL']), ['-lgmp']))
    ctx.bins = ctx.compile_many(jobs)
    ctx.widths = widths
    ctx.family = family


def explore(ctx):
    fam = ctx.family
    pre = 'm_' + fam
    fa = ['--family', fam]
    ctx.rule = ('chain: every (a0,b0,a1,b1,a2,b2) in [0,16)^6 per lane at w=2 through the real spmv/dot source; addchain: state=1 so the multiplier returns the raw coefficient, '
                'every triple of representations through the adder chain (all 256^3 at w=4); colsum: every 4-tuple of row-result representations through the column sums; '
                'chain8: 8-bit variants over all admitted coefficient triples; routing: tagged states x every unit coefficient array; dev2/generators natively: <=2 deviations over the alphabet and '
                'lane products equal to 2^64-1-delta. state = (kernel, lane operand tuple); transition = one kernel call; non-trivial = call with a non-canonical output representation')
    ctx.bounds = {'scaled_widths': ctx.widths, 'family': fam, '8-bit bound at width w': 'min(256, floor((2^w-1)/3)+1)'}
    ctx.assumptions = ['scaled precondition of the _8 variants: coefficients < B_w with 3*(B_w-1) < 2^w (at w=32: the documented 2^8)',
                       'aligned variants are given 32/64-byte aligned coefficient arrays',
                       'oracle: integer matrix-vector product mod p with __int128']
    if ctx.native_ok:
        ctx.run_step(pre + '_native', ctx.bins[pre + '_native'], fa)
    else:
        ctx.uncovered.append('native AVX-512 execution (no avx512f on this CPU)')
    for tag in getattr(ctx, 'xcfg', []):
        n = pre + '_native_' + tag
        if n in ctx.bins:
            ctx.run_step(n, ctx.bins[n], fa)
            ctx.bounds.setdefault('other build configurations of the same kernels', []).append({'a512': '-mavx512f -D__AVX512__', 'march': '-march=native', 'clang': 'clang++'}[tag])
    for w in ctx.widths:
        n = pre + '_w%d' % w
        if n in ctx.bins:
            ctx.run_step(n, ctx.bins[n], fa)
    ctx.stats['traces_validated_against_impl'] = ctx.stats.get('traces_validated_against_impl', 0) + ctx.stats.get('states_w32_native', 0)
