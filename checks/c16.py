"""C16 every batched / AVX2 / AVX-512 cubic-extension variant equals the scalar operation (DESIGN §4 C16, engine ovl)."""
import os, sys
from lib import vlib
sys.path.insert(0, os.path.join(vlib.VERIF, 'engine', 'ovl'))
import ovlcheck

MAIN = os.path.join(vlib.HARNESS, 'c16_ovl.cpp')


def build(ctx, only_step=None):
    ovlcheck.build(ctx, 'C16', MAIN, only_step)


def explore(ctx):
    ctx.rule = ('catalogue of every add*/sub*/mul*/copy* _batch/_avx/_avx512 overload of class Goldilocks3 parsed from the header of the tree under test (comments removed); '
                'spec by rule from name + parameter list (engine/ovl/decls.py, exceptions listed in engine/ovl/exceptions.tsv); one generated wrapper per overload. '
                'state = (overload, stride/index configuration, value pass); transition = one call of the overload; per call: element k of the result (in its layout: interleaved, '
                'strided, indexed, planar registers) == scalar extension operation (coefficient-wise add/sub, schoolbook product mod x^3-x-1, __int128) on the k-th designated operands, '
                'every other position of the result arena still holds its sentinel, inputs / index arrays unchanged; alias forms (result object == operand object, both operands one object) judged against a snapshot of the operands taken before the call; ASan build: every input array is an exact-size heap block. '
                'non-trivial = non-unit stride, non-identity index array or non-canonical operand')
    ctx.assumptions = ['the intended semantics of an overload is what its name and parameters promise under the rule of engine/ovl/decls.py; overloads the rule cannot classify are reported uncovered, never judged',
                       'result carriers are not enumerated with colliding lanes (stride 0, stride < element size, repeated indices); aliasing only in the whole-object forms listed per overload (c:a, c:b, a:b, c:a:b: same register object / same array with identical designated positions), never partially overlapping',
                       'operand values: a finite boundary alphabet in every position and relative rotation, not all of 2^64; lane arithmetic itself is the subject of C02/C11',
                       'oracle: unsigned __int128 arithmetic mod p, results compared as field elements (value mod p)']
    ovlcheck.explore(ctx, 'C16')
