"""C12 parallel regions are race-free and schedule independent (DESIGN §4 C12, engine teamsched)."""
import os
from lib import vlib
H = vlib.HARNESS
TS = vlib.TEAMSCHED
MAIN = os.path.join(H, 'c12_sched.cpp')
LIBSRC = ['ntt_goldilocks.cpp', 'poseidon_goldilocks.cpp', 'goldilocks_base_field.cpp', 'goldilocks_cubic_extension.cpp']
WRAP = '-Wl,--wrap=memcpy,--wrap=memset,--wrap=memmove,--wrap=malloc,--wrap=free'


def build(ctx, only_step=None):
    avx512 = ctx.hardware_avx512
    inst = ['-std=c++17', '-O1', '-mavx2', '-fopenmp', '-fsanitize=thread', '-fno-builtin-memcpy', '-fno-builtin-memset', '-fno-builtin-memmove',
            '-fno-access-control', '-w', '-I' + vlib.SRC, '-I' + vlib.COMMON, '-I' + TS]
    if avx512:
        inst += ['-mavx512f', '-D__AVX512__']
    objs = [('ts_%s.o' % f[:-4], [os.path.join(vlib.SRC, f)], inst + ['-c'], []) for f in LIBSRC]
    objs.append(('c12_h.o', [MAIN], inst + ['-c'], []))
    objs.append(('teamsched.o', [os.path.join(TS, 'teamsched.cpp')], ['-std=c++17', '-O2', '-w', '-I' + TS, '-c'], []))
    # free-running ThreadSanitizer build: same sources, real libtsan, pthread stand-in for the OpenMP runtime
    objs.append(('c12_free_h.o', [MAIN], inst + ['-DFREE_RUNNING', '-c'], []))
    objs.append(('gomp_pthread.o', [os.path.join(TS, 'gomp_pthread.cpp')], ['-std=c++17', '-O1', '-fsanitize=thread', '-w', '-c'], []))
    o = ctx.compile_many(objs)
    libo = [o['ts_%s.o' % f[:-4]] for f in LIBSRC]
    jobs = [('c12_sched', [o['c12_h.o']] + libo + [o['teamsched.o']], [WRAP], ['-lgmp']),
            ('c12_free', [o['c12_free_h.o']] + libo + [o['gomp_pthread.o']], ['-fsanitize=thread', '-pthread'], ['-lgmpxx', '-lgmp'])]
    ctx.bins = ctx.compile_many(jobs)


def explore(ctx):
    th = ctx.tier == 'thorough'
    ctx.rule = ('own OpenMP runtime (no libgomp): (serial) every scenario x team size x member order (all T! for T<=4, rotations+reflections up to 8, identity+reversed above) with exact per-member access sets: '
                'in every region W_i n (R_j u W_j) must be empty and the output bit-identical to the single-member run; (coop) for every region of the small scenarios ALL interleavings with <= b preemptions '
                'at element granularity (scheduling points: region start, member end, first touch of each 8-byte element of a data buffer, every mem* call on one), end-of-region memory state equal to the default schedule '
                '(so per-region exploration covers the cross product) and final output equal to the reference; (free) the same scenario bodies under real ThreadSanitizer with a pthread stand-in. '
                'state = (scenario, team, order/schedule); transition = one parallel region executed (serial) or one schedule (coop)')
    ctx.bounds = {'team_sizes': '1,2,3,4,5,8 (thorough: ..9,16,17); parcpy/parSetZero thread arguments -1,0,1,2,3,64,101', 'preemption_bound': '3 for teams of 2 and 3, 2 for teams of 4' if th else 2,
                  'coop_team_sizes': [2, 3, 4] if th else [2, 3], 'transform sizes': '4,8,16 (thorough 2..32); coop: 4,8'}
    ctx.assumptions = ['conflict-free access sets in a region without internal synchronisation make all its interleavings one Mazurkiewicz trace: one execution per member order then covers every schedule (partial-order reduction); the coop exploration checks this independently within its bound',
                       'sequential consistency; weaker memory-model effects are irrelevant for race-free regions, which is what is decided',
                       'accesses are those the compiler instruments (-fsanitize=thread, mem* builtins disabled) plus wrapped mem* calls; inline asm in the scalar field ops reads only constants',
                       'static schedules: the mapping iteration->member is fixed by team size and chunk, so orders and interleavings of members are the only nondeterminism']
    ctx.bounds['mined literals'] = ctx.lits()
    ctx.run_step('c12_serial', ctx.bins['c12_sched'], ['--part', 'serial', '--lits', ctx.lits_arg()])
    ctx.steps['c12_serial'] = ctx.steps['c12_sched']
    ctx.run_step('c12_coop', ctx.bins['c12_sched'], ['--part', 'coop'])
    ctx.steps['c12_coop'] = ctx.steps['c12_sched']
    # free-running pass: any ThreadSanitizer report is a violation
    import subprocess
    env = vlib.harness_env()
    env['TSAN_OPTIONS'] = 'halt_on_error=1:exitcode=66:report_signal_unsafe=0'  # stop at the first report: a racy run may not terminate
    try:
        r = subprocess.run([ctx.bins['c12_free'], '--tier', ctx.tier, '--lits', ctx.lits_arg()], capture_output=True, text=True, timeout=max(60, ctx.time_left()), env=env, errors='replace')
        n = r.stderr.count('WARNING: ThreadSanitizer: data race')
        if 'REENTRANCY-MISMATCH' in r.stdout:
            ctx.viols.append({'sig': 'C12.reentrancy-mismatch', 'case': 'free-running', 'detail': [l for l in r.stdout.split('\n') if l.startswith('REENTRANCY')][0], 'step': 'c12_free', 'noreplay': True})
        for line in r.stdout.split('\n'):
            if line.startswith('STAT free_running_executions'):
                ctx.stats['free_running_executions'] = int(line.split()[2])
        ctx.stats['tsan_reports'] = n
        if r.returncode not in (0, 66) and n == 0:
            ctx.uncovered.append('free-running ThreadSanitizer pass did not run to completion (rc=%d): %s' % (r.returncode, r.stderr[-200:]))
        if n:
            first = r.stderr[r.stderr.find('WARNING: ThreadSanitizer'):][:1500]
            loc = ''
            import re
            m = re.search(r'#0 (\S+)', first)
            if m:
                loc = m.group(1)[:60]
            ctx.viols.append({'sig': 'C12.tsan-race.' + re.sub(r'[^A-Za-z0-9_:]', '_', loc), 'case': 'free-running', 'detail': first.replace('\n', ' | ')[:600], 'step': 'c12_free', 'noreplay': True})
    except subprocess.TimeoutExpired as e:
        err = e.stderr.decode(errors='replace') if isinstance(e.stderr, bytes) else (e.stderr or '')
        if 'WARNING: ThreadSanitizer: data race' in err:
            ctx.viols.append({'sig': 'C12.tsan-race.timeout', 'case': 'free-running', 'detail': err[err.find('WARNING: ThreadSanitizer'):][:600].replace('\n', ' | '), 'step': 'c12_free', 'noreplay': True})
        else:
            ctx.incomplete.append('free-running ThreadSanitizer pass hit the time limit')
    ctx.stats['traces_validated_against_impl'] = ctx.stats.get('states', 0)
    ctx.infos = [i for i in ctx.infos if 'distinct terminal' in i][:20]
