"""C18 no out-of-bounds, mismatched-free or undefined behaviour (DESIGN §4 C18).

Not a separate driver: the harness bodies of C03-C09, C13, C14, C16, C17, C19 are rebuilt with
AddressSanitizer + UndefinedBehaviorSanitizer and run over the same exhaustive enumerations
(exact-size guard-page arenas, exact poisoned heap blocks, object construction/destruction after
every explored history).  A sanitizer report is attributed to the enumerated case and becomes a
C18 violation with signature C18.<sanitizer>.<kind>.<file:line>."""
import os, re, sys
from lib import vlib
from checks import poseidon_common as PC
H = vlib.HARNESS
SAN = ['-fsanitize=address,undefined', '-fno-sanitize-recover=undefined', '-fno-omit-frame-pointer', '-g1', '-O1']
SAN_ENV = {'ASAN_OPTIONS': 'detect_leaks=0:alloc_dealloc_mismatch=1:new_delete_type_mismatch=1:halt_on_error=1:abort_on_error=1:detect_stack_use_after_return=0:allocator_may_return_null=1',
           'UBSAN_OPTIONS': 'print_stacktrace=0:halt_on_error=1:print_summary=1'}


def san_flags(ctx, avx512=False, extra=()):
    f = ctx.flags_native(avx512=avx512, extra=['-I' + H] + list(extra))
    f = [x for x in f if x != '-O2'] + SAN
    return f


def build(ctx, only_step=None):
    S = vlib.SRC
    src = lambda *n: [os.path.join(S, x) for x in n]
    jobs = []
    a512 = ctx.hardware_avx512
    jobs.append(('c18_ntt', [os.path.join(H, 'c03_ntt.cpp')] + src('goldilocks_base_field.cpp'), san_flags(ctx), ['-lgmp']))
    jobs.append(('c18_hist', [os.path.join(H, 'c19_history.cpp')] + src('ntt_goldilocks.cpp', 'goldilocks_base_field.cpp'), san_flags(ctx), ['-lgmp']))
    for name, main in (('c18_sponge', 'c07_sponge.cpp'), ('c18_merkle', 'c08_merkle.cpp'), ('c18_poseidon', 'c06_poseidon.cpp')):
        jobs.append((name + '_avx2', [os.path.join(H, main)] + src('poseidon_goldilocks.cpp', 'goldilocks_base_field.cpp'), san_flags(ctx), ['-lgmp']))
        if a512:
            jobs.append((name + '_avx512', [os.path.join(H, main)] + src('poseidon_goldilocks.cpp', 'goldilocks_base_field.cpp'), san_flags(ctx, avx512=True), ['-lgmp']))
    jobs.append(('c18_cubic', [os.path.join(H, 'c09_cubic.cpp')] + src('goldilocks_base_field.cpp', 'goldilocks_cubic_extension.cpp'), san_flags(ctx), ['-lgmpxx', '-lgmp']))
    jobs.append(('c18_conv', [os.path.join(H, 'c15_conv.cpp')] + src('goldilocks_base_field.cpp'), san_flags(ctx), ['-lgmpxx', '-lgmp']))
    jobs.append(('c18_stack', [os.path.join(H, 'c18_stack.cpp')] + src('poseidon_goldilocks.cpp', 'goldilocks_base_field.cpp', 'ntt_goldilocks.cpp', 'goldilocks_cubic_extension.cpp'),
                 ctx.flags_native(avx512=a512, extra=['-I' + H]), ['-lgmp', '-lpthread']))  # plain build: the sanitizers change the stack layout
    jobs.append(('c18_inv', [os.path.join(H, 'c10_inv.cpp')] + src('goldilocks_base_field.cpp'), san_flags(ctx), ['-lgmp']))
    # matrix kernels: coefficient arrays become exact-size heap blocks (-DEXACT_HEAP) so over-reads are visible
    objs = [('c18_mat_tu.o', [os.path.join(H, 'mat_tu.cpp')], san_flags(ctx, avx512=a512, extra=['-DKNS=nat', '-DEXACT_HEAP', '-c']), [])]
    if only_step:
        jobs = [j for j in jobs if j[0] == only_step]
    o = ctx.compile_many(objs + jobs)
    if not only_step or only_step == 'c18_matrix':
        o.update(ctx.compile_many([('c18_matrix', [os.path.join(H, 'c13_matrix.cpp'), o['c18_mat_tu.o']] + src('goldilocks_base_field.cpp'), san_flags(ctx, avx512=a512, extra=['-DHAVE_NAT']), ['-lgmp'])]))
    ctx.bins = o
    # overload catalogue (C16/C17): reuse the engine's own ASan builds
    ctx.ovl_bins = {}
    if not only_step or only_step.startswith('c16_') or only_step.startswith('c17_'):
        sys.path.insert(0, os.path.join(vlib.VERIF, 'engine', 'ovl'))
        import ovlcheck
        for prop, main in (('C16', 'c16_ovl.cpp'), ('C17', 'c17_ovl.cpp')):
            saved = ctx.bins
            try:
                b = ovlcheck.build(ctx, prop, os.path.join(H, main), only_step)
                for name, isa, mode in ctx.ovl_steps:
                    if mode == 'asan' and name in b:
                        ctx.ovl_bins[name] = b[name]
            finally:
                ctx.bins = saved


def _san_sig(text):
    """(sanitizer, kind, location) from a sanitizer SUMMARY / runtime error line"""
    m = re.search(r'SUMMARY: (\w+)Sanitizer: (\S+) .*? @ ([^ :]+):(\d+)', text)
    if m:
        return ('asan' if m.group(1) == 'Address' else 'ubsan', m.group(2), '%s:%s' % (os.path.basename(m.group(3)), m.group(4)))
    m = re.search(r'SUMMARY: (\w+)Sanitizer: (\S+) (\S+?):(\d+)', text)
    if m:
        return ('asan' if m.group(1) == 'Address' else 'ubsan', m.group(2), '%s:%s' % (os.path.basename(m.group(3)), m.group(4)))
    m = re.search(r'SUMMARY: (\w+)Sanitizer: (\S+)', text)
    if m:
        return ('asan' if m.group(1) == 'Address' else 'ubsan', m.group(2), 'unknown')
    m = re.search(r'(\S+?):(\d+):\d+: runtime error: (.*)', text)
    if m:
        kind = re.sub(r'[^a-z]+', '-', m.group(3).lower())[:40].strip('-')
        return ('ubsan', kind, '%s:%s' % (os.path.basename(m.group(1)), m.group(2)))
    return None


def explore(ctx):
    ctx.rule = ('the enumerations of C03-C05 (all configurations), C19 (all histories, object destroyed after each), C07/C08 (all lengths / shapes), C06, C09, C10, C15, C13/C14 (exact heap coefficient blocks) '
                'and the C16/C17 overload catalogue are re-run on AddressSanitizer+UBSan builds; every sanitizer report is attributed to the enumerated case. '
                'state = enumerated case of the underlying harness; transition = one library call under the sanitizers; non-trivial as defined by the underlying harness')
    ctx.bounds = {'tier of the underlying enumerations': ctx.tier, 'light': 'sanitizer builds skip the cases that exist only for scale (sponge lengths > 40000, Merkle rows > 4096, transforms > 2^13): they add no new memory-access pattern', 'sanitizers': 'address (incl. alloc/dealloc and new/delete type mismatch), undefined (non-recoverable)'}
    ctx.assumptions = ['uninitialised reads are not detected (MemorySanitizer needs an instrumented libstdc++/gmp, not available offline); guard-page arenas and sentinels bound reads/writes of vector code that ASan does not instrument (inline asm)',
                       'leak detection is off: explored cases end their process with _exit']
    env = dict(SAN_ENV)
    seen_other = {}
    ctx.replay_env = dict(SAN_ENV)

    def mapper(sig, detail):
        ss = _san_sig(detail)
        return ('C18.%s.%s.%s' % ss) if ss else None
    ctx.sig_mapper = mapper

    def absorb(step, local, before):
        # violations added by this step: keep sanitizer ones as C18, drop functional ones (they belong to the property of that harness)
        new = ctx.viols[before:]
        del ctx.viols[before:]
        for v in new:
            ss = _san_sig(v['detail'])
            if v['sig'].startswith('C18.stack-overflow.'):
                ctx.viols.append(v)
            elif ss:
                v = dict(v)
                v['sig'] = 'C18.%s.%s.%s' % ss
                ctx.viols.append(v)
            else:
                seen_other[v['sig']] = seen_other.get(v['sig'], 0) + 1
        if local and local.get('_rc', 0) != 0:
            ss = _san_sig(local.get('_stderr', ''))
            if ss:
                err = local['_stderr']
                i = err.find('ERROR: AddressSanitizer')
                if i < 0:
                    i = err.find('runtime error')
                ctx.viols.append({'sig': 'C18.%s.%s.%s' % ss, 'case': '', 'detail': '%s ended on a sanitizer report: %s' % (step, err[max(0, i - 100):i + 600].replace('\n', ' | ')), 'step': step, 'noreplay': True})
            else:
                raise vlib.FrameworkError('%s exited with %d without a sanitizer report: %s' % (step, local['_rc'], local.get('_stderr', '')[-500:]))

    def run(step, exe, args=()):
        before = len(ctx.viols)
        local = ctx.run_step(step, exe, args, env=env, allow_fail=True)
        absorb(step, local, before)

    b = ctx.bins
    for prop in ('C03', 'C04', 'C05'):
        ctx.steps['c18_ntt_' + prop] = ctx.steps['c18_ntt']
        run('c18_ntt_' + prop, b['c18_ntt'], ['--prop', prop, '--lits', ctx.lits_arg(), '--light', '1'])
        ctx.steps['c18_ntt_' + prop]['extra'] = ['--prop', prop]
    run('c18_hist', b['c18_hist'])
    for n in ('c18_sponge', 'c18_merkle', 'c18_poseidon'):
        for v in ('_avx2', '_avx512'):
            if n + v in b:
                run(n + v, b[n + v], ['--lits', ctx.lits_arg(), '--light', '1'])
    run('c18_cubic', b['c18_cubic'])
    run('c18_conv', b['c18_conv'])
    run('c18_inv', b['c18_inv'])
    run('c18_matrix', b['c18_matrix'])
    if 'c18_stack' in b:
        before = len(ctx.viols)
        local = ctx.run_step('c18_stack', b['c18_stack'], [], allow_fail=True)
        absorb('c18_stack', local, before)
    for name, exe in sorted(ctx.ovl_bins.items()):
        ctx.steps[name] = {'binary': exe}
        run(name, exe)
    if seen_other:
        ctx.notes.append('functional (non-sanitizer) failures seen while running the sanitizer builds, left to their own properties: %s' % seen_other)
    ctx.stats['traces_validated_against_impl'] = ctx.stats.get('transitions', 0)


def prepare_replay(ctx):
    ctx.replay_env = dict(SAN_ENV)

    def mapper(sig, detail):
        ss = _san_sig(detail)
        return ('C18.%s.%s.%s' % ss) if ss else None
    ctx.sig_mapper = mapper
