"""C15 conversions (DESIGN §4 C15)."""
import os
from lib import vlib
MAIN = os.path.join(vlib.HARNESS, 'c15_conv.cpp')


def build(ctx, only_step=None):
    ctx.bins = ctx.compile_many([('c15_conv', [MAIN, os.path.join(vlib.SRC, 'goldilocks_base_field.cpp')], ctx.flags_native(), ['-lgmpxx', '-lgmp'])])


def explore(ctx):
    ctx.rule = ('fromS32 then toS32 on ALL 2^32 int32 values (thorough; quick: +-4096 neighbourhoods of INT32_MIN,-1,0,INT32_MAX and +-2^k); every outward conversion and predicate on raw 64-bit representations '
                'over the alphabet and +-4096 neighbourhoods of 0, 2^31, p-2^31, (p-1)/2, p, 2^63, 2^64; integers k*p+r (k in -2^65,-4..4,2^65; 40 boundary residues) and neighbours of -p, 0, +-2^64 '
                'as strings in every radix 2..36 and as mpz; oracle = GMP floor modulus. state = one value (x radix); transition = one conversion call; non-trivial = negative / non-canonical / out of the outward range')
    ctx.bounds = {'int32': 'all' if ctx.tier == 'thorough' else 'neighbourhoods', 'radices': '2..36', 'alphabet': 'A_t' if ctx.tier == 'thorough' else 'A_q'}
    ctx.assumptions = ['GMP is the oracle for big-integer arithmetic and string parsing']
    ctx.run_step('c15_conv', ctx.bins['c15_conv'])
