"""Shared by C03, C04, C05: configuration explorer for the transforms (DESIGN §4 C03-C05)."""
import os
from lib import vlib
MAIN = os.path.join(vlib.HARNESS, 'c03_ntt.cpp')


def build(ctx, only_step=None):
    src = [os.path.join(vlib.SRC, f) for f in ('goldilocks_base_field.cpp',)]  # ntt_goldilocks.cpp is #included by the harness
    # the same sources with assertions compiled out (-DNDEBUG) are a second build configuration: an expression with a side effect
    # inside assert() disappears there
    ctx.bins = ctx.compile_many([('ntt_cfg', [MAIN] + src, ctx.flags_native(extra=['-I' + vlib.HARNESS]), ['-lgmp']),
                                 ('ntt_cfg_ndebug', [MAIN] + src, ctx.flags_native(extra=['-I' + vlib.HARNESS, '-DNDEBUG']), ['-lgmp'])])


def explore(ctx, prop):
    what = {'C03': 'forward NTT', 'C04': 'inverse NTT', 'C05': 'extendPol'}[prop]
    ctx.rule = ('%s: full cross product of object domain D, size n<=D (incl. 0), ncols, nphase (0..log2 D+2 and 2^64-1), nblock (0,1,2,3,ncols,ncols+1,2^64-1), '
                'scratch buffer NULL/caller, destination = source / other / NULL, constructor thread count; per configuration the complete impulse basis (n calls, column c holds e_(t+c mod n)) '
                'plus one dense non-canonical input; oracle = closed-form kernel with own arithmetic; exact-size guard-page arrays; crashes attributed to the configuration. '
                'state = configuration; transition = one transform call; non-trivial = n<D, NULL destination, nblock != 1 or clamped nphase' % what)
    ctx.bounds = {'D': [1, 2, 4, 8, 16, 32] + ([64, 128] if ctx.tier == 'thorough' else []), 'ncols': [0, 1, 2, 3, 5], 'threads': [1, 2, 3, 7] if ctx.tier == 'thorough' else [1, 3]}
    ctx.assumptions = ['linearity + data-obliviousness: agreement on the impulse basis implies agreement on every input (field ops exact by C01; no data-dependent branches in the transform code)',
                       'w_n is Goldilocks::w(log2 n); the 33-row root table is checked for primitivity and consistency first',
                       'sizes above the bound are not enumerated; every schedule shape (pass counts 1..log2 D, clamping on both sides, parity of passes, block remainders) occurs within it']
    ctx.bounds['mined literals'] = ctx.lits()
    ctx.run_step('ntt_cfg', ctx.bins['ntt_cfg'], ['--prop', prop, '--lits', ctx.lits_arg()], timeout=max(60, ctx.time_left()))
    if 'ntt_cfg_ndebug' in ctx.bins:
        ctx.run_step('ntt_cfg_ndebug', ctx.bins['ntt_cfg_ndebug'], ['--prop', prop, '--lits', ctx.lits_arg(), '--small', '1'], timeout=max(60, ctx.time_left()))
    ctx.stats['traces_validated_against_impl'] = ctx.stats.get('transitions', 0)
