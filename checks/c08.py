"""C08 Merkle tree buffer and root (DESIGN §4 C08)."""
import os
from lib import vlib
from checks import poseidon_common as PC
MAIN = os.path.join(vlib.HARNESS, 'c08_merkle.cpp')


def build(ctx, only_step=None):
    ctx.bins = ctx.compile_many(PC.variants(ctx, MAIN, 'c08', only_step=only_step))


def explore(ctx):
    ctx.rule = ('rows x cols x dim x nThreads x backend (seq, avx, avx512, default wrapper) and, for the batched builders, batch sizes 1..cols+1; three content patterns; '
                'input and tree exact-size and end-aligned against PROT_NONE pages, sentinels before the tree; every element of the tree buffer compared with the reference tree, '
                'size with getTreeNumElements, root helper with the last four. state = configuration; transition = one builder call; non-trivial = 1 row, cols not a multiple of 8, dim>1 or batched')
    ctx.bounds = {'rows': [1, 2, 4, 8, 16] + ([32, 64] if ctx.tier == 'thorough' else []), 'cols': '0..12,15,16,17', 'dim': [1, 2, 3], 'nThreads': [0, 1, 2, 3, 5], 'default_team(OMP_NUM_THREADS)': 4}
    ctx.bounds['mined literals'] = ctx.lits()
    ctx.assumptions = ['reference tree built from the harness\'s own sponge/permutation', 'row counts are powers of two as the property states']
    for n in ('c08_avx2', 'c08_avx512', 'c08_w8'):
        if n in ctx.bins:
            ctx.run_step(n, ctx.bins[n], ['--lits', ctx.lits_arg()])
    ctx.stats['traces_validated_against_impl'] = ctx.stats.get('states_w32', 0)
