"""C06 Poseidon permutation: scalar = AVX2 = AVX-512 = reference (DESIGN §4 C06)."""
import os
from lib import vlib
from checks import poseidon_common as PC
MAIN = os.path.join(vlib.HARNESS, 'c06_poseidon.cpp')


def build(ctx, only_step=None):
    ctx.bins = ctx.compile_many(PC.variants(ctx, MAIN, 'c06', only_step=only_step))


def explore(ctx):
    ctx.rule = ('table obligations (1057, exhaustive); scaled w=8: the whole of hash_full_result_seq / hash_full_result / hash_full_result_avx512 recompiled at 16-bit lanes, '
                'every state with one deviating position over ALL 65536 lane values (x12 positions; thorough: 4 base states + all position pairs over a 64-value set), '
                'all three implementations against the reference permutation over Z/p_8; native: 5 base states with <=2 deviating positions over the boundary alphabet, KATs, '
                'chained outputs. state = input state (AVX-512: pair of states); transition = one permutation call; non-trivial = state containing a non-canonical representation')
    ctx.bounds = {'scaled_width': 8, 'deviations': 2, 'chain_depth': 64 if ctx.tier == 'thorough' else 16}
    ctx.assumptions = ['equality for every 64-bit state is inferred from kernel correctness under preconditions (C02/C11/C13/C14), preconditions at every call site (table obligations + dense scaled run) and structure (native runs)',
                       'the scaled run uses the round constants reduced mod p_8: it validates the code, not the constants; those are pinned by the two known-answer vectors',
                       'reference: independent implementation of the optimised 4+22+4 schedule on the library tables with __int128 arithmetic']
    for n in ('c06_avx2', 'c06_avx512', 'c06_w8'):
        if n in ctx.bins:
            ctx.run_step(n, ctx.bins[n])
    ctx.stats['traces_validated_against_impl'] = ctx.stats.get('states_w32', 0)
