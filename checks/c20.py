"""C20: GPU field type gl64_t and the device NTT tables implement the same field as the CPU (DESIGN §4 C20, engine E6 'ptxw').

Width-scaled layer: WORKS.  cuh2host.py turns gl64_t.cuh into a host header whose uint32_t/uint64_t are w/2w-bit
integer classes (constants, shift counts scaled by rule) and whose asm statements call the PTX-subset semantics of
engine/ptxw/ptxw.hpp; it is compiled at w = 4, 6 (both tiers) and w = 8 (thorough) for __CUDA_ARCH__ 700 and 600 and
ALL operand tuples are enumerated (w=8: all 2^32 pairs for the += / -= / * bodies, all values x boundary set for the
wrappers that share those bodies).  Full width (w=32, the built-in integer types): boundary alphabet squared.
Nothing had to fall back to "alphabet only".

Limits that stay (also written to the evidence file):
  * no nvcc / GPU here: traces cannot be replayed on a device, traces_validated_against_impl stays 0; the trusted base
    is the reading of the PTX ISA in engine/ptxw/ptxw.hpp (about 20 opcodes);
  * dot_product<T> is run for T in {1,2,3,4,8,12}; at width w only T with 2T <= 2^w (its carry word would overflow
    otherwise; the 32-bit analogue is T <= 2^31).
"""
import os, re, subprocess, sys
from lib import vlib

PTXW = os.path.join(vlib.VERIF, 'engine', 'ptxw')
H_GL = os.path.join(vlib.HARNESS, 'c20_gl64.cpp')
H_TAB = os.path.join(vlib.HARNESS, 'c20_tables.cpp')
ARCHS = [700, 600]


def scaled_widths(ctx):
    return [4, 6, 8] if ctx.tier == 'thorough' else [4, 6]


def step_name(w, arch, pr=False):
    return 'c20_w%d_a%d%s' % (w, arch, '_pr' if pr else '')


def plan(ctx):
    """(step, w, arch, partially_reduced) for this tier"""
    out = []
    for arch in ARCHS:
        out.append((step_name(32, arch), 32, arch, False))
        for w in scaled_widths(ctx):
            out.append((step_name(w, arch), w, arch, False))
        # the other configuration of the header (GL64_PARTIALLY_REDUCED): any 64-bit operands, congruent results
        out.append((step_name(4, arch, True), 4, arch, True))
        if ctx.tier == 'thorough':
            out.append((step_name(32, arch, True), 32, arch, True))
    return out


def _convert(ctx, script, args, what):
    r = subprocess.run([sys.executable, os.path.join(PTXW, script)] + args, capture_output=True, text=True)
    if r.returncode == 3:
        ctx.uncovered.append('%s unavailable: the converter met a construct it does not model and refused to guess: %s' % (what, r.stderr.strip()[-400:]))
        ctx.exhaustive = False
        return False
    if r.returncode != 0:
        sys.stderr.write(r.stdout + r.stderr)
        raise vlib.FrameworkError('%s failed with %d' % (script, r.returncode))
    for line in r.stdout.split('\n'):
        if line.startswith('NOTE SYNTAX '):
            ctx.uncovered.append('gl64_t.cuh ' + line[12:] + ' -- whether nvcc accepts the statement cannot be decided here (no CUDA toolchain)')
        elif line.startswith('NOTE '):
            ctx.infos.append('%s: %s' % (script, line[5:]))
    return True


def build(ctx, only_step=None):
    gen = ctx.scratch()
    ctx.c20_arith = _convert(ctx, 'cuh2host.py', [os.path.join(vlib.SRC, 'gl64_t.cuh'), os.path.join(gen, 'gl64_host.hpp')], 'arithmetic half (gl64_t.cuh)')
    ctx.c20_tables = _convert(ctx, 'tables2host.py', [os.path.join(vlib.SRC, 'ntt_goldilocks.cuh'), os.path.join(vlib.SRC, 'goldilocks_base_field.cpp'),
                                                       os.path.join(gen, 'c20_tables_gen.hpp')], 'table half (ntt_goldilocks.cuh)')
    base = ['-std=c++17', '-O2', '-w', '-fno-access-control', '-fopenmp', '-D__USE_CUDA__', '-I' + vlib.COMMON, '-I' + PTXW, '-I' + gen]
    jobs = []
    if ctx.c20_tables:
        jobs.append(('c20_tables', [H_TAB], ['-std=c++17', '-O2', '-w', '-I' + vlib.COMMON, '-I' + gen], []))
    ctx.c20_plan = []
    if ctx.c20_arith:
        for st, w, arch, pr in plan(ctx):
            fl = base + ['-DPTXW_W=%d' % w, '-D__CUDA_ARCH__=%d' % arch] + (['-DGL64_PARTIALLY_REDUCED'] if pr else [])
            jobs.append((st, [H_GL], fl, []))
            ctx.c20_plan.append(st)
    if only_step:
        m = re.fullmatch(r'c20_w(\d+)_a(\d+)(_pr)?', only_step)
        if m and only_step not in [j[0] for j in jobs] and ctx.c20_arith:   # replay of a step of the other tier
            jobs.append((only_step, [H_GL], base + ['-DPTXW_W=%s' % m.group(1), '-D__CUDA_ARCH__=%s' % m.group(2)] + (['-DGL64_PARTIALLY_REDUCED'] if m.group(3) else []), []))
        jobs = [j for j in jobs if j[0] == only_step]
    ctx.bins = ctx.compile_many(jobs) if jobs else {}


def explore(ctx):
    ctx.rule = ('model = gl64_t.cuh translated from its text on every run (98 asm statements -> PTX-subset semantics with persistent CC.CF and '
                'named predicates; both __CUDA_ARCH__ branches compiled). state = (operation, operand tuple); transition = one execution. '
                'scaled: machine word shrunk to w bits (p_w = 2^2w-2^w+1), every operand tuple enumerated; full width: all ordered pairs over the '
                'boundary alphabet plus products landing in [p,2^64). non-trivial = CC.CF was set or a predicate was true during the case. '
                'tables: 3 x 33 rows parsed from ntt_goldilocks.cuh against CPU W[] and the defining equations.')
    ctx.bounds = {'scaled_widths': scaled_widths(ctx), 'arch_variants': ARCHS,
                  'w8': 'all pairs for add_assign/sub_assign (canonical) and mul (any 2w-bit operands); other binary forms: all values x boundary set',
                  'full_width_alphabet': 'vc::alphabet(%s)' % ('true' if ctx.tier == 'thorough' else 'false'),
                  'dot_product_T': [1, 2, 3, 4, 8, 12], 'table_rows': 33,
                  'partially_reduced_configuration': 'w=4 all tuples' + ('; full width quick alphabet' if ctx.tier == 'thorough' else '')}
    ctx.assumptions = ['no CUDA toolchain or GPU: the model cannot be replayed on a device (traces_validated_against_impl = 0); '
                       'instruction semantics = the reading of the PTX ISA in engine/ptxw/ptxw.hpp',
                       'each asm operand is its own virtual register (nvcc never lets a "=r" output share a register with an input); '
                       'CC.CF survives between asm statements as in straight-line PTX',
                       'width scaling is a small-scope argument: every input at w in the listed widths, alphabet/generator inputs at 64 bits',
                       'oracle: unsigned __int128 arithmetic modulo p_w; reciprocal()/heptaroot() at w<32 are compared with x^e for the 64-bit exponent e',
                       'fully reduced configuration: operands canonical, except multiplicands (source comment: "either multiplication variant can handle '
                       'partially reduced inputs"), constructors and reduce(), which get every 2w-bit value']
    if ctx.c20_tables and 'c20_tables' in ctx.bins:
        ctx.run_step('c20_tables', ctx.bins['c20_tables'])
    if not ctx.c20_arith:
        return
    for st in ctx.c20_plan:
        if st in ctx.bins:
            ctx.run_step(st, ctx.bins[st], tag=st)
