"""C01 scalar field ops exact mod p (DESIGN §4 C01)."""
import os
from lib import vlib

H = os.path.join(vlib.HARNESS, 'c01_scalar.cpp')


def widths(ctx):
    return [2, 4, 8] if ctx.tier == 'thorough' else [2, 4]


def build(ctx, only_step=None):
    jobs = [('c01_native', [H, os.path.join(vlib.SRC, 'goldilocks_base_field.cpp')], ctx.flags_native(), ['-lgmp'])]
    t = ctx.scaled_tree()
    if t:
        for w in [2, 4, 8]:
            if w == 8 and ctx.tier != 'thorough' and only_step != 'c01_w8':
                continue
            jobs.append(('c01_w%d' % w, [H, os.path.join(t, 'goldilocks_base_field.cpp')], ctx.flags_scaled(w, sig=True), ['-lgmp']))
    if only_step:
        jobs = [j for j in jobs if j[0] == only_step]
    ctx.bins = ctx.compile_many(jobs)


def explore(ctx):
    ctx.rule = ('scaled: the repository source recompiled at half-word width w (asm translated from its text) on ALL operand values '
                'in [0,2^2w) for every op/overload/aliasing form; native: compiled asm on all ordered pairs over the boundary alphabet '
                'plus closure over non-canonical results. state = (op, operand tuple); transition = one execution of one overload form; '
                'non-trivial = path signature with at least one carry/borrow correction taken (scaled) or non-canonical raw result (native)')
    ctx.bounds = {'scaled_widths': widths(ctx), 'native_alphabet': 'A_t (64 half-words squared + extras)' if ctx.tier == 'thorough' else 'A_q (16 half-words squared + extras)',
                  'closure_depth': 2 if ctx.tier == 'thorough' else 1}
    ctx.assumptions = ['width scaling is a small-scope argument: correctness for every input is established for w in the listed widths, '
                       'and at 64 bits on the alphabet/closure/lifted inputs only',
                       'oracle: unsigned __int128 arithmetic modulo p_w']
    ctx.run_step('c01_native', ctx.bins['c01_native'])
    for w in widths(ctx):
        n = 'c01_w%d' % w
        if n in ctx.bins:
            ctx.run_step(n, ctx.bins[n])
