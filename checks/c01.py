"""C01 scalar field ops exact mod p (DESIGN §4 C01)."""
import os
from lib import vlib

H = os.path.join(vlib.HARNESS, 'c01_scalar.cpp')
CONF = os.path.join(vlib.HARNESS, 'c01_conf.cpp')


def widths(ctx):
    return [2, 4, 8] if ctx.tier == 'thorough' else [2, 4]


def build(ctx, only_step=None):
    bf = os.path.join(vlib.SRC, 'goldilocks_base_field.cpp')
    jobs = [('c01_native', [H, bf], ctx.flags_native(), ['-lgmp'])]
    objs = [('c01_nat.o', [H], ctx.flags_native(extra=['-DC01_AS_LIB', '-DKNS=nat', '-c']), []),
            ('c01_natbf.o', [bf], ctx.flags_native(extra=['-c']), [])]
    t = ctx.scaled_tree()
    if t:
        sbf = os.path.join(t, 'goldilocks_base_field.cpp')
        for w in [2, 4, 8]:
            if w == 8 and ctx.tier != 'thorough' and only_step != 'c01_w8':
                continue
            jobs.append(('c01_w%d' % w, [H, sbf], ctx.flags_scaled(w, sig=True), ['-lgmp']))
        ren = ['-DGoldilocks=GoldilocksMdl']
        objs.append(('c01_mdl.o', [H], ctx.flags_scaled(32, sig=True, extra=ren + ['-DC01_AS_LIB', '-DKNS=mdl', '-c']), []))
        objs.append(('c01_mdlbf.o', [sbf], ctx.flags_scaled(32, sig=True, extra=ren + ['-c']), []))
    if only_step and only_step != 'c01_conf':
        jobs = [j for j in jobs if j[0] == only_step]
        objs = []
    o = ctx.compile_many(objs) if objs else {}
    if 'c01_mdl.o' in o:
        jobs.append(('c01_conf', [CONF, o['c01_nat.o'], o['c01_natbf.o'], o['c01_mdl.o'], o['c01_mdlbf.o']], ['-std=c++17', '-O2', '-w', '-fopenmp', '-I' + vlib.COMMON], ['-lgmp']))
    ctx.bins = ctx.compile_many(jobs)


def explore(ctx):
    ctx.rule = ('scaled: the repository source recompiled at half-word width w (asm translated from its text) on ALL operand values '
                'in [0,2^2w) for every op/overload/aliasing form; native: compiled asm on all ordered pairs over the boundary alphabet '
                'plus closure over non-canonical results; conformance: asm translation at w=32 == compiled asm bit for bit on alphabet pairs, every small-width path signature matched by a 64-bit run. '
                'state = (op, operand tuple); transition = one execution of one overload form; '
                'non-trivial = path signature with at least one carry/borrow correction taken (scaled) or non-canonical raw result (native)')
    ctx.bounds = {'scaled_widths': widths(ctx), 'native_alphabet': 'A_t (90 half-words squared + extras)' if ctx.tier == 'thorough' else 'A_q (16 half-words squared + extras)',
                  'closure_depth': 2 if ctx.tier == 'thorough' else 1}
    ctx.assumptions = ['width scaling is a small-scope argument: correctness for every input is established for w in the listed widths, '
                       'and at 64 bits on the alphabet/closure/lifted inputs only',
                       'oracle: unsigned __int128 arithmetic modulo p_w']
    if 'c01_native' in ctx.bins:
        ctx.run_step('c01_native', ctx.bins['c01_native'])
    sigs = []
    for w in widths(ctx):
        n = 'c01_w%d' % w
        if n in ctx.bins:
            r = ctx.run_step(n, ctx.bins[n])
            if r:
                sigs += [l[len('INFO sig '):] for l in r['_stdout'].split('\n') if l.startswith('INFO sig ')]
    if 'c01_conf' in ctx.bins:
        sf = os.path.join(ctx.build_dir, 'sigs.txt')
        open(sf, 'w').write('\n'.join(sigs) + '\n')
        ctx.run_step('c01_conf', ctx.bins['c01_conf'], ['--sigfile', sf])
    ctx.infos = [i for i in ctx.infos if not i.startswith('sig ')][:40]
