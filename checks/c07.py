"""C07 linear_hash is the rate-8/capacity-4 sponge for every length (DESIGN §4 C07)."""
import os
from lib import vlib
from checks import poseidon_common as PC
MAIN = os.path.join(vlib.HARNESS, 'c07_sponge.cpp')


def build(ctx, only_step=None):
    ctx.bins = ctx.compile_many(PC.variants(ctx, MAIN, 'c07', only_step=only_step))


def explore(ctx):
    ctx.rule = ('every length 0..Lmax x contents (zeros, counting, all-ones representation, each single position carrying a marker) x variants '
                '(seq, AVX2, AVX-512 pair) x two placements against PROT_NONE guard pages (exact read extent) with a guarded, sentinel-fronted output; '
                'digest compared with an independent sponge over the reference permutation. state = (variant, length, content, placement); transition = one call; '
                'non-trivial = length not a multiple of 8, or <= 4 (pass-through), or non-canonical content')
    ctx.bounds = {'Lmax_native': 130 if ctx.tier == 'thorough' else 41, 'Lmax_w8': 41 if ctx.tier == 'thorough' else 25}
    ctx.assumptions = ['reference sponge and permutation are the harness\'s own (poseidon_ref.hpp)', 'lengths beyond Lmax repeat the residues mod 8 already covered five times (structure is a loop over 8-element blocks)']
    for n in ('c07_avx2', 'c07_avx512', 'c07_w8'):
        if n in ctx.bins:
            ctx.run_step(n, ctx.bins[n], ['--lits', ctx.lits_arg()])
    ctx.stats['traces_validated_against_impl'] = ctx.stats.get('states_w32', 0)
