// Closed-form oracle kernels for the transforms (shared by c03_ntt.cpp and c19_history.cpp).
#pragma once
#include "vcommon.hpp"
#include "ntt_goldilocks.hpp"
namespace nttor
{

static vc::Mod F(vc::GP);
enum Mode { M_NTT, M_INTT, M_EXT, NMODE };
static const char *mname[] = {"NTT", "INTT", "extendPol"};
struct Shape { int mode; u64 n, next; };
static inline unsigned lg(u64 x) { unsigned r = 0; while (x > 1) { x >>= 1; r++; } return r; }
// kernel matrix K[j*nout + k]: output k for input impulse j
static inline std::vector<u64> kernel(int mode, u64 n, u64 next)
{
    const u64 GP = vc::GP;
    u64 nout = (mode == M_EXT) ? next : n;
    std::vector<u64> K(n * nout);
    if (n == 0) return K;
    u64 wn = Goldilocks::w(lg(n)).fe % GP;
    if (mode == M_NTT)
    {
        for (u64 j = 0; j < n; j++) for (u64 k = 0; k < n; k++) K[j * n + k] = F.pow(wn, (j * k) % n);
    }
    else if (mode == M_INTT)
    {
        u64 wi = F.inv(wn), ni = F.inv(n % GP);
        for (u64 j = 0; j < n; j++) for (u64 k = 0; k < n; k++) K[j * n + k] = F.mul(ni, F.pow(wi, (j * k) % n));
    }
    else
    {
        u64 wi = F.inv(wn), ni = F.inv(n % GP), wx = Goldilocks::w(lg(nout)).fe % GP;
        for (u64 j = 0; j < n; j++)
            for (u64 k = 0; k < nout; k++)
            {
                u64 q = F.mul(F.pow(wi, j), F.mul(7, F.pow(wx, k))); // w_N^-j * 7 * w_Next^k
                u64 acc = 0, qi = 1;
                if (n <= 64) { for (u64 i = 0; i < n; i++) { acc = F.add(acc, qi); qi = F.mul(qi, q); } }   // sum_i q^i term by term
                else acc = (q == 1) ? n % GP : F.mul(F.sub(F.pow(q, n), 1), F.inv(F.sub(q, 1)));                // geometric series in closed form
                K[j * nout + k] = F.mul(ni, acc);
            }
    }
    return K;
}
} // namespace nttor
