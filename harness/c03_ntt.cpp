// C03 / C04 / C05: NTT is the DFT, INTT its exact inverse, extendPol the low-degree extension
// on the coset 7*<w_Next>, in EVERY configuration: object domain D, size n <= D, columns,
// phases, blocks (clamped), scratch buffer or not, destination = source / other / NULL, threads.
//
// Inputs: the transforms are linear and data-oblivious, so for each configuration the complete
// impulse basis is run (call t puts e_{(t+c) mod n} in column c: every column sees every basis
// vector) plus one dense call with non-canonical representations.  Oracle: closed-form kernel
// K[j][k] (w^{jk}, n^-1 w^{-jk}, or Lagrange basis at 7 w_Next^k) built with own arithmetic.
// All arrays are exact-size, end-aligned against PROT_NONE pages.  One process per case group,
// crashes/aborts attributed to the exact configuration.
#include "vcommon.hpp"
#include "ntt_goldilocks.hpp"
#include "ntt_goldilocks.cpp" // compiled into this TU (not linked separately): the static helper BR() is checked directly
#include "ntt_oracle.hpp"
using namespace vc;
typedef Goldilocks::Element E;
using nttor::F;
using nttor::M_NTT; using nttor::M_INTT; using nttor::M_EXT; using nttor::NMODE; using nttor::mname;
static const char *propof[] = {"C03", "C04", "C05"};
struct Case
{
    int mode;
    u64 D, n, next, ncols, nphase, nblock;
    int buf;     // 0 NULL, 1 caller buffer, 2 the source matrix itself is donated as scratch
    int dst;     // 0 in place (dst == src), 1 other buffer, 2 NULL destination
    unsigned nthreads;
    int pre;     // call made on the same object BEFORE the measured one (non-initial object state): 0 none, 1/2 extendPol with another N, 3 NTT of the full domain
    int team0;   // OpenMP default team size in force when the case starts (0: the process default)
    int xt;      // 1: forward transform called with the trailing flag extend = true (documented for the inverse only; a forward call ignores it)
    int cp;      // 1: the measured call is made on a COPY of the object (copy-constructed; the copy is never destroyed, the pinned tree's implicit copy shares the tables)
    int mis;     // 1: source, destination and scratch buffer start one element later relative to their natural alignment (addresses 8 mod 16 where the default is 0 mod 16 and vice versa); one sentinel element of slack at the end instead of the exact end
    int outer;   // > 0: the call is made by each of `outer` threads of a parallel region of the CALLER, every thread on its own object and buffers
    int plant;   // 0: impulse basis + dense input; 1/2: boundary values planted at a stage of the pipeline (see run_case_planted)
};
static std::string casestr(const Case &c)
{
    return fmt("mode=%s D=%llu n=%llu next=%llu ncols=%llu nphase=%s nblock=%s buf=%d dst=%d nthreads=%u pre=%d", mname[c.mode], (unsigned long long)c.D, (unsigned long long)c.n,
               (unsigned long long)c.next, (unsigned long long)c.ncols, hex(c.nphase).c_str(), hex(c.nblock).c_str(), c.buf, c.dst, c.nthreads, c.pre) + (c.team0 ? fmt(" team0=%d", c.team0) : std::string()) + (c.outer ? fmt(" outer=%d", c.outer) : std::string()) + (c.mis ? " mis=1" : "") + (c.xt ? " xt=1" : "") + (c.cp ? " cp=1" : "") + (c.plant ? fmt(" plant=%d", c.plant) : std::string());
}
static int g_team0; // OpenMP default team size at start-up: restored before every case, so that a case never depends on the cases the same worker ran before
static unsigned lg(u64 x) { return nttor::lg(x); }
static std::vector<u64> kernel(const Case &c) { return nttor::kernel(c.mode, c.n, c.next); }

// class names for failures that the harness can characterise from the configuration alone
static std::string fail_class(const Case &c)
{
    std::string cl;
    u64 n = (c.mode == M_EXT) ? c.n : c.n;
    if (n < c.D) cl += "n<D";
    else cl += "n=D";
    if (c.dst == 2) cl += ".nulldst";
    u64 nb = c.nblock < 1 ? 1 : c.nblock;
    if (c.ncols && nb > c.ncols) nb = c.ncols;
    cl += nb > 1 ? ".blocks" : ".oneblock";
    return cl;
}

// ---- large sizes (n > 1024): the full basis is too expensive; column c carries the impulse e_{j_c} with j_c from a
// boundary set, every output row is compared with the closed form (w^j)^k computed incrementally; a second call
// with a dense non-canonical input is compared at sampled rows by direct evaluation.
static void run_case_big(const Case &c)
{
    const u64 n = c.n, ncols = c.ncols, nout = (c.mode == M_EXT) ? c.next : n;
    const std::string prop = propof[c.mode];
    NTT_Goldilocks ntt(c.D, c.nthreads);
    const u64 wn = Goldilocks::w(lg(n)).fe % GP, wi = F.inv(wn), ni = F.inv(n % GP), wx = Goldilocks::w(lg(nout)).fe % GP;
    std::vector<u64> js = {1, n / 2 + 1, n - 1, 4097 % n, 0x15555 % n, 2, n / 2, 0};
    size_t nsrc = n * ncols, ndst = nout * ncols;
    size_t srclen = (c.mode == M_EXT && c.dst == 0) ? ndst : nsrc;
    GuardArena<E> src(srclen, true), dst(ndst + 1, true), buf(ndst, true);
    const u64 SENT = 0x5E5E5E5E5E5E5E5EULL;
    for (int round = 0; round < 2; round++)
    {
        bool dense = round == 1;
        std::vector<u64> in(nsrc, 0);
        if (!dense) for (u64 cc = 0; cc < ncols; cc++) in[js[cc % js.size()] * ncols + cc] = 1;
        else for (u64 j = 0; j < n; j++) for (u64 cc = 0; cc < ncols; cc++)
        {
            u64 v = ((j * 7 + cc * 13 + 1) * 0x9E3779B97F4A7C15ULL);
            if ((j + cc) % 3 == 0) v = ~0ULL - (j + cc);
            in[j * ncols + cc] = v;
        }
        for (size_t i = 0; i < srclen; i++) src.p[i].fe = (i < nsrc) ? in[i] : (SENT ^ i);
        for (size_t i = 0; i < ndst + 1; i++) dst.p[i].fe = SENT;
        E *d = (c.dst == 0) ? src.p : (c.dst == 1 ? dst.p + 1 : nullptr);
        E *b = c.buf ? buf.p : nullptr;
        if (c.mode == M_NTT) ntt.NTT(d, src.p, n, ncols, b, c.nphase, c.nblock);
        else if (c.mode == M_INTT) ntt.INTT(d, src.p, n, ncols, b, c.nphase, c.nblock);
        else ntt.extendPol(d, src.p, nout, n, ncols, b, c.nphase, c.nblock);
        rep().stat("transitions");
        rep().stat("evaluations");
        const E *res = (c.dst == 1) ? dst.p + 1 : src.p;
        auto Kjk = [&](u64 j, u64 k) -> u64 {
            if (c.mode == M_NTT) return F.pow(wn, (u64)(((u128)j * k) % n));
            if (c.mode == M_INTT) return F.mul(ni, F.pow(wi, (u64)(((u128)j * k) % n)));
            u64 q = F.mul(F.pow(wi, j), F.mul(7, F.pow(wx, k)));
            if (q == 1) return 1;
            return F.mul(ni, F.mul(F.sub(F.pow(q, n), 1), F.inv(F.sub(q, 1))));
        };
        if (!dense)
        {
            for (u64 cc = 0; cc < ncols; cc++)
            {
                u64 j = js[cc % js.size()];
                for (u64 k = 0; k < nout; k++)
                {
                    u64 ex = Kjk(j, k), g = res[k * ncols + cc].fe;
                    if (g % GP != ex)
                    {
                        rep().viol(prop + ".wrong." + mname[c.mode] + ".big." + fail_class(c), casestr(c), fmt("impulse e_%llu in column %llu: out[%llu] = %s expected %s", (unsigned long long)j, (unsigned long long)cc, (unsigned long long)k, hex(g).c_str(), hex(ex).c_str()));
                        return;
                    }
                }
            }
        }
        else
        {
            std::vector<u64> ks = {0, 1, 2, nout / 2, nout - 1, 4097 % nout, 0x2AAAA % nout, nout / 2 + 1};
            for (u64 k : ks)
                for (u64 cc = 0; cc < ncols; cc++)
                {
                    u64 ex = 0;
                    if (c.mode == M_EXT)
                    {
                        // f(x) at x = 7 w_Next^k with f the interpolant: sum_j in[j] * L_j(x)
                        for (u64 j = 0; j < n; j++) { if (in[j * ncols + cc] % GP) ex = F.add(ex, F.mul(in[j * ncols + cc], Kjk(j, k))); }
                    }
                    else
                    {
                        u64 base = (c.mode == M_NTT) ? F.pow(wn, k % n) : F.pow(wi, k % n), acc = 0;
                        for (u64 j = n; j-- > 0;) acc = F.add(F.mul(acc, base), in[j * ncols + cc] % GP); // Horner
                        ex = (c.mode == M_NTT) ? acc : F.mul(ni, acc);
                    }
                    u64 g = res[k * ncols + cc].fe;
                    if (g % GP != ex)
                    {
                        rep().viol(prop + ".wrong." + mname[c.mode] + ".big." + fail_class(c), casestr(c), fmt("dense input: out[%llu][%llu] = %s expected %s", (unsigned long long)k, (unsigned long long)cc, hex(g).c_str(), hex(ex).c_str()));
                        return;
                    }
                }
        }
    }
}

// ---- boundary values planted at a stage of the pipeline.  The transforms are value-oblivious, so any shortcut keyed on the
// VALUES of a row (a "row is zero" test, a carry that only some words produce) must be exercised with the boundary words in the
// place where the code looks at them, which need not be the caller's input.  For every row i and every ordered pair (x, y) of
// the boundary set B, the stage vector S is generic except S[i][0] = x, S[i][1] = y and S[i][c>=2] = 0, and the call's input is
// the oracle pre-image of S:
//   plant=1  S is the input itself
//   plant=2  NTT: S is the OUTPUT (input = inverse DFT of S); INTT: S is the output (input = DFT of S);
//            extendPol: S is the coefficient vector after the coset scaling, S[i] = f_i 7^i (input = DFT of f)
// The whole output is compared with the closed-form kernel applied to that input.
static void run_case_planted(const Case &c)
{
    const u64 n = c.n, ncols = c.ncols, nout = (c.mode == M_EXT) ? c.next : n;
    const std::string prop = propof[c.mode];
    static const u64 B[] = {0, 1, 2, 0xFFFFFFFFULL, 0x100000000ULL, 0x100000001ULL, 0x7FFFFFFFFFFFFFFFULL, 0x8000000000000000ULL, 0x8000000000000001ULL,
                            (GP - 1) / 2, (GP + 1) / 2, GP - 0x100000000ULL, GP - 2, GP - 1};
    const int NB = sizeof B / sizeof B[0];
    std::vector<u64> K = kernel(c), Kf = nttor::kernel(M_NTT, n, 0), Ki = nttor::kernel(M_INTT, n, 0);
    NTT_Goldilocks ntt(c.D, c.nthreads);
    size_t nsrc = n * ncols, ndst = nout * ncols;
    GuardArena<E> src(nsrc, true), dst(ndst, true), buf(ndst, true);
    std::vector<u64> S(nsrc), in(nsrc), f(nsrc);
    long long calls = 0;
    for (u64 i = 0; i < n; i++)
        for (int xi = 0; xi < NB; xi++)
            for (int yi = 0; yi < NB; yi++)
            {
                for (u64 j = 0; j < n; j++) for (u64 cc = 0; cc < ncols; cc++) S[j * ncols + cc] = ((j * 7 + cc * 13 + 1) * 0x9E3779B97F4A7C15ULL) % GP;
                for (u64 cc = 0; cc < ncols; cc++) S[i * ncols + cc] = cc == 0 ? B[xi] : cc == 1 ? B[yi] : 0;
                if (c.plant == 1) in = S;
                else
                {
                    const std::vector<u64> *T = &Kf; // pre-image by the forward DFT ...
                    f = S;
                    if (c.mode == M_NTT) T = &Ki;    // ... or by the inverse DFT
                    if (c.mode == M_EXT)
                    {
                        u64 s7 = F.inv(7), q = 1;
                        for (u64 j = 0; j < n; j++) { for (u64 cc = 0; cc < ncols; cc++) f[j * ncols + cc] = F.mul(S[j * ncols + cc] % GP, q); q = F.mul(q, s7); }
                    }
                    for (u64 k = 0; k < n; k++) for (u64 cc = 0; cc < ncols; cc++)
                    {
                        u64 a = 0;
                        for (u64 j = 0; j < n; j++) a = F.add(a, F.mul(f[j * ncols + cc] % GP, (*T)[j * n + k]));
                        in[k * ncols + cc] = a;
                    }
                }
                for (size_t t = 0; t < nsrc; t++) src.p[t].fe = in[t];
                for (size_t t = 0; t < ndst; t++) dst.p[t].fe = 0x5E5E5E5E5E5E5E5EULL;
                E *b = c.buf ? buf.p : nullptr;
                if (c.mode == M_NTT) ntt.NTT(dst.p, src.p, n, ncols, b, c.nphase, c.nblock);
                else if (c.mode == M_INTT) ntt.INTT(dst.p, src.p, n, ncols, b, c.nphase, c.nblock);
                else ntt.extendPol(dst.p, src.p, nout, n, ncols, b, c.nphase, c.nblock);
                calls++;
                for (u64 k = 0; k < nout; k++)
                    for (u64 cc = 0; cc < ncols; cc++)
                    {
                        u64 ex = 0;
                        for (u64 j = 0; j < n; j++) ex = F.add(ex, F.mul(in[j * ncols + cc] % GP, K[j * nout + k]));
                        u64 g = dst.p[k * ncols + cc].fe;
                        if (g % GP != ex)
                        {
                            rep().stat("transitions", calls);
                            rep().stat("evaluations", calls);
                            rep().viol(prop + ".wrong." + mname[c.mode] + ".planted." + fail_class(c), casestr(c),
                                       fmt("stage row %llu = (%s, %s, 0...): out[%llu][%llu] = %s expected %s", (unsigned long long)i, hex(B[xi]).c_str(), hex(B[yi]).c_str(), (unsigned long long)k, (unsigned long long)cc, hex(g).c_str(), hex(ex).c_str()));
                            return;
                        }
                    }
            }
    rep().stat("transitions", calls);
    rep().stat("evaluations", calls);
    rep().stat("planted_stage_calls", calls);
}

// ---- the caller is itself parallel: `outer` threads of a parallel region opened by the harness call the transform at the same
// time, each on its own object, source, destination and scratch buffer (nothing is shared between the callers).  Whatever
// OpenMP constructs the library uses then bind to a team the library did not create; every caller must still get the transform
// of its own input (dense non-canonical input, different per caller).
static void run_case_outer(const Case &c)
{
    const u64 n = c.n, ncols = c.ncols, nout = (c.mode == M_EXT) ? c.next : n;
    const std::string prop = propof[c.mode];
    std::vector<u64> K = kernel(c);
    const int T = c.outer;
    std::vector<std::string> fails(T);
    size_t nsrc = n * ncols, ndst = nout * ncols;
    size_t srclen = (c.mode == M_EXT && c.dst == 0) ? ndst : nsrc;
#pragma omp parallel num_threads(T)
    {
        int me = omp_get_thread_num();
        if (me < T)
        {
            NTT_Goldilocks ntt(c.D, c.nthreads);
            std::vector<E> src(srclen), dst(ndst + 1), buf(ndst + 1);
            std::vector<u64> in(nsrc);
            for (u64 j = 0; j < n; j++) for (u64 cc = 0; cc < ncols; cc++)
            {
                u64 v = ((j * 7 + cc * 13 + 1 + (u64)me * 101) * 0x9E3779B97F4A7C15ULL);
                if ((j + cc + me) % 3 == 0) v = ~0ULL - (j + cc);
                in[j * ncols + cc] = v;
            }
            for (size_t i = 0; i < srclen; i++) src[i].fe = (i < nsrc) ? in[i] : (0x5E5E5E5E5E5E5E5EULL ^ i);
            E *d = (c.dst == 0) ? src.data() : dst.data() + 1;
            E *b = c.buf ? buf.data() : nullptr;
            if (c.mode == M_NTT) ntt.NTT(d, src.data(), n, ncols, b, c.nphase, c.nblock);
            else if (c.mode == M_INTT) ntt.INTT(d, src.data(), n, ncols, b, c.nphase, c.nblock);
            else ntt.extendPol(d, src.data(), nout, n, ncols, b, c.nphase, c.nblock);
            for (u64 k = 0; k < nout && fails[me].empty(); k++)
                for (u64 cc = 0; cc < ncols; cc++)
                {
                    u64 ex = 0;
                    for (u64 j = 0; j < n; j++) ex = F.add(ex, F.mul(in[j * ncols + cc], K[j * nout + k]));
                    u64 g = d[k * ncols + cc].fe;
                    if (g % GP != ex) { fails[me] = fmt("caller %d of %d: out[%llu][%llu] = %s expected %s", me, T, (unsigned long long)k, (unsigned long long)cc, hex(g).c_str(), hex(ex).c_str()); break; }
                }
        }
    }
    rep().stat("transitions", T);
    rep().stat("evaluations", T);
    for (auto &f : fails)
        if (!f.empty()) { rep().viol(prop + ".wrong." + mname[c.mode] + ".caller-parallel." + fail_class(c), casestr(c), f); return; }
}

static void run_case(const Case &c)
{
    omp_set_num_threads(c.team0 ? c.team0 : g_team0);
    if (c.outer) { run_case_outer(c); return; }
    if (c.plant) { run_case_planted(c); return; }
    if (c.n > 1024 || c.next > 1024) { run_case_big(c); return; }
    const u64 n = c.n, ncols = c.ncols;
    const u64 nout = (c.mode == M_EXT) ? c.next : n;
    const std::string prop = propof[c.mode];
    std::vector<u64> K = kernel(c);
    NTT_Goldilocks ntt(c.D, c.nthreads);
    if (c.pre && c.n)
    {
        // bring the object into a non-initial state first
        u64 m = c.n;
        if (c.pre == 1) m = (2 * c.n <= c.D) ? 2 * c.n : c.n / 2;
        else if (c.pre == 2) m = (c.n >= 2) ? c.n / 2 : 2 * c.n;
        else { m = 1; while (2 * m <= c.D) m *= 2; } // largest power of two within the object's domain
        if (m >= 1 && m <= c.D)
        {
            std::vector<E> pin(m * 2), pout(m * 2);
            for (u64 i = 0; i < m * 2; i++) pin[i].fe = i * 0x9E3779B97F4A7C15ULL + 7;
            if (c.pre == 3) ntt.NTT(pout.data(), pin.data(), m, 2);
            else ntt.extendPol(pout.data(), pin.data(), m, m, 2);
        }
    }
    const u64 SENT = 0x5E5E5E5E5E5E5E5EULL;
    size_t nsrc = n * ncols, ndst = nout * ncols;
    // in-place extension: one buffer of nout rows holds the input in its first n rows
    size_t srclen = (c.mode == M_EXT && c.dst == 0) ? ndst : nsrc;
    const size_t ms = c.mis ? 1 : 0;
    const u64 SLACK = 0xA5A5A5A5A5A5A5A5ULL;
    GuardArena<E> src(srclen + ms, true), dst(ndst + 1 + ms, true), buf(ndst + ms, true);
    // complete impulse basis up to n = 64; above that a boundary subset of the basis plus the dense input
    std::vector<u64> ts;
    if (n == 0 || ncols == 0) ts.push_back(0);
    else if (n <= 64) { for (u64 t = 0; t <= n; t++) ts.push_back(t); }
    else { for (u64 t : {(u64)0, (u64)1, (u64)2, n / 2 - 1, n / 2, n / 2 + 1, n - 2, n - 1, n}) ts.push_back(t); }
    for (u64 t : ts)
    {
        bool dense = (t == n);
        std::vector<u64> in(nsrc, 0);
        if (n && ncols)
        {
            if (!dense) for (u64 cc = 0; cc < ncols; cc++) in[((t + cc) % n) * ncols + cc] = 1;
            else for (u64 j = 0; j < n; j++) for (u64 cc = 0; cc < ncols; cc++)
            {
                u64 v = ((j * 7 + cc * 13 + 1) * 0x9E3779B97F4A7C15ULL);
                if ((j + cc) % 3 == 0) v = ~0ULL - (j + cc);            // non-canonical
                if ((j + cc) % 5 == 1) v = GP + ((j * 31 + cc) % 4096); // non-canonical, just above p
                in[j * ncols + cc] = v;
            }
        }
        for (size_t i = 0; i < srclen; i++) src.p[i].fe = (i < nsrc) ? in[i] : (SENT ^ i); // rows >= n of an in-place extension are garbage
        for (size_t i = 0; i < ndst + 1; i++) dst.p[i].fe = SENT;
        for (size_t i = 0; i < ndst; i++) buf.p[i].fe = SENT + 1;
        if (ms) { src.p[srclen].fe = SLACK; dst.p[ndst + 1].fe = SLACK; buf.p[ndst].fe = SLACK; }
        E *d = (c.dst == 0) ? src.p : (c.dst == 1 ? dst.p + 1 : nullptr);
        E *b = c.buf == 1 ? buf.p : c.buf == 2 ? src.p : nullptr; // buf = 2: the caller donates the source matrix as scratch (it is dead after the first read)
        NTT_Goldilocks &obj = c.cp ? *new NTT_Goldilocks(ntt) : ntt; // the copy is leaked on purpose (see Case::cp)
        if (c.mode == M_NTT) { if (c.xt) obj.NTT(d, src.p, n, ncols, b, c.nphase, c.nblock, false, true); else obj.NTT(d, src.p, n, ncols, b, c.nphase, c.nblock); }
        else if (c.mode == M_INTT) obj.INTT(d, src.p, n, ncols, b, c.nphase, c.nblock);
        else obj.extendPol(d, src.p, nout, n, ncols, b, c.nphase, c.nblock);
        rep().stat("transitions");
        rep().stat("evaluations");
        const E *res = (c.dst == 1) ? dst.p + 1 : src.p;
        if (ms && (src.p[srclen].fe != SLACK || dst.p[ndst + 1].fe != SLACK || buf.p[ndst].fe != SLACK)) { rep().viol(prop + ".write-outside." + mname[c.mode] + ".misaligned", casestr(c), "the element after a buffer was overwritten"); return; }
        if (n == 0 || ncols == 0)
        {
            for (size_t i = 0; i < ndst + 1; i++) if (dst.p[i].fe != SENT) { rep().viol(prop + ".noop-writes." + mname[c.mode], casestr(c), "destination touched although size or column count is zero"); return; }
            continue;
        }
        for (u64 k = 0; k < nout; k++)
            for (u64 cc = 0; cc < ncols; cc++)
            {
                u64 ex;
                if (!dense) ex = K[((t + cc) % n) * nout + k];
                else
                {
                    ex = 0;
                    for (u64 j = 0; j < n; j++) ex = F.add(ex, F.mul(in[j * ncols + cc], K[j * nout + k]));
                }
                u64 g = res[k * ncols + cc].fe;
                if (g % GP != ex)
                {
                    rep().viol(prop + ".wrong." + mname[c.mode] + "." + fail_class(c), casestr(c),
                               fmt("%s input %llu: out[%llu][%llu] = %s expected %s", dense ? "dense" : "impulse", (unsigned long long)t, (unsigned long long)k, (unsigned long long)cc, hex(g).c_str(), hex(ex).c_str()));
                    return;
                }
            }
        if (c.dst == 1)
        {
            if (dst.p[0].fe != SENT) { rep().viol(prop + ".write-outside." + mname[c.mode], casestr(c), "element before the destination overwritten"); return; }
            if (c.mode == M_NTT && c.buf != 2) // stated for the forward transform only
            for (size_t i = 0; i < nsrc; i++)
                if (src.p[i].fe != in[i]) { rep().viol(prop + ".source-modified." + mname[c.mode] + "." + fail_class(c), casestr(c), fmt("source element %zu changed although the destination is another buffer", i)); return; }
        }
    }
}

static bool parse(const std::string &s, Case &c)
{
    auto m = parse_case(s);
    std::string mo = cs(m, "mode");
    c.mode = -1;
    for (int i = 0; i < NMODE; i++) if (mo == mname[i]) c.mode = i;
    if (c.mode < 0) return false;
    c.D = cu(m, "D"); c.n = cu(m, "n"); c.next = cu(m, "next"); c.ncols = cu(m, "ncols");
    c.nphase = cu(m, "nphase"); c.nblock = cu(m, "nblock"); c.buf = (int)cu(m, "buf"); c.dst = (int)cu(m, "dst"); c.nthreads = (unsigned)cu(m, "nthreads"); c.pre = (int)cu(m, "pre"); c.plant = (int)cu(m, "plant", 0); c.team0 = (int)cu(m, "team0", 0); c.outer = (int)cu(m, "outer", 0); c.mis = (int)cu(m, "mis", 0); c.xt = (int)cu(m, "xt", 0); c.cp = (int)cu(m, "cp", 0);
    return true;
}
static void report_crash(const Case &c, const ChildResult &r)
{
    std::string prop = propof[c.mode];
    std::string tail = err_tail(r);
    std::string where = "";
    // assertion location (file:line) if the abort came from assert()
    size_t p = tail.find(".cpp:");
    if (p == std::string::npos) p = tail.find(".hpp:");
    if (p != std::string::npos)
    {
        size_t a = tail.rfind('/', p);
        a = (a == std::string::npos) ? 0 : a + 1;
        size_t e = p + 5;
        while (e < tail.size() && isdigit((unsigned char)tail[e])) e++;
        where = "@" + tail.substr(a, e - a);
    }
    rep().viol(prop + "." + crash_sig(r) + where + "." + mname[c.mode] + "." + fail_class(c), casestr(c), tail);
}

int main(int argc, char **argv)
{
    Args args = parse_args(argc, argv);
    g_team0 = omp_get_max_threads();
    if (!args.one.empty())
    {
        Case c;
        {
            auto m = parse_case(args.one);
            std::string tb = cs(m, "table");
            if (tb == "BR")
            {
                unsigned d = (unsigned)cu(m, "d");
                u64 x = cu(m, "x"), r = 0;
                for (unsigned i = 0; i < d; i++) if ((x >> i) & 1) r |= 1ULL << (d - 1 - i);
                if (BR(x, d) != r) rep().viol("C03.table.BR", args.one, "bit reversal wrong");
                rep().flush();
                return 0;
            }
            if (tb == "W")
            {
                unsigned k = (unsigned)cu(m, "index");
                u64 w = Goldilocks::w(k).fe;
                bool ok = w < GP && F.pow(w, 1ULL << k) == 1 && (k < 1 || F.pow(w, 1ULL << (k - 1)) == GP - 1) && (k >= 32 || F.mul(Goldilocks::w(k + 1).fe, Goldilocks::w(k + 1).fe) == w);
                if (!ok) rep().viol("C03.table.W", args.one, "root table row wrong");
                rep().flush();
                return 0;
            }
            if (tb == "SHIFT") { if (Goldilocks::shift().fe != 7) rep().viol("C05.table.SHIFT", args.one, "coset shift is not 7"); rep().flush(); return 0; }
        }
        if (!parse(args.one, c)) return 2;
        ChildResult r = run_child([&](FILE *f) { dup2(fileno(f), 1); rep().reset(); run_case(c); rep().flush(); fflush(stdout); });
        if (r.kind == 0) fwrite(r.out.data(), 1, r.out.size(), stdout);
        else report_crash(c, r);
        rep().flush();
        return 0;
    }
    // table of roots: W[k]^(2^k) = 1, W[k]^(2^(k-1)) = -1, W[k+1]^2 = W[k]
    for (unsigned k = 0; k < 33; k++)
    {
        u64 w = Goldilocks::w(k).fe;
        bool ok = w < GP && F.pow(w, 1ULL << k) == 1;
        if (k >= 1 && F.pow(w, 1ULL << (k - 1)) != GP - 1) ok = false;
        if (k < 32 && F.mul(Goldilocks::w(k + 1).fe, Goldilocks::w(k + 1).fe) != w) ok = false;
        if (!ok) rep().viol("C03.table.W", fmt("table=W index=%u", k), "root table row is not a primitive 2^k-th root consistent with its neighbours");
        rep().stat("table_obligations");
    }
    if (Goldilocks::shift().fe != 7) rep().viol("C05.table.SHIFT", "table=SHIFT", "coset shift is not 7");
    // bit-reversal helper BR(x, d): every width d = 1..32, all x below 2^12 (all of them when d <= 12), every one-bit and
    // two-bit pattern, all-ones and alternating patterns -- compared with a bit loop
    {
        auto naive = [](u64 x, unsigned d) { u64 r = 0; for (unsigned i = 0; i < d; i++) if ((x >> i) & 1) r |= 1ULL << (d - 1 - i); return r; };
        long long ob = 0;
        for (unsigned d = 1; d <= 32; d++)
        {
            std::vector<u64> xs;
            u64 lim = (d <= 12) ? (1ULL << d) : 4096;
            for (u64 x = 0; x < lim; x++) xs.push_back(x);
            for (unsigned i = 0; i < d; i++) { xs.push_back(1ULL << i); for (unsigned j = i + 1; j < d; j++) xs.push_back((1ULL << i) | (1ULL << j)); }
            u64 m = (d == 64) ? ~0ULL : ((1ULL << d) - 1);
            xs.push_back(m); xs.push_back(0x5555555555555555ULL & m); xs.push_back(0xAAAAAAAAAAAAAAAAULL & m); xs.push_back(0x0F0F0F0F0F0F0F0FULL & m); xs.push_back(0x00FF00FF00FF00FFULL & m); xs.push_back(0x0000FFFF0000FFFFULL & m);
            for (u64 x : xs)
            {
                ob++;
                u64 g = BR(x, d), ex = naive(x, d);
                if (g != ex) { rep().viol("C03.table.BR", fmt("table=BR d=%u x=%s", d, hex(x).c_str()), fmt("bit reversal of %u bits gives %s expected %s", d, hex(g).c_str(), hex(ex).c_str())); break; }
            }
        }
        rep().stat("table_obligations", ob);
    }
    std::string which = cs(args.kv, "prop", "C03");
    const bool th = args.thorough();
    std::vector<Case> cases;
    std::vector<u64> Ds = {1, 2, 4, 8, 16, 32, 3, 6, 12, 24}; // the maximum domain given to the constructor need not be a power of two
    if (th) { Ds.push_back(64); Ds.push_back(128); Ds.push_back(256); Ds.push_back(1024); Ds.push_back(48); Ds.push_back(1000); }
    std::vector<unsigned> nth = th ? std::vector<unsigned>{1, 2, 3, 7} : std::vector<unsigned>{1, 3};
    if (which == "C03" || which == "C04")
    {
        int mode = which == "C03" ? M_NTT : M_INTT;
        for (u64 D : Ds)
        {
            std::vector<u64> ns = {0};
            for (u64 n = 1; n <= D; n *= 2) ns.push_back(n);
            for (u64 n : ns)
                for (u64 ncols : {0ULL, 1ULL, 2ULL, 3ULL, 5ULL})
                {
                    if ((n == 0 || ncols == 0) && D > 4) continue; // no-op shapes: small objects suffice
                    if (D >= 256 && (ncols == 2 || ncols == 5 || (n < D / 2 && n > 8 && n != D / 4))) continue; // big objects: reduced cross product
                    if ((D & (D - 1)) && (ncols == 2 || ncols == 5)) continue; // non-power-of-two domains: reduced column set
                    std::vector<u64> phases;
                    for (u64 p = 0; p <= lg(D) + 2; p++) phases.push_back(p);
                    phases.push_back(~0ULL);
                    std::vector<u64> blocks = {0, 1, 2, 3, ncols, ncols + 1, ~0ULL};
                    std::sort(blocks.begin(), blocks.end());
                    blocks.erase(std::unique(blocks.begin(), blocks.end()), blocks.end());
                    for (u64 ph : phases)
                        for (u64 bl : blocks)
                            for (int buf = 0; buf < 2; buf++)
                                for (int dst = 0; dst < 3; dst++)
                                    for (unsigned t : nth)
                                    {
                                        if (D >= 64 && (t == 2 || t == 7) ) continue;
                                        if (D >= 64 && ncols == 5) continue;
                                        cases.push_back({mode, D, n, 0, ncols, ph, bl, buf, dst, t, 0});
                                    }
                }
        }
    }
    else // C05
    {
        for (u64 N : {1ULL, 2ULL, 4ULL, 8ULL, 16ULL})
            for (u64 e : {1ULL, 2ULL, 4ULL, 8ULL})
            {
                u64 Next = N * e;
                std::vector<u64> Dl = {N, 2 * N, Next, 3 * N};
                std::sort(Dl.begin(), Dl.end());
                Dl.erase(std::unique(Dl.begin(), Dl.end()), Dl.end());
                for (u64 D : Dl)
                    for (u64 ncols : {1ULL, 2ULL, 3ULL, 5ULL})
                    {
                        std::vector<u64> phases;
                        for (u64 p = 0; p <= lg(Next) + 2; p++) phases.push_back(p);
                        phases.push_back(~0ULL);
                        std::vector<u64> blocks = {0, 1, 2, 3, ncols, ncols + 1, ~0ULL};
                        std::sort(blocks.begin(), blocks.end());
                        blocks.erase(std::unique(blocks.begin(), blocks.end()), blocks.end());
                        for (u64 ph : phases)
                            for (u64 bl : blocks)
                                for (int buf = 0; buf < 2; buf++)
                                    for (int dst = 0; dst < 2; dst++)
                                        for (unsigned t : nth)
                                        {
                                            if (!th && Next > 64) continue;
                                            cases.push_back({M_EXT, D, N, Next, ncols, ph, bl, buf, dst, t, 0});
                                        }
                    }
            }
    }
    {
        // column counts around the integer constants that appear in the library source (block sizes, thresholds;
        // passed by the driver, see lib/mine.py) and their small multiples: a chunked row copy is probed on both sides
        std::set<u64> cs_;
        for (u64 L : culist(args.kv, "lits"))
            for (u64 m : {1ULL, 2ULL, 3ULL})
                for (long long d : {-1LL, 0LL, 1LL})
                {
                    long long v = (long long)(L * m) + d;
                    if (v >= 20 && v <= 2100) cs_.insert((u64)v);
                }
        int mode = which == "C03" ? M_NTT : which == "C04" ? M_INTT : M_EXT;
        long long added = 0;
        for (u64 ncols : cs_)
            for (u64 n : {8ULL, 16ULL})
                for (u64 ph : {2ULL, 3ULL, 4ULL})
                    for (u64 bl : {1ULL, 2ULL})
                        for (int dst = 0; dst < 3; dst++)
                        {
                            if (n == 16 && (ph == 3 || bl == 2)) continue;
                            if (mode == M_EXT) { if (dst == 2) continue; cases.push_back({M_EXT, n / 2, n / 2, n, ncols, ph, bl, 0, dst, 3, 0}); }
                            else cases.push_back({mode, n, n, 0, ncols, ph, bl, 0, dst, 3, 0});
                            added++;
                        }
        rep().stat("cases_from_mined_literals", added);
    }
    {
        // column partitions: every (ncols, nblock) with nblock 1..ncols+1 -- the blocks of columns must tile 0..ncols-1 exactly for
        // every pair, not only for the block counts 1, 2, 3, ncols of the sweep above
        int mode = which == "C03" ? M_NTT : which == "C04" ? M_INTT : M_EXT;
        long long added = 0;
        for (u64 ncols = 4; ncols <= (th ? 24ULL : 12ULL); ncols++)
            for (u64 bl = 1; bl <= ncols + 1; bl++)
                for (u64 n : {4ULL, 8ULL})
                    for (int dst = 0; dst < 2; dst++)
                        for (unsigned t : {1u, 3u})
                        {
                            if (n == 8 && (dst == 1 || t == 1)) continue;
                            cases.push_back({mode, n, n, mode == M_EXT ? 2 * n : 0, ncols, 2, bl, 0, dst, t, 0});
                            added++;
                        }
        rep().stat("column_partition_cases", added);
    }
    {
        // large sizes
        std::vector<u64> big = th ? std::vector<u64>{2048, 8192, 16384, 65536, 262144, 1048576} : std::vector<u64>{8192, 16384, 65536};
        if (args.num("light", 0)) big = {8192}; // sanitizer builds
        int mode = which == "C03" ? M_NTT : which == "C04" ? M_INTT : M_EXT;
        for (u64 n : big)
            for (u64 ncols : {1ULL, 3ULL})
                for (u64 ph : {1ULL, 2ULL, 3ULL, 4ULL})
                    for (u64 bl : {1ULL, 2ULL})
                        for (int dst = 0; dst < 2; dst++)
                        {
                            if (bl > ncols) continue;
                            if (n >= 262144 && (ncols == 3 || ph == 1)) continue;
                            unsigned t = (ph % 2) ? 4 : 3;
                            if (mode == M_EXT) { if (n > 65536 || (!th && n > 8192)) continue; cases.push_back({M_EXT, n, n, 2 * n, ncols, ph, bl, (int)(ph & 1), dst, t, 0}); }
                            else
                            {
                                cases.push_back({mode, n, n, 0, ncols, ph, bl, (int)(ph & 1), dst, t, 0});
                                if (n <= 65536) cases.push_back({mode, 2 * n, n, 0, ncols, ph, bl, (int)(ph & 1), dst, t, 0}); // object domain above the size
                            }
                        }
    }
    {
        // every pass schedule of the sizes whose twiddles are generic 64-bit roots (n >= 128: below, every twiddle is a power of
        // two): each nphase 1..log2 n gives another grouping of the butterfly levels into passes, incl. passes of a single level
        int mode = which == "C03" ? M_NTT : which == "C04" ? M_INTT : M_EXT;
        long long added = 0;
        for (u64 n : {128ULL, 256ULL, 8192ULL})
            for (u64 ph = 1; ph <= lg(n); ph++)
            {
                if (args.num("light", 0) && n > 256) continue;
                if (n == 8192 && ph <= 4) continue; // in the sweep above
                u64 ncols = 2, bl = (ph & 1) ? 1 : 2;
                if (mode == M_EXT) cases.push_back({M_EXT, n, n, 2 * n, ncols, ph, bl, 0, (int)(ph & 1), 3, 0});
                else cases.push_back({mode, n, n, 0, ncols, ph, bl, 0, (int)(ph & 1), 3, 0});
                added++;
            }
        rep().stat("pass_schedule_cases", added);
    }
    {
        // non-initial object states: the same measured call after another call on the object
        std::vector<Case> extra;
        std::set<std::string> seen;
        for (auto &c : cases)
        {
            // the other alignment of every buffer (an Element needs 8-byte alignment only): every configuration of the small domains
            if (c.n >= 2 && c.ncols > 0 && c.D <= 16 && (c.D & (c.D - 1)) == 0 && c.nthreads == nth[0] && !c.pre && !c.plant && !c.outer && !c.team0 && c.n <= 1024 && c.next <= 1024)
            {
                Case d = c;
                d.mis = 1;
                std::string k = casestr(d);
                if (seen.insert(k).second) extra.push_back(d);
            }
            if (c.n == 0 || c.ncols == 0 || c.buf != 0 || c.dst != 1 || c.nthreads != nth[0]) continue;
            if (!(c.nphase == 3 || c.nphase == 2) || c.nblock != 1) continue;
            for (int pre = 1; pre <= 3; pre++)
            {
                Case d = c;
                d.pre = pre;
                std::string k = casestr(d);
                if (seen.insert(k).second) extra.push_back(d);
            }
            // the source matrix donated as the scratch buffer (destination elsewhere, one block)
            if (c.mode != M_EXT)
            {
                Case d = c;
                d.buf = 2;
                std::string k = casestr(d);
                if (seen.insert(k).second) extra.push_back(d);
            }
            // rarely used variants of the same call: the trailing extend flag on a forward transform, a copied object
            if (c.mode == M_NTT)
                for (int pre : {0, 1})
                {
                    Case d = c;
                    d.xt = 1;
                    d.pre = pre;
                    std::string k = casestr(d);
                    if (seen.insert(k).second) extra.push_back(d);
                }
            {
                Case d = c;
                d.cp = 1;
                std::string k = casestr(d);
                if (seen.insert(k).second) extra.push_back(d);
            }
            // the default team size of the environment is not the library's to assume: the same call under other defaults
            for (int t0 : {3, 7})
            {
                Case d = c;
                d.team0 = t0;
                std::string k = casestr(d);
                if (seen.insert(k).second) extra.push_back(d);
            }
        }
        cases.insert(cases.end(), extra.begin(), extra.end());
        rep().stat("cases_from_non_initial_object_state", (long long)extra.size());
    }
    {
        // thread-count argument sweep: EVERY nThreads 1..17 (thorough: ..34) on sizes whose batch counts leave every kind of
        // quotient / remainder against the team (the split of batches over threads must cover all of them)
        int mode = which == "C03" ? M_NTT : which == "C04" ? M_INTT : M_EXT;
        long long added = 0;
        if (!args.num("light", 0))
        for (u64 n : (th ? std::vector<u64>{16, 32, 64, 128, 256, 512, 1024, 4096} : std::vector<u64>{64, 256, 1024}))
            for (u64 ph : {1ULL, 2ULL, 3ULL, 4ULL})
                for (unsigned t = 1; t <= (th ? 34u : 17u); t++)
                {
                    if (mode == M_EXT) { if (!th && n > 256) continue; cases.push_back({M_EXT, n / 2, n / 2, n, 1, ph, 1, 0, 1, t, 0, 0, 0}); }
                    else cases.push_back({mode, n, n, 0, 1, ph, 1, 0, 1, t, 0, 0, 0});
                    added++;
                }
        rep().stat("cases_from_thread_count_sweep", added);
    }
    {
        // the transform called from inside a parallel region of the caller (run_case_outer)
        int mode = which == "C03" ? M_NTT : which == "C04" ? M_INTT : M_EXT;
        long long added = 0;
        if (!args.num("light", 0))
        for (u64 n : {4ULL, 16ULL, 64ULL})
            for (u64 ncols : {2ULL, 5ULL})
                for (u64 ph : {1ULL, 2ULL, 3ULL})
                    for (u64 bl : {1ULL, 2ULL, 3ULL})
                        for (int dst = 0; dst < 2; dst++)
                            for (int buf = 0; buf < 2; buf++)
                                for (int outer : {2, 3})
                                {
                                    Case c = {mode, n, mode == M_EXT ? n / 2 : n, mode == M_EXT ? n : 0, ncols, ph, bl, buf, dst, (unsigned)(outer == 2 ? 3 : 1), 0, 0, 0, 0, 0, outer, 0};
                                    cases.push_back(c);
                                    added++;
                                }
        rep().stat("cases_called_from_a_parallel_region", added);
    }
    {
        // boundary words planted at a pipeline stage (run_case_planted)
        int mode = which == "C03" ? M_NTT : which == "C04" ? M_INTT : M_EXT;
        long long added = 0;
        if (!args.num("light", 0))
        for (u64 n : {2ULL, 4ULL, 8ULL, 16ULL})
            for (u64 e : {2ULL, 4ULL})
                for (u64 ncols : {2ULL, 3ULL})
                    for (u64 ph : {1ULL, 2ULL, 3ULL})
                        for (u64 bl : {1ULL, 2ULL})
                            for (int plant = 1; plant <= 2; plant++)
                            {
                                if (mode != M_EXT && e != 2) continue;
                                if (!th && n == 16 && (ph != 3 || bl != 1)) continue;
                                unsigned t = (ph == 3 && bl == 1) ? 3 : 1;
                                Case c = {mode, mode == M_EXT ? n : n, n, mode == M_EXT ? n * e : 0, ncols, ph, bl, 0, 1, t, 0, 0, 0, 0, 0, 0, plant};
                                cases.push_back(c);
                                added++;
                            }
        rep().stat("cases_with_planted_stage_values", added);
    }
    if (args.num("small", 0))
    {
        // reduced space for an additional build configuration of the same sources (-DNDEBUG): the small domains only
        std::vector<Case> keep;
        for (auto &c : cases)
            if (c.D <= 8 && c.n <= 8 && c.next <= 16 && c.ncols <= 5 && !c.mis && !c.outer) keep.push_back(c);
        cases.swap(keep);
    }
    if (args.seed) std::rotate(cases.begin(), cases.begin() + (args.seed % cases.size()), cases.end());
    isolated_for((long)cases.size(), args.jobs, 24, [&](long i) { run_case(cases[i]); }, [&](long i, const ChildResult &r) { report_crash(cases[i], r); }, 300);
    long long nt = 0;
    std::set<std::string> classes;
    for (auto &c : cases)
    {
        if (c.n < c.D || c.dst == 2 || c.nblock != 1 || c.nphase == 0 || c.nphase > lg(c.D)) nt++;
        classes.insert(fail_class(c) + fmt(".ph%llu", (unsigned long long)std::min<u64>(c.nphase, 99)));
    }
    rep().stat("states", (long long)cases.size());
    rep().stat("distinct_nontrivial", nt);
    rep().stat("distinct_outcomes", (long long)classes.size());
    if (!cases.empty())
    {
        rep().sample("config", "\"case\":\"" + casestr(cases[cases.size() / 2]) + "\",\"inputs\":\"n impulse calls (column c holds e_(t+c mod n)) + 1 dense non-canonical call\"", 1);
        rep().sample("space", fmt("\"property\":\"%s\",\"configurations\":%zu,\"domains\":%zu,\"thread_counts\":%zu", which.c_str(), cases.size(), Ds.size(), nth.size()), 1);
    }
    rep().flush();
    return 0;
}
