// C07: linear_hash{_seq,,_avx512} is the rate-8 / capacity-4 sponge for every input length;
// <= 4 elements are returned unchanged, zero padded; reads exactly the declared input length.
//
// Enumerated: every length 0..Lmax x contents (zero, counting, all-ones representation, every
// single position carrying a marker) x variants, each with the input end-aligned AND start-aligned
// against PROT_NONE guard pages (exact read extent), output end-aligned against a guard page
// (exact write extent) with sentinels in front.  Each case group runs in its own process.
#include "vcommon.hpp"
#include "poseidon_goldilocks.hpp"
#include "poseidon_ref.hpp"
using namespace vc;
typedef Goldilocks::Element E;
#ifdef VW
static const unsigned W = VW;
#else
static const unsigned W = 32;
#endif
static const u64 PR = pw(W);
static const u64 MASK = (W == 32) ? ~0ULL : ((1ULL << (2 * W)) - 1);
#ifdef SIMW_SIG
namespace simw { thread_local u64 sig[8] = {1, 1, 1, 1, 1, 1, 1, 1}; }
namespace simw_asm { thread_local u64 asig = 1; }
#endif

static pref::Tables tables()
{
    pref::Tables t;
    t.P = PR;
    t.C = (const u64 *)PoseidonGoldilocksConstants::C;
    t.S = (const u64 *)PoseidonGoldilocksConstants::S;
    t.M = (const u64 *)PoseidonGoldilocksConstants::M;
    t.Pm = (const u64 *)PoseidonGoldilocksConstants::P;
    t.M_ = (const u64 *)PoseidonGoldilocksConstants::M_;
    t.P_ = (const u64 *)PoseidonGoldilocksConstants::P_;
    return t;
}
enum Variant { V_SEQ, V_AVX, V_AVX512, NV };
static const char *vname[] = {"linear_hash_seq", "linear_hash", "linear_hash_avx512"};

// content kinds: 0 zeros, 1 counting (i+1), 2 all MASK (non-canonical), 3+k: zeros with marker at position k
static u64 content(int kind, size_t i, size_t which /*0 or 1: second input of the avx512 pair*/)
{
    u64 v;
    if (kind == 0) v = 0;
    else if (kind == 1) v = (u64)(i + 1 + 1000 * which);
    else if (kind == 2) v = MASK - (which ? 1 : 0);
    else v = ((size_t)(kind - 3) == i) ? (0x1234567 + which) : 0;
    return v & MASK;
}
struct Case { int variant; size_t len; int kind; int align; /*0 end-aligned input, 1 start-aligned*/ };
static std::string casestr(const Case &c) { return fmt("w=%u variant=%s len=%zu kind=%d align=%d", W, vname[c.variant], c.len, c.kind, c.align); }

static void run_case(const pref::Ref &R, const Case &c)
{
    const int two = (c.variant == V_AVX512) ? 2 : 1;
    size_t n = c.len * two;
    GuardArena<E> in(n, c.align != 1);
    GuardArena<E> out(4 * two + 4, true); // 4 sentinel elements in front of the digest(s)
    std::vector<u64> raw(n);
    for (int w2 = 0; w2 < two; w2++)
        for (size_t i = 0; i < c.len; i++) { raw[w2 * c.len + i] = content(c.kind, i, w2); in.p[w2 * c.len + i].fe = raw[w2 * c.len + i]; }
    const u64 SENT = 0x5E5E5E5E5E5E5E5EULL;
    for (int i = 0; i < 4; i++) out.p[i].fe = SENT;
    for (int i = 0; i < 4 * two; i++) out.p[4 + i].fe = SENT;
    E *o = out.p + 4;
    switch (c.variant)
    {
    case V_SEQ: PoseidonGoldilocks::linear_hash_seq(o, in.p, c.len); break;
    case V_AVX: PoseidonGoldilocks::linear_hash(o, in.p, c.len); break;
    case V_AVX512:
#ifdef __AVX512__
        PoseidonGoldilocks::linear_hash_avx512(o, in.p, c.len);
#endif
        break;
    }
    rep().stat("transitions");
    rep().stat("evaluations");
    for (int w2 = 0; w2 < two; w2++)
    {
        u64 ex[4];
        if (c.align == 2)
        {
            // differential oracle for huge inputs in the quick tier: the library's scalar sponge (itself compared with
            // the reference on every length up to Lmax and, in the thorough tier, on these lengths too)
            E d4[4];
            PoseidonGoldilocks::linear_hash_seq(d4, in.p + w2 * c.len, c.len);
            for (int i = 0; i < 4; i++) ex[i] = d4[i].fe % PR;
        }
        else
        R.linear_hash(ex, raw.data() + w2 * c.len, c.len);
        for (int i = 0; i < 4; i++)
        {
            u64 g = o[4 * w2 + i].fe;
            bool ok = (g <= MASK) && (g % PR == ex[i]);
            if (!ok)
            {
                rep().viol(fmt("C07.wrong.%s.w%u", vname[c.variant], W), casestr(c), fmt("input %d digest element %d got %s expected %s", w2, i, hex(g).c_str(), hex(ex[i]).c_str()));
                return;
            }
        }
    }
    for (int i = 0; i < 4; i++)
        if (out.p[i].fe != SENT) { rep().viol(fmt("C07.write-outside.%s.w%u", vname[c.variant], W), casestr(c), "element before the digest overwritten"); return; }
    for (size_t i = 0; i < n; i++)
        if (in.p[i].fe != raw[i]) { rep().viol(fmt("C07.input-modified.%s.w%u", vname[c.variant], W), casestr(c), fmt("input element %zu changed", i)); return; }
}

int main(int argc, char **argv)
{
    Args args = parse_args(argc, argv);
    pref::Tables T = tables();
    pref::Ref R(T);
    if (!args.one.empty())
    {
        auto m = parse_case(args.one);
        if (cu(m, "w", 32) != W) { printf("INFO skip width\n"); return 0; }
        Case c{0, (size_t)cu(m, "len"), (int)cu(m, "kind"), (int)cu(m, "align")};
        std::string v = cs(m, "variant");
        for (int i = 0; i < NV; i++) if (v == vname[i]) c.variant = i;
        ChildResult r = run_child([&](FILE *f) { dup2(fileno(f), 1); rep().reset(); run_case(R, c); rep().flush(); fflush(stdout); }, 1500);
        if (r.kind == 0) fwrite(r.out.data(), 1, r.out.size(), stdout);
        else rep().viol(fmt("C07.%s.%s.w%u", crash_sig(r).c_str(), vname[c.variant], W), casestr(c), err_tail(r));
        rep().flush();
        return 0;
    }
    size_t Lmax = args.thorough() ? 130 : 41;
    if (W < 32) Lmax = args.thorough() ? 41 : 25; // model speed
    std::vector<Case> cases;
    for (int v = 0; v < NV; v++)
    {
#ifndef __AVX512__
        if (v == V_AVX512) continue;
#endif
        for (size_t L = 0; L <= Lmax; L++)
            for (int kind = 0; kind < 3 + (int)L; kind++)
                for (int al = 0; al < 2; al++) cases.push_back({v, L, kind, al});
        // huge inputs (thorough): lengths beyond 2^24 elements, where a 32-bit float / int conversion of the length would round
        const bool light = args.num("light", 0) != 0; // sanitizer builds: the huge lengths are skipped (time), everything else is kept
        if (W == 32 && args.thorough() && !light)
            for (size_t L : {((size_t)1 << 24) + 1, ((size_t)1 << 24) + 9})
                cases.push_back({v, L, 1, 0});
        if (W == 32 && !args.thorough() && v != V_SEQ && !light)
            for (size_t L : {((size_t)1 << 24) + 1, ((size_t)1 << 24) + 9})
                cases.push_back({v, L, 1, 2}); // align=2: differential against linear_hash_seq
        // lengths next to the integer constants of the library source (and 8x: block counts), see lib/mine.py
        if (W == 32)
        {
            std::set<size_t> ls;
            for (u64 L : culist(args.kv, "lits"))
                for (u64 m : {1ULL, 8ULL})
                    for (long long d : {-1LL, 0LL, 1LL}) { long long x = (long long)(L * m) + d; if (x > (long long)Lmax && x <= (light ? 40000 : 300000)) ls.insert((size_t)x); }
            for (size_t L : ls)
                for (int kind : {1, 2, 3 + (int)L - 1})
                    cases.push_back({v, L, kind, 0});
        }
        // long inputs: block-loop bookkeeping far from the small cases (three bulk contents + a marker in the last block)
        if (W == 32)
            for (size_t L : {(size_t)255, (size_t)256, (size_t)257, (size_t)511, (size_t)1000, (size_t)1023, (size_t)1024, (size_t)1025, (size_t)4099, (size_t)65537})
            {
                if (L > 5000 && !args.thorough() && v != V_AVX) continue;
                if (L > 5000 && light) continue;
                for (int kind : {0, 1, 2, 3 + (int)L - 1, 3 + (int)L - 9, 3 + 8})
                    for (int al = 0; al < 2; al++) cases.push_back({v, L, kind, al});
            }
    }
    std::set<std::pair<int, size_t>> groups;
    for (auto &c : cases) groups.insert({c.variant, c.len});
    isolated_for((long)cases.size(), args.jobs, 16, [&](long i) { run_case(R, cases[i]); },
                 [&](long i, const ChildResult &r) { rep().viol(fmt("C07.%s.%s.w%u", crash_sig(r).c_str(), vname[cases[i].variant], W), casestr(cases[i]), err_tail(r)); }, 900);
    rep().stat("states", (long long)cases.size());
    rep().stat(fmt("states_w%u", W), (long long)cases.size());
    long long nt = 0;
    for (auto &c : cases) if (c.len % 8 != 0 || c.len <= 4 || c.kind == 2) nt++;
    rep().stat("distinct_nontrivial", nt);
    rep().stat("distinct_outcomes", (long long)groups.size());
    rep().sample("sponge-case", fmt("\"w\":%u,\"variant\":\"linear_hash\",\"len\":13,\"content\":\"zeros with marker at position 9\",\"input\":\"end-aligned to a PROT_NONE page\"", W), 1);
    rep().sample("sponge-space", fmt("\"w\":%u,\"lengths\":\"0..%zu\",\"contents_per_length\":\"3+len\",\"alignments\":2,\"cases\":%zu", W, Lmax, cases.size()), 1);
    rep().flush();
    return 0;
}
