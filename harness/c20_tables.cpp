// C20 (table half): omegas / omegas_inv / domain_size_inverse of ntt_goldilocks.cuh against the CPU
// root table and against their defining equations, all 33 rows.  "c20_tables_gen.hpp" is generated on
// every run from the source text by engine/ptxw/tables2host.py.
//   state      = (table, row)                       3 x 33
//   transition = one equation evaluated on one row
#include "vcommon.hpp"
#include "c20_tables_gen.hpp"
using namespace vc;

static const Mod F(GP);
static const int ROWS = 33;

struct Ctr { long long trans = 0, states = 0; };
static Ctr ctr;

static void bad(const char *table, int i, const char *eq, const std::string &detail)
{
    rep().viol(fmt("C20.table.%s.%s", table, eq), fmt("table=%s i=%d", table, i), detail);
}
static bool row_ok(const C20Row *t, int decl, int i) { return i < decl; }

// every check on row i of one table; returns number of equations evaluated
static void check_row(const std::string &table, int i)
{
    const C20Row &om = C20_OMEGAS[i < C20_OMEGAS_DECL ? i : C20_OMEGAS_DECL];
    const C20Row &oi = C20_OMEGAS_INV[i < C20_OMEGAS_INV_DECL ? i : C20_OMEGAS_INV_DECL];
    const C20Row &ds = C20_DSI[i < C20_DSI_DECL ? i : C20_DSI_DECL];
    const C20Row &cw = C20_CPUW[i < C20_CPUW_DECL ? i : C20_CPUW_DECL];
    ctr.states++;
    if (table == "omegas")
    {
        ctr.trans++;
        if (!row_ok(C20_OMEGAS, C20_OMEGAS_DECL, i)) { bad("omegas", i, "missing", "table has fewer than 33 rows"); return; }
        if (om.overflow || om.v >= GP) bad("omegas", i, "noncanonical", fmt("entry %s is not a canonical field element", om.text));
        ctr.trans++;
        if (i >= C20_CPUW_DECL) bad("omegas", i, "cpu", "CPU table W has no such row");
        else if (om.overflow || cw.overflow || om.v != cw.v) bad("omegas", i, "cpu", fmt("omegas[%d]=%s but CPU W[%d]=%s", i, om.text, i, cw.text));
        ctr.trans++;
        u64 e = F.pow(om.v, 1ULL << i);
        if (e != 1) bad("omegas", i, "order", fmt("omegas[%d]^(2^%d) = %s, expected 1", i, i, hex(e).c_str()));
        if (i >= 1)
        {
            ctr.trans++;
            u64 h = F.pow(om.v, 1ULL << (i - 1));
            if (h != GP - 1) bad("omegas", i, "primitive", fmt("omegas[%d]^(2^%d) = %s, expected p-1 (root is not primitive)", i, i - 1, hex(h).c_str()));
            ctr.trans++;
            const C20Row &prev = C20_OMEGAS[i - 1];
            if (F.mul(om.v, om.v) != prev.v % GP) bad("omegas", i, "chain", fmt("omegas[%d]^2 != omegas[%d]", i, i - 1));
        }
    }
    else if (table == "omegas_inv")
    {
        ctr.trans++;
        if (!row_ok(C20_OMEGAS_INV, C20_OMEGAS_INV_DECL, i)) { bad("omegas_inv", i, "missing", "table has fewer than 33 rows"); return; }
        if (oi.overflow || oi.v >= GP) bad("omegas_inv", i, "noncanonical", fmt("entry %s is not a canonical field element", oi.text));
        ctr.trans++;
        u64 pr = F.mul(om.v, oi.v);
        if (oi.overflow || pr != 1) bad("omegas_inv", i, "inverse", fmt("omegas[%d]*omegas_inv[%d] = %s, expected 1 (entry %s, correct value %s)", i, i, hex(pr).c_str(), oi.text, hex(F.inv(om.v)).c_str()));
        ctr.trans++;
        if (i < C20_CPUW_DECL && F.mul(cw.v, oi.v) != 1) bad("omegas_inv", i, "cpu", fmt("CPU W[%d]*omegas_inv[%d] != 1", i, i));
    }
    else if (table == "domain_size_inverse")
    {
        ctr.trans++;
        if (!row_ok(C20_DSI, C20_DSI_DECL, i)) { bad("domain_size_inverse", i, "missing", "table has fewer than 33 rows"); return; }
        if (ds.overflow || ds.v >= GP) bad("domain_size_inverse", i, "noncanonical", fmt("entry %s is not a canonical field element", ds.text));
        ctr.trans++;
        u64 pr = F.mul(F.pow(2, i), ds.v);
        if (ds.overflow || pr != 1) bad("domain_size_inverse", i, "inverse", fmt("2^%d * domain_size_inverse[%d] = %s, expected 1 (entry %s, correct value %s)", i, i, hex(pr).c_str(), ds.text, hex(F.inv(F.pow(2, i))).c_str()));
    }
}

int main(int argc, char **argv)
{
    Args args = parse_args(argc, argv);
    const char *tables[] = {"omegas", "omegas_inv", "domain_size_inverse"};
    if (!args.one.empty())
    {
        auto m = parse_case(args.one);
        std::string t = cs(m, "table");
        int i = (int)cu(m, "i");
        if (i < 0 || i >= ROWS) return 2;
        check_row(t, i);
        rep().flush();
        return 0;
    }
    for (const char *t : tables)
    {
        int decl = !strcmp(t, "omegas") ? C20_OMEGAS_DECL : !strcmp(t, "omegas_inv") ? C20_OMEGAS_INV_DECL : C20_DSI_DECL;
        int init = !strcmp(t, "omegas") ? C20_OMEGAS_INIT : !strcmp(t, "omegas_inv") ? C20_OMEGAS_INV_INIT : C20_DSI_INIT;
        if (decl != ROWS || init != ROWS) rep().viol(fmt("C20.table.%s.size", t), fmt("table=%s i=0", t), fmt("declared size %d, %d initialisers, expected 33", decl, init));
        for (int i = 0; i < ROWS; i++) check_row(t, i);
    }
    if (C20_CPUW_DECL != ROWS || C20_CPUW_INIT != ROWS) rep().uncovered(fmt("CPU table W has %d/%d rows, not 33", C20_CPUW_DECL, C20_CPUW_INIT));
    rep().sample("table-row", fmt("\"table\":\"omegas_inv\",\"i\":32,\"omegas\":\"%s\",\"omegas_inv\":\"%s\",\"product_mod_p\":\"%s\",\"cpu_W\":\"%s\"", C20_OMEGAS[32].text, C20_OMEGAS_INV[32].text,
                                  hex(F.mul(C20_OMEGAS[32].v, C20_OMEGAS_INV[32].v)).c_str(), C20_CPUW[32].text), 1);
    rep().sample("table-row", fmt("\"table\":\"domain_size_inverse\",\"i\":32,\"entry\":\"%s\",\"times_2^32_mod_p\":\"%s\"", C20_DSI[32].text, hex(F.mul(F.pow(2, 32), C20_DSI[32].v)).c_str()), 2);
    rep().stat("states", ctr.states);
    rep().stat("states_table_rows", ctr.states);
    rep().stat("transitions", ctr.trans);
    rep().stat("evaluations", ctr.trans);
    rep().stat("distinct_outcomes", ctr.states);
    rep().flush();
    return 0;
}
