// C12: parallel regions are race-free; results are independent of team size, member order and
// interleaving.
//
// The library objects are compiled with -fopenmp -fsanitize=thread (compile only) and linked with
// engine/teamsched (own GOMP_parallel / omp_* / __tsan_* / mem* wrappers): no libgomp, no libtsan.
//   serial : every scenario x every team size x every member order (all T! for T<=4, rotations
//            and reflections above): output bit-identical to the single-member run, and in every
//            region of every execution W_i n (R_j u W_j) = {} for all members i != j
//   coop   : on the small scenarios, for every region separately, ALL interleavings with at most
//            b preemptions (b = 0,1,2) at element granularity; after every explored schedule the
//            memory state at the end of the region equals that of the default schedule (so the
//            per-region exploration covers the cross product) and the final output equals the reference
//   -DFREE_RUNNING : the same scenario bodies with a pthread-based GOMP_parallel under real
//            ThreadSanitizer (separate binary; a cooperative scheduler hides races from it)
#include "vcommon.hpp"
#include "ntt_goldilocks.hpp"
#include "poseidon_goldilocks.hpp"
#include "goldilocks_cubic_extension.hpp"
#include <thread>
#ifndef FREE_RUNNING
#include "teamsched.hpp"
#endif
using namespace vc;
typedef Goldilocks::Element E;

enum Kind { K_NTT, K_INTT, K_EXT, K_MERKLE, K_MERKLE_BATCH, K_PARCPY, K_PARZERO, NK };
static const char *kname[] = {"NTT", "INTT", "extendPol", "merkletree", "merkletree_batch", "parcpy", "parSetZero"};
struct Scn
{
    int kind;
    u64 n, next, ncols, nphase, nblock; // transforms
    int dst;                             // 0 in place, 1 other
    int backend;                         // merkle: 0 seq 1 avx 2 avx512
    u64 rows, cols, dim, batch;          // merkle
    u64 size;                            // parcpy
    int content = 0;                     // input values: 0 all different, 1 every element the same non-zero word (all rows / columns identical), 2 all zero
};
static std::string scnstr(const Scn &s, int T)
{
    return fmt("kind=%s n=%llu next=%llu ncols=%llu nphase=%llu nblock=%llu dst=%d backend=%d rows=%llu cols=%llu dim=%llu batch=%llu size=%llu T=%d", kname[s.kind], (unsigned long long)s.n,
               (unsigned long long)s.next, (unsigned long long)s.ncols, (unsigned long long)s.nphase, (unsigned long long)s.nblock, s.dst, s.backend, (unsigned long long)s.rows,
               (unsigned long long)s.cols, (unsigned long long)s.dim, (unsigned long long)s.batch, (unsigned long long)s.size, T) + (s.content ? fmt(" content=%d", s.content) : std::string());
}
static bool parse_scn(const std::string &c, Scn &s, int &T)
{
    auto m = parse_case(c);
    std::string k = cs(m, "kind");
    s.kind = -1;
    for (int i = 0; i < NK; i++) if (k == kname[i]) s.kind = i;
    if (s.kind < 0) return false;
    s.n = cu(m, "n"); s.next = cu(m, "next"); s.ncols = cu(m, "ncols"); s.nphase = cu(m, "nphase"); s.nblock = cu(m, "nblock"); s.dst = (int)cu(m, "dst");
    s.backend = (int)cu(m, "backend"); s.rows = cu(m, "rows"); s.cols = cu(m, "cols"); s.dim = cu(m, "dim"); s.batch = cu(m, "batch"); s.size = cu(m, "size"); s.content = (int)cu(m, "content", 0);
    T = (int)(long long)strtoll(cs(m, "T", "1").c_str(), 0, 10);
    return true;
}

struct Bufs
{
    E *src = nullptr, *dst = nullptr, *buf = nullptr;
    size_t nsrc = 0, ndst = 0, nbuf = 0;
    static E *al(size_t n) { void *p = nullptr; if (posix_memalign(&p, 64, std::max<size_t>(64, n * sizeof(E)))) abort(); return (E *)p; }
    void alloc(size_t a, size_t b, size_t c) { nsrc = a; ndst = b; nbuf = c; src = al(a); dst = al(b); buf = al(c); }
    ~Bufs() { free(src); free(dst); free(buf); }
};
static void sizes(const Scn &s, size_t &a, size_t &b, size_t &c)
{
    switch (s.kind)
    {
    case K_NTT: case K_INTT: a = b = c = s.n * s.ncols; break;
    case K_EXT: a = s.next * s.ncols; b = s.next * s.ncols; c = s.next * s.ncols; break;
    case K_MERKLE: case K_MERKLE_BATCH: a = s.rows * s.cols * s.dim; b = 4 * (2 * s.rows - 1); c = 0; break;
    default: a = b = s.size; c = 0; break;
    }
}
static void fill(const Scn &s, Bufs &B)
{
    for (size_t i = 0; i < B.nsrc; i++) B.src[i].fe = s.content == 0 ? ((i * 0x9E3779B97F4A7C15ULL + 12345) | 1) : s.content == 1 ? 0x0123456789ABCDEFULL : 0;
    for (size_t i = 0; i < B.ndst; i++) B.dst[i].fe = 0x1111111111111111ULL;
    for (size_t i = 0; i < B.nbuf; i++) B.buf[i].fe = 0x2222222222222222ULL;
    (void)s;
}
// the library call of a scenario with team parameter T; result = bytes of the output buffer
static void call(const Scn &s, Bufs &B, int T)
{
    switch (s.kind)
    {
    case K_NTT: case K_INTT:
    {
        NTT_Goldilocks ntt(s.n, (u_int32_t)T);
        E *d = s.dst ? B.dst : B.src;
        if (s.kind == K_NTT) ntt.NTT(d, B.src, s.n, s.ncols, B.buf, s.nphase, s.nblock);
        else ntt.INTT(d, B.src, s.n, s.ncols, B.buf, s.nphase, s.nblock);
        break;
    }
    case K_EXT:
    {
        NTT_Goldilocks ntt(s.n, (u_int32_t)T);
        E *d = s.dst ? B.dst : B.src;
        ntt.extendPol(d, B.src, s.next, s.n, s.ncols, B.buf, s.nphase, s.nblock);
        break;
    }
    case K_MERKLE:
        if (s.backend == 0) PoseidonGoldilocks::merkletree_seq(B.dst, B.src, s.cols, s.rows, T, s.dim);
        else if (s.backend == 1) PoseidonGoldilocks::merkletree_avx(B.dst, B.src, s.cols, s.rows, T, s.dim);
#ifdef __AVX512__
        else PoseidonGoldilocks::merkletree_avx512(B.dst, B.src, s.cols, s.rows, T, s.dim);
#endif
        break;
    case K_MERKLE_BATCH:
        if (s.backend == 0) PoseidonGoldilocks::merkletree_batch_seq(B.dst, B.src, s.cols, s.rows, s.batch, T, s.dim);
        else if (s.backend == 1) PoseidonGoldilocks::merkletree_batch_avx(B.dst, B.src, s.cols, s.rows, s.batch, T, s.dim);
#ifdef __AVX512__
        else PoseidonGoldilocks::merkletree_batch_avx512(B.dst, B.src, s.cols, s.rows, s.batch, T, s.dim);
#endif
        break;
    case K_PARCPY: Goldilocks::parcpy(B.dst, B.src, s.size, T); break;
    case K_PARZERO: Goldilocks::parSetZero(B.dst, s.size, T); break;
    }
}
static std::string output_of(const Scn &s, const Bufs &B)
{
    const E *o = ((s.kind == K_NTT || s.kind == K_INTT || s.kind == K_EXT) && !s.dst) ? B.src : B.dst;
    size_t n = ((s.kind == K_NTT || s.kind == K_INTT || s.kind == K_EXT) && !s.dst) ? B.nsrc : B.ndst;
    if (s.kind == K_NTT || s.kind == K_INTT) n = s.n * s.ncols;
    return std::string((const char *)o, n * sizeof(E));
}
static u64 fnv(const void *p, size_t n, u64 h)
{
    const unsigned char *b = (const unsigned char *)p;
    for (size_t i = 0; i < n; i++) { h ^= b[i]; h *= 1099511628211ULL; }
    return h;
}

static std::vector<Scn> scenarios(bool th, bool small_only)
{
    std::vector<Scn> v;
    std::vector<u64> ns = small_only ? std::vector<u64>{4, 8} : (th ? std::vector<u64>{2, 4, 8, 16, 32} : std::vector<u64>{4, 8, 16});
    for (int kind : {K_NTT, K_INTT})
        for (u64 n : ns)
            for (u64 nc : (small_only ? std::vector<u64>{1, 2, 3} : std::vector<u64>{1, 3}))
                for (u64 ph : {1ULL, 2ULL, 3ULL})
                    for (u64 bl : {1ULL, 2ULL})
                        for (int d = 0; d < 2; d++)
                        {
                            if (small_only && ((ph == 3 && n < 8) || (kind == K_INTT && d == 1))) continue;
                            if (bl > nc) continue;
                            v.push_back({kind, n, 0, nc, ph, bl, d, 0, 0, 0, 0, 0, 0});
                        }
    for (u64 N : (small_only ? std::vector<u64>{2, 4} : std::vector<u64>{2, 4, 8}))
        for (u64 e : {1ULL, 2ULL, 4ULL})
            for (u64 nc : (small_only ? std::vector<u64>{1} : std::vector<u64>{1, 3}))
                for (u64 ph : {1ULL, 2ULL})
                    for (u64 bl : {1ULL, 2ULL})
                        for (int d = 0; d < 2; d++)
                        {
                            if (bl > nc) continue;
                            if (small_only && (e == 4 || d == 1)) continue;
                            v.push_back({K_EXT, N, N * e, nc, ph, bl, d, 0, 0, 0, 0, 0, 0});
                        }
    // large blow-up factors on tiny domains (N_ext >= 4 N^2: the rows just above N and the rows of the extension pattern meet)
    if (!small_only)
        for (u64 N : {1ULL, 2ULL})
            for (u64 e : {4ULL, 8ULL, 16ULL, 32ULL})
                for (u64 ph : {1ULL, 2ULL})
                    for (int d = 0; d < 2; d++)
                        v.push_back({K_EXT, N, N * e, 1, ph, 1, d, 0, 0, 0, 0, 0, 0});
    int nback = 2;
#ifdef __AVX512__
    nback = 3;
#endif
    for (int b = 0; b < nback; b++)
        for (u64 rows : (small_only ? std::vector<u64>{2, 4} : std::vector<u64>{1, 2, 4, 8, 16}))
            for (u64 cols : (small_only ? std::vector<u64>{3} : std::vector<u64>{0, 3, 9}))
            {
                if (small_only && b == 0) continue;
                v.push_back({K_MERKLE, 0, 0, 0, 0, 0, 0, b, rows, cols, 1, 0, 0});
                if (!small_only) v.push_back({K_MERKLE, 0, 0, 0, 0, 0, 0, b, rows, cols, 2, 0, 0});
                v.push_back({K_MERKLE_BATCH, 0, 0, 0, 0, 0, 0, b, rows, cols, 1, 2, 0});
            }
    for (u64 size : (small_only ? std::vector<u64>{5} : std::vector<u64>{0, 1, 2, 5, 64, 100}))
    {
        v.push_back({K_PARCPY, 0, 0, 0, 0, 0, 0, 0, 0, 0, 0, 0, size});
        v.push_back({K_PARZERO, 0, 0, 0, 0, 0, 0, 0, 0, 0, 0, 0, size});
    }
    return v;
}
static std::vector<int> g_lit_teams;
static std::vector<int> team_args(const Scn &s, bool th)
{
    if (!g_lit_teams.empty() && !(s.kind == K_PARCPY || s.kind == K_PARZERO))
    {
        std::vector<int> v = th ? std::vector<int>{1, 2, 3, 4, 5, 6, 7, 8, 9, 10, 11, 12, 13, 16, 17, 31, 33} : std::vector<int>{1, 2, 3, 4, 5, 6, 7, 8, 11, 13};
        for (int t : g_lit_teams) v.push_back(t);
        std::sort(v.begin(), v.end());
        v.erase(std::unique(v.begin(), v.end()), v.end());
        return v;
    }
    if (s.kind == K_PARCPY || s.kind == K_PARZERO) return {-1, 0, 1, 2, 3, 64, 101};
    if (th) return {1, 2, 3, 4, 5, 6, 7, 8, 9, 10, 11, 12, 13, 16, 17, 31, 33};
    return {1, 2, 3, 4, 5, 6, 7, 8, 11, 13};
}

#ifdef FREE_RUNNING
int main(int argc, char **argv)
{
    Args args = parse_args(argc, argv);
    auto S = scenarios(args.thorough(), false);
    long long runs = 0;
    int reps = args.thorough() ? 6 : 2;
    for (auto &s : S)
        for (int T : team_args(s, false))
        {
            if (T == 1) continue;
            for (int r = 0; r < reps; r++)
            {
                Bufs B;
                size_t a, b, c;
                sizes(s, a, b, c);
                B.alloc(a, b, c);
                fill(s, B);
                call(s, B, T);
                runs++;
            }
        }
    printf("STAT free_running_executions %lld\n", runs);
    // Re-entrancy battery (beyond the letter of C12, no alarm on correct code): the library's static functions
    // share no state, so concurrent callers on disjoint data must not race and must get the sequential results.
    {
        const int NT = 6, REP = args.thorough() ? 400 : 60;
        std::vector<u64> batch_lens = {9, 1000};
        for (u64 L : culist(args.kv, "lits")) if (L + 1 <= 70000) { batch_lens.push_back(L + 1); if (2 * L + 1 <= 70000) batch_lens.push_back(2 * L + 1); }
        auto battery = [&](int id, std::vector<u64> &out) {
            for (int r = 0; r < REP; r++)
            {
                u64 x = (u64)(id + 1) * 0x9E3779B97F4A7C15ULL + (u64)r * 0xD1B54A32D192ED03ULL;
                E e;
                e.fe = x;
                out.push_back((u64)Goldilocks::toS64(e));
                int32_t s32 = 0;
                E small = Goldilocks::fromS32((int32_t)(x >> 33) - (1 << 29));
                out.push_back(Goldilocks::toS32(s32, small) ? (u64)(uint32_t)s32 : 0xBAD);
                out.push_back(Goldilocks::toU64(e));
                {
                    // conversions are cheap: many calls per round so that concurrent callers really overlap
                    u64 acc = 0;
                    for (int k = 0; k < 400; k++)
                    {
                        E f;
                        f.fe = x + (u64)k * 0x100000001ULL;
                        acc = acc * 31 + (u64)Goldilocks::toS64(f);
                        int32_t t32 = 0;
                        E g = Goldilocks::fromS32((int32_t)(f.fe >> 34) - (1 << 28));
                        acc = acc * 31 + (Goldilocks::toS32(t32, g) ? (u64)(uint32_t)t32 : 7);
                        acc = acc * 31 + (u64)Goldilocks::isOne(f) + 2 * (u64)Goldilocks::isZero(f);
                    }
                    out.push_back(acc);
                }
                std::string st = Goldilocks::toString(e, 10);
                out.push_back(Goldilocks::fromString(st, 10).fe);
                mpz_class z(st);
                out.push_back(Goldilocks::fromScalar(z - 7).fe);
                if (x % GP) out.push_back(Goldilocks::toU64(Goldilocks::inv(e)));
                out.push_back(Goldilocks::toU64(Goldilocks::exp(e, x >> 40)));
                E st12[12], o12[12];
                for (int i = 0; i < 12; i++) st12[i].fe = x + i;
                PoseidonGoldilocks::hash_full_result_seq(o12, st12);
                out.push_back(o12[0].fe);
                PoseidonGoldilocks::hash_full_result(o12, st12);
                out.push_back(o12[5].fe);
                E in20[20], d4[4];
                for (int i = 0; i < 20; i++) in20[i].fe = x ^ (u64)i;
                PoseidonGoldilocks::linear_hash(d4, in20, 20);
                out.push_back(d4[3].fe);
                // cubic extension: product, inverse, batch inverse (a short batch every round)
                Goldilocks3::Element ca, cb, cc;
                for (int i = 0; i < 3; i++) { ca[i].fe = x + 3 * i + 1; cb[i].fe = (x >> 7) + i + 2; }
                Goldilocks3::mul(cc, ca, cb);
                out.push_back(cc[1].fe % GP);
                Goldilocks3::inv(cc, ca);
                out.push_back(cc[2].fe % GP);
                {
                    std::vector<u64> src(3 * 5), res(3 * 5);
                    for (size_t i = 0; i < src.size(); i++) src[i] = x + i + 1;
                    Goldilocks3::batchInverse((Goldilocks3::Element *)res.data(), (Goldilocks3::Element *)src.data(), 5);
                    out.push_back(res[7] % GP);
                }
            }
            // long batches: lengths just above the integer constants of the library source (a scratch buffer that is
            // only used above a threshold must still be private to the caller)
            for (u64 L : batch_lens)
            {
                std::vector<u64> src(3 * L), res(3 * L);
                for (size_t i = 0; i < src.size(); i++) src[i] = (u64)(id + 2) * 0x9E3779B97F4A7C15ULL + i * 0x100000001ULL + 1;
                Goldilocks3::batchInverse((Goldilocks3::Element *)res.data(), (Goldilocks3::Element *)src.data(), L);
                u64 h = 1469598103934665603ULL;
                for (u64 v : res) { h ^= v % GP; h *= 1099511628211ULL; }
                out.push_back(h);
            }
        };
        std::vector<std::vector<u64>> seq(NT), par(NT);
        for (int i = 0; i < NT; i++) battery(i, seq[i]);
        std::vector<std::thread> th;
        for (int i = 0; i < NT; i++) th.emplace_back([&, i]() { battery(i, par[i]); });
        for (auto &t : th) t.join();
        long long mism = 0;
        for (int i = 0; i < NT; i++) if (seq[i] != par[i]) mism++;
        printf("STAT reentrancy_threads %d\n", NT);
        if (mism) printf("REENTRANCY-MISMATCH %lld of %d threads got results that differ from their sequential run\n", mism, NT);
    }
    return 0;
}
#else

struct Exec
{
    std::string out;
    std::vector<ts::Conflict> conflicts;
    std::vector<ts::RegionInfo> regions;
    std::vector<ts::ChoicePoint> trace;
    std::vector<u64> region_hash;
    long accesses = 0;
};
static Exec execute(const Scn &s, int T)
{
    Exec x;
    Bufs B;
    size_t a, b, c;
    sizes(s, a, b, c);
    B.alloc(a, b, c);
    fill(s, B);
    ts::clear_extents();
    ts::register_extent("src", B.src, std::max<size_t>(64, a * sizeof(E)));
    ts::register_extent("dst", B.dst, std::max<size_t>(64, b * sizeof(E)));
    ts::register_extent("buf", B.buf, std::max<size_t>(64, c * sizeof(E)));
    ts::set_region_end_fn([&](int) {
        u64 h = 1469598103934665603ULL;
        h = fnv(B.src, a * sizeof(E), h);
        h = fnv(B.dst, b * sizeof(E), h);
        h = fnv(B.buf, c * sizeof(E), h);
        for (auto &hb : ts::live_heap()) h = fnv(hb.first, hb.second, h);
        x.region_hash.push_back(h);
    });
    ts::begin_execution();
    ts::track_heap(true);
    call(s, B, T);
    ts::track_heap(false);
    ts::set_region_end_fn(nullptr);
    x.out = output_of(s, B);
    x.conflicts = ts::conflicts();
    x.regions = ts::regions();
    x.trace = ts::trace();
    x.accesses = ts::total_accesses();
    return x;
}
static std::vector<std::vector<int>> orders(int T)
{
    std::vector<std::vector<int>> v;
    std::vector<int> id(T);
    for (int i = 0; i < T; i++) id[i] = i;
    if (T <= 4)
    {
        do v.push_back(id); while (std::next_permutation(id.begin(), id.end()));
    }
    else
    {
        // larger teams: identity, reversed, rotations by 1 and T/2, reflected rotation, odd members first
        auto rot = [&](int r, bool refl) { std::vector<int> a(T); for (int i = 0; i < T; i++) a[i] = refl ? (T - 1 - i + r) % T : (i + r) % T; return a; };
        v.push_back(rot(0, false));
        v.push_back(rot(0, true));
        v.push_back(rot(1, false));
        v.push_back(rot(T / 2, false));
        v.push_back(rot(1, true));
        std::vector<int> odd;
        for (int i = 1; i < T; i += 2) odd.push_back(i);
        for (int i = 0; i < T; i += 2) odd.push_back(i);
        v.push_back(odd);
        std::sort(v.begin(), v.end());
        v.erase(std::unique(v.begin(), v.end()), v.end());
    }
    return v;
}
static std::string ordstr(const std::vector<int> &o)
{
    std::string s;
    for (size_t i = 0; i < o.size(); i++) { if (i) s += ","; s += dec(o[i]); }
    return s;
}
static void report_conflict(const Scn &s, int T, const std::string &sched, const ts::Conflict &c)
{
    rep().viol(fmt("C12.conflict.%s", kname[s.kind]), scnstr(s, T) + " " + sched,
               fmt("region %d team %d: member %d %s and member %d %s the same bytes at %s (len %zu)", c.region, c.team, c.a, c.a_writes ? "writes" : "reads", c.b, c.b_writes ? "writes" : "reads", c.where.c_str(), (size_t)(c.hi - c.lo)));
}

struct Tot { long long states = 0, trans = 0, nontriv = 0, schedules = 0, accesses = 0; std::set<u64> outcomes; };

static void serial_pass(const Scn &s, bool th, Tot &tot);
// The runtime may grant a parallel region FEWER threads than requested (num_threads and
// omp_set_num_threads are upper bounds: nested regions, thread limits, dynamic adjustment).
// Every scenario is therefore also run with the granted team clamped to 1, 2 and 3 members.
static void granted_pass(const Scn &s, const Exec &ref, Tot &tot)
{
    auto args_ = team_args(s, false);
    int T = *std::max_element(args_.begin(), args_.end());
    for (int cap : {1, 2, 3})
    {
        ts::set_team_cap(cap);
        ts::set_order_fn(nullptr);
        Exec x = execute(s, T);
        tot.states++;
        tot.trans += (long long)x.regions.size();
        tot.nontriv++;
        std::string sched = fmt("order=identity granted=%d", cap);
        for (auto &c : x.conflicts) { report_conflict(s, T, sched, c); break; }
        if (x.out != ref.out)
            rep().viol(fmt("C12.team-size-dependent.%s", kname[s.kind]), scnstr(s, T) + " " + sched, fmt("output differs from the single-member execution when the runtime grants %d member(s) instead of the %d requested", cap, T));
    }
    ts::set_team_cap(128);
}
static void serial_pass_content(const Scn &s, bool th, Tot &tot);
// a shortcut keyed on the VALUES of the input (a row equal to its neighbour, a zero row) changes which accesses the members make:
// every scenario is run with all-different, all-equal and all-zero input
static void serial_pass(const Scn &s0, bool th, Tot &tot)
{
    for (int content = 0; content < 3; content++)
    {
        Scn s = s0;
        s.content = content;
        if (content && (s.kind == K_PARCPY || s.kind == K_PARZERO)) continue; // pure copies
        serial_pass_content(s, th, tot);
    }
}
static void serial_pass_content(const Scn &s, bool th, Tot &tot)
{
    ts::set_mode(ts::SERIAL);
    ts::set_order_fn(nullptr);
    int Tref = (s.kind == K_PARCPY || s.kind == K_PARZERO) ? 1 : 1;
    Exec ref = execute(s, Tref);
    for (int T : team_args(s, th))
    {
        int Teff = T < 1 ? 1 : T;
        auto ords = orders(std::min(Teff, 13));
        if (Teff > 13) ords = {std::vector<int>()}; // identity + reversed for the big teams
        for (size_t oi = 0; oi < ords.size(); oi++)
        {
            std::vector<int> o = ords[oi];
            auto fn = [&](int, int TT) {
                std::vector<int> r(TT);
                if ((int)o.size() == TT) return o;
                for (int i = 0; i < TT; i++) r[i] = (oi % 2) ? TT - 1 - i : i; // region team differs from the order's size (clamped / fewer iterations)
                return r;
            };
            ts::set_order_fn(fn);
            Exec x = execute(s, T);
            tot.states++;
            tot.trans += (long long)x.regions.size();
            tot.accesses += x.accesses;
            tot.outcomes.insert(fnv(x.out.data(), x.out.size(), 1469598103934665603ULL));
            if (Teff > 1) tot.nontriv++;
            std::string sched = "order=" + ordstr(o);
            for (auto &c : x.conflicts) { report_conflict(s, T, sched, c); break; }
            if (x.out != ref.out)
                rep().viol(fmt("C12.order-dependent.%s", kname[s.kind]), scnstr(s, T) + " " + sched, "output differs from the single-member execution");
        }
        if (Teff > 13)
        {
            ts::set_order_fn([&](int, int TT) { std::vector<int> r(TT); for (int i = 0; i < TT; i++) r[i] = TT - 1 - i; return r; });
            Exec x = execute(s, T);
            tot.states++;
            tot.trans += (long long)x.regions.size();
            for (auto &c : x.conflicts) { report_conflict(s, T, "order=reversed", c); break; }
            if (x.out != ref.out) rep().viol(fmt("C12.order-dependent.%s", kname[s.kind]), scnstr(s, T) + " order=reversed", "output differs from the single-member execution");
        }
    }
    granted_pass(s, ref, tot);
}

// preemption-bounded exploration of ONE region (deviations elsewhere are not taken)
struct Coop
{
    const Scn &s;
    int T, region, bound;
    const Exec &ref;           // default schedule (all choices 0)
    const std::string &refout; // single-member output
    long long execs = 0;
    std::set<u64> terminal;
    bool failed = false;
    Coop(const Scn &s_, int T_, int region_, int bound_, const Exec &r, const std::string &ro) : s(s_), T(T_), region(region_), bound(bound_), ref(r), refout(ro) {}
    // choice sequence applies to the choice points of `region` only
    Exec run(const std::vector<int> &choices, std::vector<ts::ChoicePoint> &regtrace)
    {
        size_t pos = 0;
        int cur_region_seen = 0;
        (void)cur_region_seen;
        std::vector<ts::ChoicePoint> *rt = &regtrace;
        int *regp = &region;
        const std::vector<int> *ch = &choices;
        size_t *pp = &pos;
        ts::set_chooser([=](const ts::ChoicePoint &cp) -> int {
            if ((int)ts::regions().size() != *regp) return 0; // regions() holds the finished ones: its size is the index of the running region
            int c = 0;
            if (*pp < ch->size()) c = (*ch)[*pp];
            (*pp)++;
            ts::ChoicePoint q = cp;
            q.chosen = c;
            rt->push_back(q);
            return c;
        });
        Exec x = execute(s, T);
        ts::set_chooser(nullptr);
        return x;
    }
    void check(const Exec &x, const std::vector<int> &choices)
    {
        execs++;
        terminal.insert(fnv(x.out.data(), x.out.size(), 1469598103934665603ULL));
        std::string sched = fmt("region=%d choices=", region);
        for (size_t i = 0; i < choices.size(); i++) { if (i) sched += ","; sched += dec(choices[i]); }
        if (!x.conflicts.empty()) { report_conflict(s, T, sched, x.conflicts[0]); failed = true; }
        if (x.out != refout) { rep().viol(fmt("C12.schedule-dependent.%s", kname[s.kind]), scnstr(s, T) + " " + sched, "final output differs from the single-member execution"); failed = true; }
        else if ((int)x.region_hash.size() > region && (int)ref.region_hash.size() > region && x.region_hash[region] != ref.region_hash[region])
        {
            rep().viol(fmt("C12.schedule-dependent-state.%s", kname[s.kind]), scnstr(s, T) + " " + sched, "memory state at the end of the region differs from the default schedule");
            failed = true;
        }
    }
    void explore(const std::vector<int> &prefix)
    {
        if (failed && execs > 50) return;
        std::vector<ts::ChoicePoint> tr;
        Exec x = run(prefix, tr);
        // replay determinism: the prefix must have been consumable
        for (size_t i = 0; i < prefix.size() && i < tr.size(); i++)
            if (prefix[i] >= (int)tr[i].enabled.size()) { fprintf(stderr, "replay divergence\n"); exit(2); }
        if (tr.size() < prefix.size()) { fprintf(stderr, "replay divergence: trace shorter than prefix\n"); exit(2); }
        std::vector<int> taken;
        for (auto &cp : tr) taken.push_back(cp.chosen);
        check(x, taken);
        for (size_t i = prefix.size(); i < tr.size(); i++)
        {
            int cost = 0;
            for (size_t j = 0; j < i; j++) if (tr[j].running_enabled && tr[j].chosen != 0) cost++;
            for (int alt = 1; alt < (int)tr[i].enabled.size(); alt++)
            {
                int c = cost + (tr[i].running_enabled ? 1 : 0);
                if (c > bound) continue;
                std::vector<int> np(taken.begin(), taken.begin() + i);
                np.push_back(alt);
                explore(np);
            }
        }
    }
};

static void coop_pass(const Scn &s, bool th, Tot &tot)
{
    ts::set_mode(ts::SERIAL);
    ts::set_order_fn(nullptr);
    Exec single = execute(s, 1);
    for (int T : (th ? std::vector<int>{2, 3, 4} : std::vector<int>{2, 3}))
    {
        if (T == 4 && (s.kind == K_MERKLE || s.kind == K_MERKLE_BATCH) && s.rows > 2) continue;
        ts::set_mode(ts::COOP);
        ts::set_granularity(8);
        ts::set_chooser(nullptr);
        ts::set_default_team(T); // regions entered before the library sets its team size get T members as well
        ts::set_team_cap(th ? 4 : 3);
        Exec def = execute(s, T);
        if (def.out != single.out) rep().viol(fmt("C12.schedule-dependent.%s", kname[s.kind]), scnstr(s, T) + " region=-1 choices=", "default cooperative schedule differs from the single-member execution");
        int nreg = (int)def.regions.size();
        // thorough: three preemptions for teams of two and three, two preemptions for teams of four
        int bound = th ? (T <= 3 ? 3 : 2) : 2;
        if (getenv("C12_BOUND")) bound = atoi(getenv("C12_BOUND"));
        for (int r = 0; r < nreg; r++)
        {
            if (def.regions[r].team < 2) continue;
            Coop c(s, T, r, bound, def, single.out);
            c.explore({});
            tot.schedules += c.execs;
            tot.states += c.execs;
            tot.trans += c.execs;
            tot.nontriv += c.execs - 1;
            for (u64 h : c.terminal) tot.outcomes.insert(h);
            if (getenv("C12_DEBUG")) { size_t pts = 0; for (size_t q : def.regions[r].points) pts += q; printf("INFO dbg T=%d region=%d team=%d points=%zu execs=%lld\n", T, r, def.regions[r].team, pts, c.execs); }
            if (c.terminal.size() != 1) printf("INFO coop %s region %d: %zu distinct terminal outputs\n", scnstr(s, T).c_str(), r, c.terminal.size());
        }
        ts::set_mode(ts::SERIAL);
        ts::set_granularity(64);
        ts::set_default_team(4);
        ts::set_team_cap(128);
    }
}

static int run_one(const Args &args)
{
    Scn s;
    int T = 1;
    if (!parse_scn(args.one, s, T)) return 2;
    auto m = parse_case(args.one);
    ts::set_mode(ts::SERIAL);
    ts::set_order_fn(nullptr);
    Exec single = execute(s, 1);
    if (m.count("order"))
    {
        std::vector<int> o;
        for (u64 x : culist(m, "order")) o.push_back((int)x);
        bool rev = cs(m, "order") == "reversed";
        if (cs(m, "order") == "identity" || rev) o.clear();
        ts::set_order_fn([&](int, int TT) {
            std::vector<int> r(TT);
            if ((int)o.size() == TT) return o;
            for (int i = 0; i < TT; i++) r[i] = rev ? TT - 1 - i : i;
            return r;
        });
        if (m.count("granted")) ts::set_team_cap((int)cu(m, "granted"));
        Exec x = execute(s, T);
        ts::set_team_cap(128);
        std::string sched = "order=" + cs(m, "order") + (m.count("granted") ? " granted=" + cs(m, "granted") : "");
        if (m.count("granted") && x.out != single.out)
        {
            rep().viol(fmt("C12.team-size-dependent.%s", kname[s.kind]), scnstr(s, T) + " " + sched, "output differs when the runtime grants fewer members than requested");
            rep().flush();
            return 0;
        }
        for (auto &c : x.conflicts) { report_conflict(s, T, sched, c); break; }
        if (x.out != single.out) rep().viol(fmt("C12.order-dependent.%s", kname[s.kind]), scnstr(s, T) + " " + sched, "output differs from the single-member execution");
    }
    else
    {
        int region = (int)(long long)strtoll(cs(m, "region", "0").c_str(), 0, 10);
        std::vector<int> ch;
        for (u64 x : culist(m, "choices")) ch.push_back((int)x);
        ts::set_mode(ts::COOP);
        ts::set_granularity(8);
        ts::set_chooser(nullptr);
        ts::set_default_team(T);
        ts::set_team_cap(4);
        Exec def = execute(s, T);
        Coop c(s, T, region, 99, def, single.out);
        std::vector<ts::ChoicePoint> tr;
        Exec x = c.run(ch, tr);
        std::vector<int> taken;
        for (auto &cp : tr) taken.push_back(cp.chosen);
        c.check(x, taken);
    }
    rep().flush();
    return 0;
}

int main(int argc, char **argv)
{
    Args args = parse_args(argc, argv);
    ts::set_default_team(4);
    ts::set_team_cap(128);
    if (!args.one.empty()) return run_one(args);
    const bool th = args.thorough();
    for (u64 L : culist(args.kv, "lits")) for (long long d : {-1LL, 0LL, 1LL}) { long long t = (long long)L + d; if (t > 13 && t <= 130) g_lit_teams.push_back((int)t); } // team sizes next to small constants of the source
    std::string part = args.part.empty() ? "serial" : args.part;
    auto S = scenarios(th, part == "coop");
    long only = args.num("only", -1);
    if (only >= 0 && only < (long)S.size()) S = std::vector<Scn>{S[only]};
    // scenarios are independent: spread them over worker processes
    fork_pool((long)S.size(), args.jobs, [&](long i) {
        Tot t;
        if (part == "serial") serial_pass(S[i], th, t);
        else coop_pass(S[i], th, t);
        rep().stat("states", t.states);
        rep().stat("transitions", t.trans);
        rep().stat("evaluations", t.trans);
        rep().stat("distinct_nontrivial", t.nontriv);
        rep().stat(part == "serial" ? "serial_executions" : "coop_schedules", part == "serial" ? t.states : t.schedules);
        rep().stat("recorded_accesses", t.accesses);
        rep().stat("distinct_outcomes", (long long)t.outcomes.size());
        if (part == "coop") printf("INFO coop scenario %s schedules=%lld distinct_terminal_outputs=%zu\n", scnstr(S[i], 0).c_str(), t.schedules, t.outcomes.size());
    });
    if (part == "serial" && only < 0)
    {
        // parcpy / parSetZero: EVERY size in [0, 18432] (and around every integer constant of the library source and its
        // double) x team arguments {3,5,6,7,11,13,64}: chunk arithmetic must transfer exactly `size` elements whatever the split
        std::set<u64> sizes;
        for (u64 z = 0; z <= 18432; z++) sizes.insert(z);
        for (u64 L : culist(args.kv, "lits"))
            for (u64 m : {1ULL, 2ULL})
                for (long long d = -70; d <= 70; d++) { long long v = (long long)(L * m) + d; if (v >= 0 && v <= 2200000) sizes.insert((u64)v); }
        std::vector<u64> sv(sizes.begin(), sizes.end());
        const long NCH = 64;
        fork_pool(NCH, args.jobs, [&](long ch) {
            long long st = 0, tr = 0;
            ts::set_mode(ts::SERIAL);
            for (size_t i = (size_t)ch; i < sv.size(); i += NCH)
                for (int kind : {K_PARCPY, K_PARZERO})
                {
                    Scn s{kind, 0, 0, 0, 0, 0, 0, 0, 0, 0, 0, 0, sv[i]};
                    ts::set_order_fn(nullptr);
                    Exec ref = execute(s, 1);
                    for (int T : {3, 5, 6, 7, 11, 13, 64})
                    {
                        bool rev = ((i + (size_t)T) & 1) != 0;
                        ts::set_order_fn([rev](int, int TT) { std::vector<int> r(TT); for (int k = 0; k < TT; k++) r[k] = rev ? TT - 1 - k : k; return r; });
                        Exec x = execute(s, T);
                        st++;
                        tr += (long long)x.regions.size();
                        std::string sched = rev ? "order=reversed" : "order=identity";
                        for (auto &c : x.conflicts) { report_conflict(s, T, sched, c); break; }
                        if (x.out != ref.out) rep().viol(fmt("C12.order-dependent.%s", kname[kind]), scnstr(s, T) + " " + sched, "output differs from the single-member execution");
                    }
                }
            rep().stat("states", st);
            rep().stat("transitions", tr);
            rep().stat("evaluations", tr);
            rep().stat("distinct_nontrivial", st);
            rep().stat("parcpy_sweep_executions", st);
        });
        rep().sample("parcpy-sweep", fmt("\"what\":\"parcpy and parSetZero for every size in [0,18432] and around mined constants (%zu sizes) x team arguments 3,5,6,7,11,13,64, member order alternating identity/reversed\"", sv.size()), 1);
    }
    if (part == "serial" && only < 0)
    {
        // team-argument sweep of the transforms: EVERY thread-count argument 1..17 (thorough ..34) x sizes up to 256 rows
        // (thorough 2048) x every phase count 1..4: the split of batches / rows over the team must cover all of them
        // whatever the quotient and the remainder are; member order identity and reversed
        std::vector<Scn> sw;
        for (int kind : {K_NTT, K_INTT, K_EXT})
            for (u64 n : (th ? std::vector<u64>{32, 64, 128, 256, 512, 1024, 2048} : std::vector<u64>{32, 64, 128, 256}))
                for (u64 ph : {1ULL, 2ULL, 3ULL, 4ULL})
                {
                    if (kind == K_EXT) sw.push_back({K_EXT, n / 2, n, 1, ph, 1, 1, 0, 0, 0, 0, 0, 0});
                    else sw.push_back({kind, n, 0, 1, ph, 1, 1, 0, 0, 0, 0, 0, 0});
                }
        const int TMAX = th ? 34 : 17;
        fork_pool((long)sw.size(), args.jobs, [&](long i) {
            long long st = 0, tr = 0;
            ts::set_mode(ts::SERIAL);
            ts::set_order_fn(nullptr);
            const Scn &s = sw[i];
            Exec ref = execute(s, 1);
            for (int T = 2; T <= TMAX; T++)
                for (int rev = 0; rev < 2; rev++)
                {
                    ts::set_order_fn([rev](int, int TT) { std::vector<int> r(TT); for (int k = 0; k < TT; k++) r[k] = rev ? TT - 1 - k : k; return r; });
                    Exec x = execute(s, T);
                    st++;
                    tr += (long long)x.regions.size();
                    std::string sched = rev ? "order=reversed" : "order=identity";
                    for (auto &c : x.conflicts) { report_conflict(s, T, sched, c); break; }
                    if (x.out != ref.out) { rep().viol(fmt("C12.order-dependent.%s", kname[s.kind]), scnstr(s, T) + " " + sched, "output differs from the single-member execution"); break; }
                }
            rep().stat("states", st);
            rep().stat("transitions", tr);
            rep().stat("evaluations", tr);
            rep().stat("distinct_nontrivial", st);
            rep().stat("team_sweep_executions", st);
        });
        rep().sample("team-sweep", fmt("\"what\":\"NTT / INTT / extendPol with every thread-count argument 2..%d against 1, sizes 32..%d, phases 1..4, member order identity and reversed\",\"scenarios\":%zu", TMAX, th ? 2048 : 256, sw.size()), 1);
    }
    rep().sample("scenario", "\"case\":\"" + scnstr(S[S.size() / 3], 3) + "\",\"part\":\"" + part + "\"", 1);
    rep().stat("scenarios", (long long)S.size());
    rep().flush();
    return 0;
}
#endif
