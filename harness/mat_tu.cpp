// Library side of the C13/C14 harness: 12-wide dot / sparse / dense kernels behind plain arrays.
#include "goldilocks_base_field.hpp"
#include "mtab.hpp"
#include <string.h>
#ifndef KNS
#error "KNS required"
#endif
#ifdef SIMW_SIG
namespace simw { thread_local u64 sig[8] = {1, 1, 1, 1, 1, 1, 1, 1}; }
namespace simw_asm { thread_local u64 asig = 1; }
#endif
namespace KNS
{
typedef Goldilocks::Element E;
typedef uint64_t u64;
struct St4 { __m256i a0, a1, a2; };
static inline St4 ld(const u64 *s)
{
    St4 r;
    Goldilocks::load_avx(r.a0, (const E *)s);
    Goldilocks::load_avx(r.a1, (const E *)(s + 4));
    Goldilocks::load_avx(r.a2, (const E *)(s + 8));
    return r;
}
template <int N> struct AlignedCoef
{
    alignas(64) E c[N];
    explicit AlignedCoef(const u64 *p) { for (int i = 0; i < N; i++) c[i].fe = p[i]; }
};
// exact-size heap copy so that over-reads are visible to ASan (unaligned variants)
#ifdef EXACT_HEAP
template <int N> struct ExactCoef
{
    E *c;
    explicit ExactCoef(const u64 *p) { c = new E[N]; for (int i = 0; i < N; i++) c[i].fe = p[i]; }
    ~ExactCoef() { delete[] c; }
};
#else
static thread_local int g_place = 0;
template <int N> struct ExactCoef
{
    alignas(64) E buf[N + 8];
    E *c;
    explicit ExactCoef(const u64 *p) { c = buf + (g_place & 7); for (int i = 0; i < N; i++) c[i].fe = p[i]; }
};
#endif

static void f_spmv(const u64 *s, const u64 *b, u64 *o) { St4 a = ld(s); ExactCoef<12> c(b); __m256i r; Goldilocks::spmv_avx_4x12(r, a.a0, a.a1, a.a2, c.c); Goldilocks::store_avx((E *)o, r); }
static void f_spmv_a(const u64 *s, const u64 *b, u64 *o) { St4 a = ld(s); AlignedCoef<12> c(b); __m256i r; Goldilocks::spmv_avx_4x12_a(r, a.a0, a.a1, a.a2, c.c); Goldilocks::store_avx((E *)o, r); }
static void f_spmv_8(const u64 *s, const u64 *b, u64 *o) { St4 a = ld(s); ExactCoef<12> c(b); __m256i r; Goldilocks::spmv_avx_4x12_8(r, a.a0, a.a1, a.a2, c.c); Goldilocks::store_avx((E *)o, r); }
static void f_dot(const u64 *s, const u64 *b, u64 *o) { St4 a = ld(s); ExactCoef<12> c(b); o[0] = Goldilocks::dot_avx(a.a0, a.a1, a.a2, c.c).fe; }
static void f_dot_a(const u64 *s, const u64 *b, u64 *o) { St4 a = ld(s); AlignedCoef<12> c(b); o[0] = Goldilocks::dot_avx_a(a.a0, a.a1, a.a2, c.c).fe; }
static void f_mm4(const u64 *s, const u64 *b, u64 *o) { St4 a = ld(s); ExactCoef<48> c(b); __m256i r; Goldilocks::mmult_avx_4x12(r, a.a0, a.a1, a.a2, c.c); Goldilocks::store_avx((E *)o, r); }
static void f_mm4_a(const u64 *s, const u64 *b, u64 *o) { St4 a = ld(s); AlignedCoef<48> c(b); __m256i r; Goldilocks::mmult_avx_4x12_a(r, a.a0, a.a1, a.a2, c.c); Goldilocks::store_avx((E *)o, r); }
static void f_mm4_8(const u64 *s, const u64 *b, u64 *o) { St4 a = ld(s); ExactCoef<48> c(b); __m256i r; Goldilocks::mmult_avx_4x12_8(r, a.a0, a.a1, a.a2, c.c); Goldilocks::store_avx((E *)o, r); }
// result register = one of the state registers (in-place accumulation as callers may write it)
#define SPMV_ALIAS(name, fn, K, COEF)                                                                                  \
    static void name(const u64 *s, const u64 *b, u64 *o) { St4 a = ld(s); COEF c(b); Goldilocks::fn(a.a##K, a.a0, a.a1, a.a2, c.c); Goldilocks::store_avx((E *)o, a.a##K); }
SPMV_ALIAS(f_spmv_al0, spmv_avx_4x12, 0, ExactCoef<12>)
SPMV_ALIAS(f_spmv_al1, spmv_avx_4x12, 1, ExactCoef<12>)
SPMV_ALIAS(f_spmv_al2, spmv_avx_4x12, 2, ExactCoef<12>)
SPMV_ALIAS(f_spmv_a_al2, spmv_avx_4x12_a, 2, AlignedCoef<12>)
SPMV_ALIAS(f_spmv_8_al0, spmv_avx_4x12_8, 0, ExactCoef<12>)
SPMV_ALIAS(f_spmv_8_al2, spmv_avx_4x12_8, 2, ExactCoef<12>)
SPMV_ALIAS(f_mm4_al0, mmult_avx_4x12, 0, ExactCoef<48>)
SPMV_ALIAS(f_mm4_al2, mmult_avx_4x12, 2, ExactCoef<48>)
SPMV_ALIAS(f_mm4_8_al1, mmult_avx_4x12_8, 1, ExactCoef<48>)
static inline void stall(u64 *o, const St4 &a) { Goldilocks::store_avx((E *)o, a.a0); Goldilocks::store_avx((E *)(o + 4), a.a1); Goldilocks::store_avx((E *)(o + 8), a.a2); }
static void f_mm(const u64 *s, const u64 *b, u64 *o) { St4 a = ld(s); ExactCoef<144> c(b); Goldilocks::mmult_avx(a.a0, a.a1, a.a2, c.c); stall(o, a); }
static void f_mm_a(const u64 *s, const u64 *b, u64 *o) { St4 a = ld(s); AlignedCoef<144> c(b); Goldilocks::mmult_avx_a(a.a0, a.a1, a.a2, c.c); stall(o, a); }
static void f_mm_8(const u64 *s, const u64 *b, u64 *o) { St4 a = ld(s); ExactCoef<144> c(b); Goldilocks::mmult_avx_8(a.a0, a.a1, a.a2, c.c); stall(o, a); }

#ifdef __AVX512__
struct St8 { __m512i a0, a1, a2; };
// two states interleaved: a_j = [s1[4j..4j+3] | s2[4j..4j+3]]
static inline St8 ld8(const u64 *s)
{
    alignas(64) E t[24];
    for (int j = 0; j < 3; j++)
        for (int i = 0; i < 4; i++) { t[8 * j + i].fe = s[4 * j + i]; t[8 * j + 4 + i].fe = s[12 + 4 * j + i]; }
    St8 r;
    Goldilocks::load_avx512(r.a0, t);
    Goldilocks::load_avx512(r.a1, t + 8);
    Goldilocks::load_avx512(r.a2, t + 16);
    return r;
}
static void g_spmv(const u64 *s, const u64 *b, u64 *o) { St8 a = ld8(s); ExactCoef<12> c(b); __m512i r; Goldilocks::spmv_avx512_4x12(r, a.a0, a.a1, a.a2, c.c); Goldilocks::store_avx512((E *)o, r); }
static void g_spmv_8(const u64 *s, const u64 *b, u64 *o) { St8 a = ld8(s); ExactCoef<12> c(b); __m512i r; Goldilocks::spmv_avx512_4x12_8(r, a.a0, a.a1, a.a2, c.c); Goldilocks::store_avx512((E *)o, r); }
static void g_dot(const u64 *s, const u64 *b, u64 *o) { St8 a = ld8(s); ExactCoef<12> c(b); E r[2]; Goldilocks::dot_avx512(r, a.a0, a.a1, a.a2, c.c); o[0] = r[0].fe; o[1] = r[1].fe; }
static void g_mm4(const u64 *s, const u64 *b, u64 *o) { St8 a = ld8(s); ExactCoef<48> c(b); __m512i r; Goldilocks::mmult_avx512_4x12(r, a.a0, a.a1, a.a2, c.c); Goldilocks::store_avx512((E *)o, r); }
static void g_mm4_8(const u64 *s, const u64 *b, u64 *o) { St8 a = ld8(s); ExactCoef<48> c(b); __m512i r; Goldilocks::mmult_avx512_4x12_8(r, a.a0, a.a1, a.a2, c.c); Goldilocks::store_avx512((E *)o, r); }
#define SPMV8_ALIAS(name, fn, K, N)                                                                                    \
    static void name(const u64 *s, const u64 *b, u64 *o) { St8 a = ld8(s); ExactCoef<N> c(b); Goldilocks::fn(a.a##K, a.a0, a.a1, a.a2, c.c); Goldilocks::store_avx512((E *)o, a.a##K); }
SPMV8_ALIAS(g_spmv_al0, spmv_avx512_4x12, 0, 12)
SPMV8_ALIAS(g_spmv_al2, spmv_avx512_4x12, 2, 12)
SPMV8_ALIAS(g_spmv_8_al1, spmv_avx512_4x12_8, 1, 12)
SPMV8_ALIAS(g_mm4_al2, mmult_avx512_4x12, 2, 48)
SPMV8_ALIAS(g_mm4_8_al0, mmult_avx512_4x12_8, 0, 48)
static inline void stall8(u64 *o, const St8 &a)
{
    alignas(64) E t[24];
    Goldilocks::store_avx512(t, a.a0);
    Goldilocks::store_avx512(t + 8, a.a1);
    Goldilocks::store_avx512(t + 16, a.a2);
    for (int j = 0; j < 3; j++)
        for (int i = 0; i < 4; i++) { o[4 * j + i] = t[8 * j + i].fe; o[12 + 4 * j + i] = t[8 * j + 4 + i].fe; }
}
static void g_mm(const u64 *s, const u64 *b, u64 *o) { St8 a = ld8(s); ExactCoef<144> c(b); Goldilocks::mmult_avx512(a.a0, a.a1, a.a2, c.c); stall8(o, a); }
static void g_mm_8(const u64 *s, const u64 *b, u64 *o) { St8 a = ld8(s); ExactCoef<144> c(b); Goldilocks::mmult_avx512_8(a.a0, a.a1, a.a2, c.c); stall8(o, a); }
#endif

static const MEntry entries[] = {
    {"spmv_avx_4x12", 1, MK_SPMV, 0, 0, f_spmv},
    {"spmv_avx_4x12_a", 1, MK_SPMV, 0, 0, f_spmv_a},
    {"spmv_avx_4x12_8", 1, MK_SPMV, 1, 0, f_spmv_8},
    {"dot_avx", 1, MK_DOT, 0, 0, f_dot},
    {"dot_avx_a", 1, MK_DOT, 0, 0, f_dot_a},
    {"mmult_avx_4x12", 1, MK_MMULT4x12, 0, 0, f_mm4},
    {"mmult_avx_4x12_a", 1, MK_MMULT4x12, 0, 0, f_mm4_a},
    {"mmult_avx_4x12_8", 1, MK_MMULT4x12, 1, 0, f_mm4_8},
    {"mmult_avx", 1, MK_MMULT, 0, 0, f_mm},
    {"mmult_avx_a", 1, MK_MMULT, 0, 0, f_mm_a},
    {"mmult_avx_8", 1, MK_MMULT, 1, 0, f_mm_8},
    {"spmv_avx_4x12:c=a0", 1, MK_SPMV, 0, 1, f_spmv_al0},
    {"spmv_avx_4x12:c=a1", 1, MK_SPMV, 0, 1, f_spmv_al1},
    {"spmv_avx_4x12:c=a2", 1, MK_SPMV, 0, 1, f_spmv_al2},
    {"spmv_avx_4x12_a:c=a2", 1, MK_SPMV, 0, 1, f_spmv_a_al2},
    {"spmv_avx_4x12_8:c=a0", 1, MK_SPMV, 1, 1, f_spmv_8_al0},
    {"spmv_avx_4x12_8:c=a2", 1, MK_SPMV, 1, 1, f_spmv_8_al2},
    {"mmult_avx_4x12:b=a0", 1, MK_MMULT4x12, 0, 1, f_mm4_al0},
    {"mmult_avx_4x12:b=a2", 1, MK_MMULT4x12, 0, 1, f_mm4_al2},
    {"mmult_avx_4x12_8:b=a1", 1, MK_MMULT4x12, 1, 1, f_mm4_8_al1},
#ifdef __AVX512__
    {"spmv_avx512_4x12", 2, MK_SPMV, 0, 0, g_spmv},
    {"spmv_avx512_4x12_8", 2, MK_SPMV, 1, 0, g_spmv_8},
    {"dot_avx512", 2, MK_DOT, 0, 0, g_dot},
    {"mmult_avx512_4x12", 2, MK_MMULT4x12, 0, 0, g_mm4},
    {"mmult_avx512_4x12_8", 2, MK_MMULT4x12, 1, 0, g_mm4_8},
    {"mmult_avx512", 2, MK_MMULT, 0, 0, g_mm},
    {"mmult_avx512_8", 2, MK_MMULT, 1, 0, g_mm_8},
    {"spmv_avx512_4x12:c=a0", 2, MK_SPMV, 0, 1, g_spmv_al0},
    {"spmv_avx512_4x12:c=a2", 2, MK_SPMV, 0, 1, g_spmv_al2},
    {"spmv_avx512_4x12_8:c=a1", 2, MK_SPMV, 1, 1, g_spmv_8_al1},
    {"mmult_avx512_4x12:b=a2", 2, MK_MMULT4x12, 0, 1, g_mm4_al2},
    {"mmult_avx512_4x12_8:b=a0", 2, MK_MMULT4x12, 1, 1, g_mm4_8_al0},
#endif
};
#ifdef VW
static const unsigned width_ = VW;
static const int ism_ = 1;
#else
static const unsigned width_ = 32;
static const int ism_ = 0;
#endif
extern const MTab mtab;
#ifdef EXACT_HEAP
static void set_place_(int) {}
#else
static void set_place_(int p) { g_place = p; }
#endif
const MTab mtab = {entries, (int)(sizeof(entries) / sizeof(entries[0])), width_, ism_, set_place_};
} // namespace KNS
