// C10: base-field inv, div, exp are exact and total on non-zero operands, terminate, depend on
// residue classes only; inversion of an operand congruent to zero never returns a value.
//
// scaled (-DVW=w, p_w prime for w=2,4): ALL representations a with a mod p != 0 for inv; all (x,a)
//   for div; all (b,e) in [0,2^2w)^2 for exp, plus exponents 2^k, 2^k-1, 2^64-1.
// native: inv/div over the thorough alphabet plus continued-fraction-hard operands (long runs of
//   quotient 1, single huge quotients); exp over alphabet x 200 exponents.
// zero: inv(0), inv(p), div(x,0), div(x,p) in a child process: must not return.
// termination: every worker runs under a watchdog; a worker that does not finish reports the
//   operand it was working on.
#include "vcommon.hpp"
#include "goldilocks_base_field.hpp"
#include <functional>
using namespace vc;
typedef Goldilocks::Element E;
#ifdef VW
static const unsigned W = VW;
#else
static const unsigned W = 32;
#endif
static const u64 PR = pw(W);
static const u64 MASK = (W == 32) ? ~0ULL : ((1ULL << (2 * W)) - 1);
static Mod F(PR);
#ifdef SIMW_SIG
namespace simw { thread_local u64 sig[8] = {1, 1, 1, 1, 1, 1, 1, 1}; }
namespace simw_asm { thread_local u64 asig = 1; }
#endif

static volatile u64 cur_a, cur_b;
static const char *volatile cur_op = "";
static void on_alarm(int)
{
    char buf[256];
    int n = snprintf(buf, sizeof buf, "VIOL C10.hang.%s.w%u\tw=%u op=%s a=0x%llx b=0x%llx\tdid not terminate within the watchdog limit\n", cur_op, W, W, cur_op, (unsigned long long)cur_a, (unsigned long long)cur_b);
    if (write(1, buf, n)) {}
    _exit(0);
}

// the library ends the process (exit) on inversion of zero; anywhere else an exit in the middle of a call is a call that never
// returned: the handler names the operand (armed in the enumeration workers and in the replay, not in chk_zero's children)
static volatile int g_exit_armed = 0;
static void on_exit_report()
{
    if (!g_exit_armed) return;
    char buf[256];
    int n = snprintf(buf, sizeof buf, "VIOL C10.exit.%s.w%u\tw=%u op=%s a=0x%llx b=0x%llx\tthe library ended the process during this call (no result returned)\n", cur_op, W, W, cur_op, (unsigned long long)cur_a, (unsigned long long)cur_b);
    fflush(stdout);
    if (write(1, buf, n)) {}
}
static void arm_exit_report()
{
    static bool registered = false;
    if (!registered) { atexit(on_exit_report); registered = true; }
    g_exit_armed = 1;
}

static void chk_inv(u64 a, long long &ev)
{
    cur_op = "inv"; cur_a = a; cur_b = 0;
    E x; x.fe = a;
    E r = Goldilocks::inv(x);
    E r2; Goldilocks::inv(r2, x);
    ev += 2;
    if (r.fe > MASK || F.mul(a, r.fe) != 1 % PR || r2.fe != r.fe)
        rep().viol(fmt("C10.wrong.inv.w%u", W), fmt("w=%u op=inv a=%s b=0x0", W, hex(a).c_str()), fmt("inv = %s, a*inv = %s", hex(r.fe).c_str(), hex(F.mul(a, r.fe)).c_str()));
}
static void chk_div(u64 x, u64 a, long long &ev)
{
    cur_op = "div"; cur_a = x; cur_b = a;
    E X, A; X.fe = x; A.fe = a;
    E r = Goldilocks::div(X, A);
    E r2; Goldilocks::div(r2, X, A);
    E r3 = X / A;
    ev += 3;
    if (r.fe > MASK || F.mul(r.fe, a) != x % PR || r2.fe % PR != r.fe % PR || r3.fe % PR != r.fe % PR)
        rep().viol(fmt("C10.wrong.div.w%u", W), fmt("w=%u op=div a=%s b=%s", W, hex(x).c_str(), hex(a).c_str()), fmt("div = %s, div*b = %s expected %s", hex(r.fe).c_str(), hex(F.mul(r.fe, a)).c_str(), hex(x % PR).c_str()));
}
static void chk_exp(u64 b, u64 e, long long &ev)
{
    cur_op = "exp"; cur_a = b; cur_b = e;
    E B; B.fe = b;
    E r = Goldilocks::exp(B, e);
    E r2; Goldilocks::exp(r2, B, e);
    ev += 2;
    u64 ex = F.pow(b, e);
    if (r.fe > MASK || r.fe % PR != ex || r2.fe % PR != ex)
        rep().viol(fmt("C10.wrong.exp.w%u", W), fmt("w=%u op=exp a=%s b=%s", W, hex(b).c_str(), hex(e).c_str()), fmt("got %s expected %s", hex(r.fe).c_str(), hex(ex).c_str()));
}
// Call histories: inv/div are documented as pure functions; every sequence of three calls drawn from
// {inv by value, inv into another element, inv in place, div(1,x), div(x,x)} on operands from {a, a^-1, 2a}
// must give, call by call, what the oracle gives (a memo / cache keyed on earlier calls would show here).
static void chk_history(u64 a, long long &ev, long long &hist)
{
    if (a % PR == 0) return;
    u64 ainv = F.inv(a);
    std::vector<u64> ops = {a, ainv, F.mul(a, 2 % PR)};
    for (u64 &o : ops) if (o % PR == 0) o = a;
    const int NF = 5, NO = 3;
    for (int c0 = 0; c0 < NF * NO; c0++)
        for (int c1 = 0; c1 < NF * NO; c1++)
            for (int c2 = 0; c2 < NF * NO; c2++)
            {
                int cs3[3] = {c0, c1, c2};
                hist++;
                for (int k = 0; k < 3; k++)
                {
                    int form = cs3[k] % NF;
                    u64 x = ops[cs3[k] / NF];
                    cur_op = "history"; cur_a = a; cur_b = (u64)(c0 * 10000 + c1 * 100 + c2);
                    E X, R;
                    X.fe = x;
                    u64 got, ex;
                    switch (form)
                    {
                    case 0: got = Goldilocks::inv(X).fe; ex = F.inv(x); break;
                    case 1: Goldilocks::inv(R, X); got = R.fe; ex = F.inv(x); break;
                    case 2: Goldilocks::inv(X, X); got = X.fe; ex = F.inv(x); break;
                    case 3: got = Goldilocks::div(Goldilocks::one(), X).fe; ex = F.inv(x); break;
                    default: Goldilocks::div(X, X, X); got = X.fe; ex = 1 % PR; break;
                    }
                    ev++;
                    if (got > MASK || got % PR != ex)
                    {
                        rep().viol(fmt("C10.wrong.history.w%u", W), fmt("w=%u op=history a=%s b=%s", W, hex(a).c_str(), hex((u64)(c0 * 10000 + c1 * 100 + c2)).c_str()),
                                   fmt("call %d of the sequence (form %d on %s) returned %s expected %s", k, form, hex(x).c_str(), hex(got).c_str(), hex(ex).c_str()));
                        return;
                    }
                }
            }
}
// operand congruent to zero: must not return
static void chk_zero(const char *op, u64 x, u64 z)
{
    ChildResult r = run_child([&](FILE *f) {
        E X, Z; X.fe = x; Z.fe = z;
        E res;
        if (!strcmp(op, "inv")) res = Goldilocks::inv(Z);
        else if (!strcmp(op, "inv_ref")) Goldilocks::inv(res, Z);
        else res = Goldilocks::div(X, Z);
        fprintf(f, "RETURNED %llx", (unsigned long long)res.fe);
    }, 20);
    rep().stat("transitions");
    rep().stat("evaluations");
    std::string cs_ = fmt("w=%u op=zero-%s a=%s b=%s", W, op, hex(x).c_str(), hex(z).c_str());
    if (r.kind == 0 || r.out.find("RETURNED") != std::string::npos)
        rep().viol(fmt("C10.zero-returns.%s.w%u", op, W), cs_, "call with an operand congruent to zero returned a value: " + r.out);
    else if (r.kind == 1 && r.code == SIGALRM)
        rep().viol(fmt("C10.zero-hangs.%s.w%u", op, W), cs_, "call with an operand congruent to zero did not end");
    else if (r.err.empty())
        rep().viol(fmt("C10.zero-silent.%s.w%u", op, W), cs_, "process ended without a diagnostic");
}

static std::vector<u64> cf_hard()
{
    // operands that make Euclid on (p, a) run long (quotients 1,1,1,...) or take one huge quotient
    std::vector<u64> v;
    long double phi = 1.6180339887498948482L;
    u64 g = (u64)((long double)PR / phi);
    for (long long d = -64; d <= 64; d++) v.push_back(g + (u64)d);
    u64 g2 = (u64)((long double)PR / (phi * phi));
    for (long long d = -16; d <= 16; d++) v.push_back(g2 + (u64)d);
    for (u64 k = 1; k <= 64; k++) { v.push_back(k); v.push_back(PR - k); v.push_back(PR / k); v.push_back(PR / k + 1); if (PR + k > PR) v.push_back(PR + k); }
    // Fibonacci numbers below p and p minus them
    u64 a = 1, b = 2;
    while (b < PR && b > a) { v.push_back(b); v.push_back(PR - b); u64 c = a + b; a = b; b = c; if (c < a) break; }
    std::vector<u64> o;
    for (u64 x : v) if ((x & MASK) % PR != 0) o.push_back(x & MASK);
    std::sort(o.begin(), o.end());
    o.erase(std::unique(o.begin(), o.end()), o.end());
    return o;
}

// Euclid on (p, a) is driven by the continued fraction of p/a.  Every word q_1..q_k over the quotient alphabet Q gives one
// operand a = floor(p / [q_1; q_2, ..., q_k]) (and its neighbours a-1, a+1) whose expansion starts with that word, so that
// every combination of small and large leading quotients is run, not only the all-ones worst case.
static std::vector<u64> cf_words(const std::vector<u64> &Q, int kmax)
{
    std::vector<u64> v;
    std::vector<u64> w;
    std::function<void(int)> rec = [&](int k) {
        if (!w.empty())
        {
            long double x = 0; // [q_1; q_2, ..., q_k] evaluated from the tail
            for (size_t i = w.size(); i-- > 0;) x = (long double)w[i] + (x > 0 ? 1.0L / x : 0.0L);
            long double a = (long double)PR / x;
            if (a >= 2.0L && a < (long double)PR) { u64 ai = (u64)a; v.push_back(ai); v.push_back(ai - 1); v.push_back(ai + 1); }
        }
        if (k == kmax) return;
        for (u64 q : Q) { w.push_back(q); rec(k + 1); w.pop_back(); }
    };
    rec(0);
    std::vector<u64> o;
    for (u64 x : v) if ((x & MASK) % PR != 0) o.push_back(x & MASK);
    std::sort(o.begin(), o.end());
    o.erase(std::unique(o.begin(), o.end()), o.end());
    return o;
}
// sparse words: +-2^i +- 2^j and 2^i + 2^j + 2^k
static std::vector<u64> sparse_words()
{
    std::vector<u64> v;
    for (int i = 0; i < 64; i++)
        for (int j = 0; j <= i; j++)
        {
            u64 a = 1ULL << i, b = 1ULL << j;
            v.push_back(a + b); v.push_back(a - b); v.push_back(0 - a - b); v.push_back(b - a);
            for (int k = 0; k <= j; k++) v.push_back(a + b + (1ULL << k));
        }
    std::vector<u64> o;
    for (u64 x : v) if (x % PR != 0) o.push_back(x);
    std::sort(o.begin(), o.end());
    o.erase(std::unique(o.begin(), o.end()), o.end());
    return o;
}

int main(int argc, char **argv)
{
    Args args = parse_args(argc, argv);
    signal(SIGALRM, on_alarm);
    if (!args.one.empty())
    {
        auto m = parse_case(args.one);
        if (cu(m, "w", 32) != W) { printf("INFO skip width\n"); return 0; }
        std::string op = cs(m, "op");
        long long ev = 0;
        if (op.rfind("zero-", 0) != 0) arm_exit_report();
        alarm(60);
        if (op == "inv") chk_inv(cu(m, "a"), ev);
        else if (op == "div") chk_div(cu(m, "a"), cu(m, "b"), ev);
        else if (op == "exp") chk_exp(cu(m, "a"), cu(m, "b"), ev);
        else if (op == "history") { long long h = 0; chk_history(cu(m, "a"), ev, h); }
        else if (op.rfind("zero-", 0) == 0) { alarm(0); chk_zero(op.c_str() + 5, cu(m, "a"), cu(m, "b")); }
        g_exit_armed = 0;
        rep().flush();
        return 0;
    }
    const bool th = args.thorough();
    std::vector<u64> big_e;
    for (int k = 0; k < 64; k++) { big_e.push_back(1ULL << k); big_e.push_back((1ULL << k) - 1); big_e.push_back((1ULL << k) + 1); }
    big_e.push_back(~0ULL); big_e.push_back(~0ULL - 1); big_e.push_back(GP - 1); big_e.push_back(GP - 2); big_e.push_back(GP); big_e.push_back(0x5555555555555555ULL); big_e.push_back(0xAAAAAAAAAAAAAAAAULL);
    std::sort(big_e.begin(), big_e.end());
    big_e.erase(std::unique(big_e.begin(), big_e.end()), big_e.end());
    long long states = 0;
#ifdef VW
    const u64 N = MASK + 1;
    const long nslices = 64;
    fork_pool(nslices, args.jobs, [&](long sl) {
        long long ev = 0;
        arm_exit_report();
        alarm(th ? 1500 : 240);
        for (u64 a = (u64)sl; a < N; a += nslices)
        {
            if (a % PR != 0)
            {
                chk_inv(a, ev);
                for (u64 x = 0; x < N; x++) chk_div(x, a, ev);
            }
            for (u64 e = 0; e < N; e++) chk_exp(a, e, ev);
            for (u64 e : big_e) chk_exp(a, e, ev);
            long long hh = 0;
            if (W == 2 || a % 37 == 5 || a >= PR - 2) { chk_history(a, ev, hh); rep().stat("call_histories", hh); }
        }
        alarm(0);
        rep().stat("transitions", ev);
        rep().stat("evaluations", ev);
    });
    u64 nz = 0;
    for (u64 a = 0; a < N; a++) if (a % PR) nz++;
    states = (long long)(nz + nz * N + N * N + N * big_e.size());
    rep().stat("distinct_nontrivial", (long long)(N - PR) * (long long)(1 + 2 * N)); // cases with a non-canonical operand
    rep().sample("scaled", fmt("\"w\":%u,\"what\":\"inv on all %llu representations with a mod p != 0; div on all (x,a); exp on all (b,e) in [0,%llu)^2 + %zu large exponents\"", W, (unsigned long long)nz, (unsigned long long)N, big_e.size()), 1);
#else
    std::vector<u64> A = alphabet(th), H = cf_hard(), Aq = alphabet(false);
    std::vector<u64> inv_ops;
    for (u64 x : A) if (x % PR) inv_ops.push_back(x);
    for (u64 x : H) inv_ops.push_back(x);
    // quotient words: quick {1,2,3,7,2^20} up to length 4 (780 words), thorough {1..8, 2^10, 2^20, 2^31} up to length 5 (177 155 words)
    std::vector<u64> CW = th ? cf_words({1, 2, 3, 4, 5, 6, 7, 8, 1ULL << 10, 1ULL << 20, 1ULL << 31}, 5) : cf_words({1, 2, 3, 7, 1ULL << 20}, 4);
    for (u64 x : CW) inv_ops.push_back(x);
    rep().stat("operands_from_quotient_words", (long long)CW.size());
    if (th) { std::vector<u64> SW = sparse_words(); for (u64 x : SW) inv_ops.push_back(x); rep().stat("operands_sparse_words", (long long)SW.size()); }
    std::sort(inv_ops.begin(), inv_ops.end());
    inv_ops.erase(std::unique(inv_ops.begin(), inv_ops.end()), inv_ops.end());
    std::vector<u64> xs = small_alphabet();
    const long nslices = 64;
    fork_pool(nslices, args.jobs, [&](long sl) {
        long long ev = 0;
        arm_exit_report();
        alarm(th ? 1500 : 240);
        for (size_t i = (size_t)sl; i < inv_ops.size(); i += nslices)
        {
            chk_inv(inv_ops[i], ev);
            for (u64 x : xs) chk_div(x, inv_ops[i], ev);
        }
        for (size_t i = (size_t)sl; i < Aq.size(); i += nslices)
        {
            long long hh = 0;
            if (i % 16 == 3) { chk_history(Aq[i], ev, hh); rep().stat("call_histories", hh); }
            for (u64 e : big_e) chk_exp(Aq[i], e, ev);
            for (u64 e = 0; e < 64; e++) chk_exp(Aq[i], e, ev);
        }
        alarm(0);
        rep().stat("transitions", ev);
        rep().stat("evaluations", ev);
    });
    states = (long long)(inv_ops.size() * (1 + xs.size()) + Aq.size() * (big_e.size() + 64));
    long long nc = 0;
    for (u64 x : inv_ops) if (x >= PR) nc++;
    rep().stat("distinct_nontrivial", nc * (long long)(1 + xs.size()));
    rep().stat("traces_validated_against_impl", states);
    rep().sample("native", fmt("\"what\":\"inv/div on %zu operands (alphabet + %zu continued-fraction-hard values such as floor(p/phi)+-64, Fibonacci numbers, p/k); exp on %zu bases x %zu exponents\"", inv_ops.size(), H.size(), Aq.size(), big_e.size() + 64), 1);
#endif
    // zero operands
    for (u64 z : {(u64)0, PR & MASK})
    {
        chk_zero("inv", 0, z);
        chk_zero("inv_ref", 0, z);
        for (u64 x : {(u64)0, (u64)1, PR - 1}) chk_zero("div", x, z);
        states += 5;
    }
    rep().stat("states", states);
    rep().stat(fmt("states_w%u", W), states);
    rep().flush();
    return 0;
}
