// C08: Merkle tree buffer = row digests followed level by level by hashes of adjacent digest
// pairs; size = getTreeNumElements(rows); root = last four; batched builder; all backends equal.
//
// Enumerated: rows x cols x dim x nThreads x backend (x batch_size), three content patterns;
// input and tree are exact-size, end-aligned against PROT_NONE guard pages (any read past the
// input or write past the tree faults), sentinels in front of the tree.  Every tree element is
// compared with the reference tree.  One process per case group; crashes are attributed to the case.
#include "vcommon.hpp"
#include "poseidon_goldilocks.hpp"
#include "merklehash_goldilocks.hpp"
#include "poseidon_ref.hpp"
using namespace vc;
typedef Goldilocks::Element E;
#ifdef VW
static const unsigned W = VW;
#else
static const unsigned W = 32;
#endif
static const u64 PR = pw(W);
static const u64 MASK = (W == 32) ? ~0ULL : ((1ULL << (2 * W)) - 1);
#ifdef SIMW_SIG
namespace simw { thread_local u64 sig[8] = {1, 1, 1, 1, 1, 1, 1, 1}; }
namespace simw_asm { thread_local u64 asig = 1; }
#endif
static pref::Tables tables()
{
    pref::Tables t;
    t.P = PR;
    t.C = (const u64 *)PoseidonGoldilocksConstants::C;
    t.S = (const u64 *)PoseidonGoldilocksConstants::S;
    t.M = (const u64 *)PoseidonGoldilocksConstants::M;
    t.Pm = (const u64 *)PoseidonGoldilocksConstants::P;
    t.M_ = (const u64 *)PoseidonGoldilocksConstants::M_;
    t.P_ = (const u64 *)PoseidonGoldilocksConstants::P_;
    return t;
}
enum Backend { B_SEQ, B_AVX, B_AVX512, B_WRAP, NB };
static const char *bname[] = {"seq", "avx", "avx512", "wrapper"};
struct Case { int backend; size_t rows, cols, dim; int nthreads; size_t batch; /*0 = unbatched builder*/ int content; int outer; /*> 0: called by each of `outer` threads of a parallel region of the caller*/ int argform; /*1: default wrapper called with a 64-bit unsigned thread count and no dim argument*/ };
static std::string casestr(const Case &c)
{
    return fmt("w=%u backend=%s rows=%zu cols=%zu dim=%zu nthreads=%d batch=%zu content=%d", W, bname[c.backend], c.rows, c.cols, c.dim, c.nthreads, c.batch, c.content) + (c.outer ? fmt(" outer=%d", c.outer) : std::string()) + (c.argform ? fmt(" argform=%d", c.argform) : std::string());
}
static u64 content(int kind, size_t i, size_t n)
{
    u64 v;
    if (kind == 0) v = (u64)(i + 1);
    else if (kind == 1) v = MASK - (u64)(i % 7);       // non-canonical representations
    else v = (i == n / 2) ? 0x7654321 : 0;              // single marker
    return v & MASK;
}
static const char *sigprefix(const Case &c) { return c.batch ? "merkletree_batch" : "merkletree"; }

static void build_tree(const Case &c, E *tree, E *inp)
{
    if (c.argform == 1 && c.backend == B_WRAP && c.dim == 1)
    {
        // the way a caller with a size_t / uint64_t configuration value writes it: thread count of another integer type, dim omitted
        const uint64_t nt64 = (uint64_t)c.nthreads;
        if (c.batch == 0) PoseidonGoldilocks::merkletree(tree, inp, c.cols, c.rows, nt64);
        else PoseidonGoldilocks::merkletree_batch(tree, inp, c.cols, c.rows, c.batch, nt64);
        return;
    }
    if (c.batch == 0)
    {
        switch (c.backend)
        {
        case B_SEQ: PoseidonGoldilocks::merkletree_seq(tree, inp, c.cols, c.rows, c.nthreads, c.dim); break;
        case B_AVX: PoseidonGoldilocks::merkletree_avx(tree, inp, c.cols, c.rows, c.nthreads, c.dim); break;
        case B_AVX512:
#ifdef __AVX512__
            PoseidonGoldilocks::merkletree_avx512(tree, inp, c.cols, c.rows, c.nthreads, c.dim);
#endif
            break;
        case B_WRAP: PoseidonGoldilocks::merkletree(tree, inp, c.cols, c.rows, c.nthreads, c.dim); break;
        }
    }
    else
    {
        switch (c.backend)
        {
        case B_SEQ: PoseidonGoldilocks::merkletree_batch_seq(tree, inp, c.cols, c.rows, c.batch, c.nthreads, c.dim); break;
        case B_AVX: PoseidonGoldilocks::merkletree_batch_avx(tree, inp, c.cols, c.rows, c.batch, c.nthreads, c.dim); break;
        case B_AVX512:
#ifdef __AVX512__
            PoseidonGoldilocks::merkletree_batch_avx512(tree, inp, c.cols, c.rows, c.batch, c.nthreads, c.dim);
#endif
            break;
        case B_WRAP: PoseidonGoldilocks::merkletree_batch(tree, inp, c.cols, c.rows, c.batch, c.nthreads, c.dim); break;
        }
    }
}

// the caller is itself parallel: `outer` threads of a parallel region opened by the harness build a tree at the same time, each
// from its own input into its own buffer; every caller must get the tree of its own rows
static void run_case_outer(const pref::Ref &R, const Case &c)
{
    size_t nin = c.rows * c.cols * c.dim, ntree = MerklehashGoldilocks::getTreeNumElements(c.rows);
    const int T = c.outer;
    std::vector<std::string> fails(T);
#pragma omp parallel num_threads(T)
    {
        int me = omp_get_thread_num();
        if (me < T)
        {
            std::vector<E> in(nin + 1), tr(ntree + 1);
            std::vector<u64> raw(nin);
            for (size_t i = 0; i < nin; i++) { raw[i] = (content(c.content, i, nin) + (u64)me * 1000003ULL) & MASK; in[i].fe = raw[i]; }
            for (auto &e : tr) e.fe = 0x5E5E5E5E5E5E5E5EULL;
            build_tree(c, tr.data(), in.data());
            std::vector<u64> ex = R.merkle(raw.data(), c.cols, c.rows, c.dim, c.batch);
            for (size_t i = 0; i < ntree; i++)
                if (tr[i].fe > MASK || tr[i].fe % PR != ex[i]) { fails[me] = fmt("caller %d of %d: tree element %zu got %s expected %s", me, T, i, hex(tr[i].fe).c_str(), hex(ex[i]).c_str()); break; }
        }
    }
    rep().stat("transitions", T);
    rep().stat("evaluations", T);
    for (auto &f : fails)
        if (!f.empty()) { rep().viol(fmt("C08.wrong.%s_%s.caller-parallel.w%u", sigprefix(c), bname[c.backend], W), casestr(c), f); return; }
}

static void run_case(const pref::Ref &R, const Case &c)
{
    if (c.outer) { run_case_outer(R, c); return; }
    size_t nin = c.rows * c.cols * c.dim;
    size_t ntree = MerklehashGoldilocks::getTreeNumElements(c.rows);
    if (ntree != 4 * (2 * c.rows - 1))
    {
        rep().viol(fmt("C08.size.getTreeNumElements.w%u", W), casestr(c), fmt("reported %zu expected %zu", ntree, 4 * (2 * c.rows - 1)));
        return;
    }
    GuardArena<E> in(nin, true);
    GuardArena<E> tr(ntree + 4, true);
    std::vector<u64> raw(nin);
    for (size_t i = 0; i < nin; i++) { raw[i] = content(c.content, i, nin); in.p[i].fe = raw[i]; }
    const u64 SENT = 0x5E5E5E5E5E5E5E5EULL;
    for (size_t i = 0; i < ntree + 4; i++) tr.p[i].fe = SENT;
    E *tree = tr.p + 4;
    build_tree(c, tree, in.p);
    rep().stat("transitions");
    rep().stat("evaluations");
    std::vector<u64> ex = R.merkle(raw.data(), c.cols, c.rows, c.dim, c.batch);
    for (size_t i = 0; i < ntree; i++)
    {
        u64 g = tree[i].fe;
        if (g > MASK || g % PR != ex[i])
        {
            rep().viol(fmt("C08.wrong.%s_%s.w%u", sigprefix(c), bname[c.backend], W), casestr(c),
                       fmt("tree element %zu (%s) got %s expected %s", i, i < 4 * c.rows ? "leaf digest" : "inner node", hex(g).c_str(), hex(ex[i]).c_str()));
            return;
        }
    }
    E root[4];
    MerklehashGoldilocks::root(&root[0], tree, ntree);
    for (int i = 0; i < 4; i++)
        if (root[i].fe % PR != ex[ntree - 4 + i]) { rep().viol(fmt("C08.wrong.root.w%u", W), casestr(c), "root helper does not return the last four elements"); return; }
    for (int i = 0; i < 4; i++)
        if (tr.p[i].fe != SENT) { rep().viol(fmt("C08.write-outside.%s_%s.w%u", sigprefix(c), bname[c.backend], W), casestr(c), "element before the tree overwritten"); return; }
    for (size_t i = 0; i < nin; i++)
        if (in.p[i].fe != raw[i]) { rep().viol(fmt("C08.input-modified.%s_%s.w%u", sigprefix(c), bname[c.backend], W), casestr(c), "input changed"); return; }
}

// Failure classes that the harness can name independently of the code (for KNOWN_FINDINGS matching):
// AVX-512 builders called with a single row.
static std::string crash_class(const Case &c)
{
    bool is512 = (c.backend == B_AVX512);
#ifdef __AVX512__
    if (c.backend == B_WRAP) is512 = true;
#endif
    if (is512 && c.rows == 1) return "avx512-one-row";
    return "other";
}

int main(int argc, char **argv)
{
    Args args = parse_args(argc, argv);
    pref::Tables T = tables();
    pref::Ref R(T);
    if (!args.one.empty())
    {
        auto m = parse_case(args.one);
        if (cu(m, "w", 32) != W) { printf("INFO skip width\n"); return 0; }
        Case c{0, (size_t)cu(m, "rows"), (size_t)cu(m, "cols"), (size_t)cu(m, "dim"), (int)cu(m, "nthreads"), (size_t)cu(m, "batch"), (int)cu(m, "content"), (int)cu(m, "outer", 0), (int)cu(m, "argform", 0)};
        std::string b = cs(m, "backend");
        for (int i = 0; i < NB; i++) if (b == bname[i]) c.backend = i;
        ChildResult r = run_child([&](FILE *f) { dup2(fileno(f), 1); rep().reset(); run_case(R, c); rep().flush(); fflush(stdout); });
        if (r.kind == 0) fwrite(r.out.data(), 1, r.out.size(), stdout);
        else rep().viol(fmt("C08.%s.%s_%s.%s.w%u", crash_sig(r).c_str(), sigprefix(c), bname[c.backend], crash_class(c).c_str(), W), casestr(c), err_tail(r));
        rep().flush();
        return 0;
    }
    std::vector<size_t> rows = {1, 2, 4, 8, 16};
    if (args.thorough()) { rows.push_back(32); rows.push_back(64); }
    std::vector<size_t> cols = {0, 1, 2, 3, 4, 5, 6, 7, 8, 9, 10, 11, 12, 15, 16, 17};
    std::vector<size_t> dims = {1, 2, 3};
    std::vector<int> nth = {0, 1, 2, 3, 5};
    if (W < 32)
    {
        rows = {1, 2, 4};
        cols = {0, 1, 3, 4, 5, 8, 9, 12, 17};
        dims = {1, 3};
        nth = {1, 3};
        if (args.thorough()) { rows.push_back(8); nth.push_back(0); }
    }
    std::vector<Case> cases;
    for (int b = 0; b < NB; b++)
    {
#ifndef __AVX512__
        if (b == B_AVX512) continue;
#endif
        for (size_t r : rows)
            for (size_t cc : cols)
                for (size_t d : dims)
                    for (int t : nth)
                    {
                        int ct = (int)((r + cc + d + (size_t)t) % 3);
                        cases.push_back({b, r, cc, d, t, 0, ct});
                        // batched builders: every batch size 1..cols+1 (at least 1)
                        for (size_t bs = 1; bs <= cc + 1; bs++)
                        {
                            if (!args.thorough() && t != 1 && t != 3 && bs != 1 && bs != cc + 1 && bs != (cc + 1) / 2) continue;
                            cases.push_back({b, r, cc, d, t, bs, (int)((ct + bs) % 3)});
                        }
                    }
    }
    if (W == 32)
    {
        // shapes around the integer constants of the library source (thresholds, block sizes; see lib/mine.py):
        // row counts = the powers of two at and above each constant, column counts next to it
        std::set<size_t> rset, cset;
        for (u64 L : culist(args.kv, "lits"))
        {
            size_t p2 = 1;
            while (p2 < L) p2 *= 2;
            for (size_t q : {p2, 2 * p2}) if (q >= 32 && q <= (args.num("light", 0) ? 4096u : (args.thorough() ? 65536u : 32768u))) rset.insert(q);
            for (long long d : {-1LL, 0LL, 1LL}) { long long v = (long long)L + d; if (v > 17 && v <= 1100) cset.insert((size_t)v); }
        }
        for (int b = 0; b < NB; b++)
        {
#ifndef __AVX512__
            if (b == B_AVX512) continue;
#endif
            for (size_t r : rset)
                for (int t : {3, 6, 7, 11})
                {
                    if (r >= 8192 && (t == 3 || t == 11) && !args.thorough()) continue;
                    cases.push_back({b, r, 1, 1, t, 0, (int)(r % 3)});
                    if (r <= 16384) cases.push_back({b, r, 9, 1, t, 4, (int)((r + 1) % 3)});
                }
            for (size_t cc : cset)
                for (int t : {1, 3})
                {
                    cases.push_back({b, 4, cc, 1, t, 0, (int)(cc % 3)});
                    cases.push_back({b, 2, cc, 1, t, cc / 2 + 1, (int)((cc + 1) % 3)});
                }
        }
    }
    if (W == 32)
    {
        // big shapes, odd team sizes (more and fewer threads than rows, chunk remainders)
        for (int b = 0; b < NB; b++)
        {
#ifndef __AVX512__
            if (b == B_AVX512) continue;
#endif
            for (size_t r : {(size_t)32, (size_t)64, (size_t)256, (size_t)1024})
                for (size_t cc : {(size_t)1, (size_t)8, (size_t)33, (size_t)130})
                    for (int t : {6, 7, 11, 13})
                    {
                        if (r >= 256 && (cc == 130 || t == 6 || t == 13) && !args.thorough()) continue;
                        size_t d = (cc == 33) ? 2 : 1;
                        cases.push_back({b, r, cc, d, t, 0, (int)((r + cc + (size_t)t) % 3)});
                        cases.push_back({b, r, cc, d, t, (cc > 4 ? cc / 3 + 1 : 1), (int)((r + cc) % 3)});
                    }
        }
    }
    {
        // thread counts around and above the number of processors (per-thread scratch sized by the wrong count)
        int procs = omp_get_num_procs();
        std::set<int> ts_ = {procs - 1, procs, procs + 1, 2 * procs + 1, 15, 16, 17, 33};
        long long added = 0;
        for (int b = 0; b < NB; b++)
        {
#ifndef __AVX512__
            if (b == B_AVX512) continue;
#endif
            for (int t : ts_)
                for (size_t r : {(size_t)32, (size_t)64})
                    for (size_t cc : {(size_t)3, (size_t)9})
                    {
                        if (t < 1) continue;
                        cases.push_back({b, r, cc, 1, t, 0, (int)((r + cc) % 3), 0});
                        cases.push_back({b, r, cc, (size_t)(cc == 3 ? 2 : 1), t, (size_t)2, (int)((r + cc + 1) % 3), 0});
                        added += 2;
                    }
        }
        rep().stat("cases_with_teams_around_the_processor_count", added);
    }
    {
        // thread-count sweep: every nThreads 1..128 and a few above (a split of the rows computed from the team size must cover
        // every row for every team size, not only the ones that divide the row count)
        long long added = 0;
        if (!args.num("light", 0))
        for (int b = 0; b < NB; b++)
        {
#ifndef __AVX512__
            if (b == B_AVX512) continue;
#endif
            std::vector<int> tl;
            for (int t = 1; t <= 128; t++) tl.push_back(t);
            for (int t : {161, 187, 196, 197, 255, 256, 257}) tl.push_back(t);
            for (int t : tl)
            {
                cases.push_back({b, 64, 3, 1, t, 0, (int)(t % 3), 0});
                if (t % 4 == 1) cases.push_back({b, 256, 2, 1, t, 2, (int)((t + 1) % 3), 0});
                added++;
            }
        }
        rep().stat("cases_from_thread_count_sweep", added);
    }
    {
        // batch sizes far above the column count ("any relation to num_cols"): one batch, and nothing may be sized by batch_size
        long long added = 0;
        for (int b = 0; b < NB; b++)
        {
#ifndef __AVX512__
            if (b == B_AVX512) continue;
#endif
            for (size_t bs : {(size_t)1000, (size_t)1 << 16, (size_t)1 << 20, (size_t)1 << 22, (size_t)1 << 31, (size_t)1 << 40, (size_t)1 << 62, (size_t)0x5555555555555556ULL, (size_t)0x5555555555555557ULL,
                              (size_t)0x7FFFFFFFFFFFFFFFULL, (size_t)0x8000000000000000ULL, (size_t)0x8000000000000003ULL})
                for (size_t r : {(size_t)2, (size_t)4})
                    for (size_t cc : {(size_t)3, (size_t)9, (size_t)10})
                        for (size_t d : {(size_t)1, (size_t)2, (size_t)3})
                        {
                            cases.push_back({b, r, cc, d, (int)(1 + (bs >> 16) % 3), bs, (int)((r + cc) % 3), 0});
                            added++;
                        }
        }
        rep().stat("cases_with_huge_batch_size", added);
    }
    {
        // other integer types for the thread-count argument of the default wrappers (overload resolution must not change the meaning)
        long long added = 0;
        for (size_t r : {(size_t)2, (size_t)8})
            for (size_t cc : {(size_t)3, (size_t)9})
                for (int t : {2, 3, 7})
                {
                    cases.push_back({B_WRAP, r, cc, 1, t, 0, (int)((r + cc) % 3), 0, 1});
                    cases.push_back({B_WRAP, r, cc, 1, t, 2, (int)((r + cc + 1) % 3), 0, 1});
                    added += 2;
                }
        rep().stat("cases_with_other_argument_types", added);
    }
    if (!args.num("light", 0))
    {
        // called from inside a parallel region of the caller (run_case_outer)
        long long added = 0;
        for (int b = 0; b < NB; b++)
        {
#ifndef __AVX512__
            if (b == B_AVX512) continue;
#endif
            for (size_t r : {(size_t)1, (size_t)2, (size_t)8, (size_t)64})
                for (size_t cc : {(size_t)0, (size_t)3, (size_t)9})
                    for (int t : {0, 1, 3})
                        for (int outer : {2, 3})
                        {
                            cases.push_back({b, r, cc, 1, t, 0, (int)((r + cc) % 3), outer});
                            cases.push_back({b, r, cc, (size_t)(cc == 3 ? 2 : 1), t, (size_t)2, (int)((r + cc + 1) % 3), outer});
                            added += 2;
                        }
        }
        rep().stat("cases_called_from_a_parallel_region", added);
    }
    isolated_for((long)cases.size(), args.jobs, 32, [&](long i) { run_case(R, cases[i]); },
                 [&](long i, const ChildResult &r) {
                     const Case &c = cases[i];
                     rep().viol(fmt("C08.%s.%s_%s.%s.w%u", crash_sig(r).c_str(), sigprefix(c), bname[c.backend], crash_class(c).c_str(), W), casestr(c), err_tail(r));
                 });
    long long nt = 0;
    std::set<std::tuple<size_t, size_t, size_t>> shapes;
    for (auto &c : cases)
    {
        if (c.rows == 1 || c.cols % 8 != 0 || c.dim > 1 || c.batch) nt++;
        shapes.insert(std::make_tuple(c.rows, c.cols, c.dim));
    }
    rep().stat("states", (long long)cases.size());
    rep().stat(fmt("states_w%u", W), (long long)cases.size());
    rep().stat("distinct_nontrivial", nt);
    rep().stat("distinct_outcomes", (long long)shapes.size());
    rep().sample("merkle-case", fmt("\"w\":%u,\"backend\":\"avx\",\"rows\":4,\"cols\":5,\"dim\":3,\"nthreads\":3,\"batch\":2,\"content\":\"non-canonical representations\"", W), 1);
    rep().sample("merkle-space", fmt("\"w\":%u,\"rows\":%zu,\"cols\":%zu,\"dims\":%zu,\"thread_counts\":%zu,\"cases\":%zu", W, rows.size(), cols.size(), dims.size(), nth.size(), cases.size()), 1);
    rep().flush();
    return 0;
}
