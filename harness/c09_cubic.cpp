// C09: scalar cubic-extension arithmetic is exact in F_p[x]/(x^3-x-1); outputs may alias inputs;
// a*inv(a) = 1 for every non-zero a; batchInverse = element-wise inverse; isOne only for (1,0,0).
//
// scaled w=2 (F_13, x^3-x-1 irreducible there: a field of 2197 elements): EVERY operand in EVERY
//   representation (16^3 triples per operand): all pairs for add/sub/mul, all elements for
//   square/neg/inv/isOne, all mixed base/integer variants, div by every non-zero base representation,
//   mulScalar for every decimal string in [-3p,3p], batchInverse for every array of length 1..6 over
//   a 6-element alphabet.  w=4 (Z/241, ring identities only): mul/add/sub with two free coefficients
//   over all 256^2 values on 4 base patterns.  native: all pairs of triples over a 12-value alphabet.
// Oracle: schoolbook product reduced with x^3 = x+1, __int128.
#include "vcommon.hpp"
#include <new>
#include "goldilocks_cubic_extension.hpp"
#include <omp.h>
using namespace vc;
typedef Goldilocks::Element E;
typedef Goldilocks3::Element E3;
#ifdef VW
static const unsigned W = VW;
#else
static const unsigned W = 32;
#endif
static const u64 PR = pw(W);
static const u64 MASK = (W == 32) ? ~0ULL : ((1ULL << (2 * W)) - 1);
static Mod F(PR);
#ifdef SIMW_SIG
namespace simw { thread_local u64 sig[8] = {1, 1, 1, 1, 1, 1, 1, 1}; }
namespace simw_asm { thread_local u64 asig = 1; }
#endif

struct T3 { u64 c[3]; };
static T3 omul(const T3 &a, const T3 &b)
{
    u64 c0 = F.mul(a.c[0], b.c[0]);
    u64 c1 = F.add(F.mul(a.c[0], b.c[1]), F.mul(a.c[1], b.c[0]));
    u64 c2 = F.add(F.add(F.mul(a.c[0], b.c[2]), F.mul(a.c[1], b.c[1])), F.mul(a.c[2], b.c[0]));
    u64 c3 = F.add(F.mul(a.c[1], b.c[2]), F.mul(a.c[2], b.c[1]));
    u64 c4 = F.mul(a.c[2], b.c[2]);
    // x^3 = x + 1, x^4 = x^2 + x
    return T3{{F.add(c0, c3), F.add(F.add(c1, c3), c4), F.add(c2, c4)}};
}
static T3 oadd(const T3 &a, const T3 &b) { return T3{{F.add(a.c[0] % PR, b.c[0] % PR), F.add(a.c[1] % PR, b.c[1] % PR), F.add(a.c[2] % PR, b.c[2] % PR)}}; }
static T3 osub(const T3 &a, const T3 &b) { return T3{{F.sub(a.c[0], b.c[0]), F.sub(a.c[1], b.c[1]), F.sub(a.c[2], b.c[2])}}; }
static bool eqmod(const E3 &r, const T3 &ex)
{
    for (int i = 0; i < 3; i++) if (r[i].fe > MASK || r[i].fe % PR != ex.c[i] % PR) return false;
    return true;
}
static void set3(E3 &e, const T3 &t) { for (int i = 0; i < 3; i++) e[i].fe = t.c[i]; }
static std::string t3s(const T3 &t) { return hex(t.c[0]) + "," + hex(t.c[1]) + "," + hex(t.c[2]); }
static std::string casestr(const char *op, int form, const T3 &a, const T3 &b) { return fmt("w=%u op=%s form=%d a=%s b=%s", W, op, form, t3s(a).c_str(), t3s(b).c_str()); }
static void bad(const char *op, int form, const T3 &a, const T3 &b, const E3 &got, const T3 &ex)
{
    rep().viol(fmt("C09.wrong.%s.w%u", op, W), casestr(op, form, a, b), fmt("got (%s,%s,%s) expected (%s)", hex(got[0].fe).c_str(), hex(got[1].fe).c_str(), hex(got[2].fe).c_str(), t3s(ex).c_str()));
}

// binary ops on two extension elements; forms: 0 distinct result, 1 result aliases a, 2 result aliases b, 3 a and b same object (a==b only)
static void chk_bin(int op, const T3 &a, const T3 &b, long long &ev)
{
    static const char *nm[] = {"add", "sub", "mul"};
    T3 ex = op == 0 ? oadd(a, b) : op == 1 ? osub(a, b) : omul(a, b);
    for (int form = 0; form < 4; form++)
    {
        if (form == 3 && memcmp(&a, &b, sizeof a)) continue;
        E3 A, B, R;
        set3(A, a); set3(B, b);
        R[0].fe = R[1].fe = R[2].fe = 0x77;
        E3 *r = form == 1 ? &A : form == 2 ? &B : &R;
        E3 *pb = form == 3 ? &A : &B;
        if (op == 0) Goldilocks3::add(*r, A, *pb);
        else if (op == 1) Goldilocks3::sub(*r, A, *pb);
        else Goldilocks3::mul(*r, A, *pb);
        ev++;
        if (!eqmod(*r, ex)) { bad(nm[op], form, a, b, *r, ex); return; }
    }
    if (op == 2)
    {
        E3 A, B, R;
        set3(A, a); set3(B, b);
        Goldilocks3::mul(&R, &A, &B); // pointer overload
        ev++;
        if (!eqmod(R, ex)) bad("mul_ptr", 0, a, b, R, ex);
    }
}
static void chk_unary(const T3 &a, long long &ev)
{
    T3 z{{0, 0, 0}};
    {
        E3 A, R; set3(A, a);
        Goldilocks3::square(R, A); ev++;
        T3 ex = omul(a, a);
        if (!eqmod(R, ex)) bad("square", 0, a, z, R, ex);
        Goldilocks3::square(A, A); ev++;
        if (!eqmod(A, ex)) bad("square", 1, a, z, A, ex);
    }
    {
        E3 A, R; set3(A, a);
        Goldilocks3::neg(R, A); ev++;
        T3 ex = osub(z, a);
        if (!eqmod(R, ex)) bad("neg", 0, a, z, R, ex);
        Goldilocks3::neg(A, A); ev++;
        if (!eqmod(A, ex)) bad("neg", 1, a, z, A, ex);
    }
    {
        E3 A; set3(A, a);
        bool one = Goldilocks3::isOne(A); ev++;
        bool ex = (a.c[0] % PR == 1 % PR) && (a.c[1] % PR == 0) && (a.c[2] % PR == 0);
        if (one != ex) rep().viol(fmt("C09.wrong.isOne.w%u", W), casestr("isOne", 0, a, z), fmt("returned %d expected %d", (int)one, (int)ex));
    }
    {
        E3 A, C; set3(A, a);
        Goldilocks3::copy(C, A);
        if (!eqmod(C, a)) bad("copy", 0, a, z, C, a);
    }
}
static bool is_zero3(const T3 &a) { return a.c[0] % PR == 0 && a.c[1] % PR == 0 && a.c[2] % PR == 0; }
static void chk_inv(const T3 &a, long long &ev)
{
    if (is_zero3(a)) return;
    T3 z{{0, 0, 0}}, one{{1 % PR, 0, 0}};
    E3 A, R; set3(A, a);
    Goldilocks3::inv(R, A); ev++;
    T3 r{{R[0].fe, R[1].fe, R[2].fe}};
    T3 prod = omul(a, r);
    bool ok = R[0].fe <= MASK && R[1].fe <= MASK && R[2].fe <= MASK && prod.c[0] == one.c[0] && prod.c[1] == 0 && prod.c[2] == 0;
    if (!ok) { rep().viol(fmt("C09.wrong.inv.w%u", W), casestr("inv", 0, a, z), fmt("inv = (%s); a*inv = (%s)", t3s(r).c_str(), t3s(prod).c_str())); return; }
    E3 R2; Goldilocks3::inv(&R2, &A); ev++;
    if (R2[0].fe != R[0].fe || R2[1].fe != R[1].fe || R2[2].fe != R[2].fe) rep().viol(fmt("C09.wrong.inv_ptr.w%u", W), casestr("inv", 1, a, z), "pointer overload differs");
    Goldilocks3::inv(A, A); ev++; // aliasing
    if (A[0].fe % PR != R[0].fe % PR || A[1].fe % PR != R[1].fe % PR || A[2].fe % PR != R[2].fe % PR) rep().viol(fmt("C09.wrong.inv_alias.w%u", W), casestr("inv", 2, a, z), "in-place inverse differs");
}
// mixed variants with a base element / integer b (raw representation bv)
static void chk_mixed(const T3 &a, u64 bv, long long &ev)
{
    T3 b{{bv, 0, 0}};
    E B; B.fe = bv;
    E3 A, R;
    auto run = [&](const char *nm, int form, const T3 &ex) { ev++; if (!eqmod(R, ex)) bad(nm, form, a, b, R, ex); };
    set3(A, a); Goldilocks3::add(R, A, B); run("add31", 0, oadd(a, b));
    set3(A, a); Goldilocks3::add(R, B, A); run("add13", 0, oadd(a, b));
    { uint64_t u = bv; set3(A, a); Goldilocks3::add(R, A, u); run("add3u", 0, oadd(a, b)); }
    set3(A, a); Goldilocks3::sub(R, A, B); run("sub31", 0, osub(a, b));
    set3(A, a); Goldilocks3::sub(R, B, A); run("sub13", 0, osub(b, a));
    { uint64_t u = bv; set3(A, a); Goldilocks3::sub(R, A, u); run("sub3u", 0, osub(a, b)); }
    T3 exm{{F.mul(a.c[0], bv), F.mul(a.c[1], bv), F.mul(a.c[2], bv)}};
    set3(A, a); Goldilocks3::mul(R, A, B); run("mul31", 0, exm);
    set3(A, a); Goldilocks3::mul(R, B, A); run("mul13", 0, exm);
    set3(A, a); Goldilocks3::mul(R, A, (uint64_t)bv); run("mul3u", 0, exm);
    // aliasing forms of the mixed ops
    set3(A, a); Goldilocks3::add(A, A, B); ev++; if (!eqmod(A, oadd(a, b))) bad("add31", 1, a, b, A, oadd(a, b));
    set3(A, a); Goldilocks3::mul(A, A, B); ev++; if (!eqmod(A, exm)) bad("mul31", 1, a, b, A, exm);
    set3(A, a); Goldilocks3::mul(A, B, A); ev++; if (!eqmod(A, exm)) bad("mul13", 1, a, b, A, exm);
    set3(A, a); Goldilocks3::sub(A, A, B); ev++; if (!eqmod(A, osub(a, b))) bad("sub31", 1, a, b, A, osub(a, b));
    set3(A, a); Goldilocks3::sub(A, B, A); ev++; if (!eqmod(A, osub(b, a))) bad("sub13", 1, a, b, A, osub(b, a));
    set3(A, a); Goldilocks3::add(A, B, A); ev++; if (!eqmod(A, oadd(a, b))) bad("add13", 1, a, b, A, oadd(a, b));
    if (bv % PR != 0)
    {
        set3(A, a); Goldilocks3::div(A, A, B); ev++; // result aliases the dividend
        {
            T3 back{{F.mul(A[0].fe, bv), F.mul(A[1].fe, bv), F.mul(A[2].fe, bv)}};
            if (!(back.c[0] == a.c[0] % PR && back.c[1] == a.c[1] % PR && back.c[2] == a.c[2] % PR)) bad("div", 1, a, b, A, a);
        }
        set3(A, a); Goldilocks3::div(R, A, B); ev++;
        T3 back{{F.mul(R[0].fe, bv), F.mul(R[1].fe, bv), F.mul(R[2].fe, bv)}};
        if (!(back.c[0] == a.c[0] % PR && back.c[1] == a.c[1] % PR && back.c[2] == a.c[2] % PR)) bad("div", 0, a, b, R, a);
    }
}
static void chk_mulscalar_str(const T3 &a, const std::string &st, long long &ev)
{
    E3 A, R; set3(A, a);
    std::string s2 = st;
    Goldilocks3::mulScalar(R, A, s2); ev++;
    mpz_class z(st), pz, r;
    mpz_import(pz.get_mpz_t(), 1, 1, 8, 0, 0, &PR);
    mpz_fdiv_r(r.get_mpz_t(), z.get_mpz_t(), pz.get_mpz_t());
    u64 m = mpz_get_ui(r.get_mpz_t());
    T3 ex{{F.mul(a.c[0], m), F.mul(a.c[1], m), F.mul(a.c[2], m)}};
    const char *cls = (z < -pz) ? "below-minus-p" : (z < 0 ? "negative" : (z >= pz ? "big" : "nonneg"));
    {
        E3 A2; set3(A2, a);
        std::string s3 = st;
        Goldilocks3::mulScalar(A2, A2, s3); ev++; // result aliases the operand
        if (!eqmod(A2, ex)) rep().viol(fmt("C09.wrong.mulScalar.alias.w%u", W), casestr("mulScalar", 1, a, T3{{0, 0, 0}}) + " z=" + st, "in-place mulScalar differs");
    }
    if (!eqmod(R, ex))
        rep().viol(fmt("C09.wrong.mulScalar.%s.w%u", cls, W), casestr("mulScalar", 0, a, T3{{0, 0, 0}}) + " z=" + st,
                   fmt("got (%s,%s,%s) expected (%s)", hex(R[0].fe).c_str(), hex(R[1].fe).c_str(), hex(R[2].fe).c_str(), t3s(ex).c_str()));
}
static void chk_mulscalar(const T3 &a, long long z, long long &ev) { chk_mulscalar_str(a, dec(z), ev); }
static std::string arr_desc(const std::vector<T3> &v, const std::string &compact)
{
    if (!compact.empty()) return compact;
    std::string s = "arr=";
    for (size_t j = 0; j < v.size(); j++) s += (j ? ";" : "") + t3s(v[j]);
    return s;
}
static std::vector<T3> batch_alphabet()
{
    if (W == 2) return {T3{{1, 0, 0}}, T3{{0, 1, 0}}, T3{{13, 14, 15}}, T3{{12, 12, 12}}, T3{{5, 0, 7}}, T3{{14, 13, 3}}};
    return {T3{{1, 0, 0}}, T3{{0, 1, 0}}, T3{{GP, GP + 1, GP + 2}}, T3{{GP - 1, GP - 1, GP - 1}}, T3{{~0ULL, 0, 0x100000000ULL}}, T3{{3, 0x5555555555555555ULL, 0xFFFFFFFFULL}}};
}
static std::vector<T3> gen_array(size_t n)
{
    std::vector<T3> al = batch_alphabet(), v(n);
    for (size_t i = 0; i < n; i++) v[i] = al[(i * 5 + 1) % 6];
    return v;
}
static void chk_batch(const std::vector<T3> &v, long long &ev, const std::string &compact = "")
{
    size_t n = v.size();
    std::vector<u64> flat_src(3 * n), flat_res(3 * n, 0x99);
    for (size_t i = 0; i < n; i++) for (int k = 0; k < 3; k++) flat_src[3 * i + k] = v[i].c[k];
    Goldilocks3::batchInverse((E3 *)flat_res.data(), (E3 *)flat_src.data(), n); ev++;
    T3 z{{0, 0, 0}};
    for (size_t i = 0; i < n; i++)
    {
        T3 r{{flat_res[3 * i], flat_res[3 * i + 1], flat_res[3 * i + 2]}};
        T3 prod = omul(v[i], r);
        if (!(prod.c[0] == 1 % PR && prod.c[1] == 0 && prod.c[2] == 0))
        {
            std::string s = fmt("w=%u op=batchInverse n=%zu ", W, n) + arr_desc(v, compact);
            rep().viol(fmt("C09.wrong.batchInverse.w%u", W), s, fmt("element %zu: src*res = (%s)", i, t3s(prod).c_str()));
            return;
        }
    }
    // in place (res == src)
    std::vector<u64> io = flat_src;
    Goldilocks3::batchInverse((E3 *)io.data(), (E3 *)io.data(), n); ev++;
    for (size_t i = 0; i < 3 * n; i++)
        if (io[i] % PR != flat_res[i] % PR)
        {
            std::string s = fmt("w=%u op=batchInverse_inplace n=%zu ", W, n) + arr_desc(v, compact);
            rep().viol(fmt("C09.wrong.batchInverse_inplace.w%u", W), s, fmt("in-place result differs from the out-of-place one at flat index %zu", i));
            return;
        }
    // partially overlapping arrays in one buffer (results compacted k elements down or moved k elements up): res = src -/+ k
    for (int k : {-2, -1, 1, 2})
    {
        if ((size_t)(k < 0 ? -k : k) >= n) continue;
        size_t pad = 2;
        std::vector<u64> buf(3 * (n + 2 * pad), 0x99);
        u64 *src = buf.data() + 3 * pad, *res = src + 3 * k;
        memcpy(src, flat_src.data(), 3 * n * sizeof(u64));
        Goldilocks3::batchInverse((E3 *)res, (E3 *)src, n); ev++;
        for (size_t i = 0; i < 3 * n; i++)
            if (res[i] % PR != flat_res[i] % PR)
            {
                std::string s = fmt("w=%u op=batchInverse_overlap n=%zu shift=%d ", W, n, k) + arr_desc(v, compact);
                rep().viol(fmt("C09.wrong.batchInverse_overlap.w%u", W), s, fmt("result array starting %d elements %s the source in the same buffer: flat index %zu differs from the out-of-place result", k < 0 ? -k : k, k < 0 ? "below" : "above", i));
                return;
            }
    }
}

// placement: the same arrays with the result starting at every 8-byte offset modulo 64 (word offsets 0..7 from a 64-byte aligned
// block) and the source at word offsets 0, 1, 3 -- an Element needs 8-byte alignment only; one sentinel word on either side of
// the result must survive
static void chk_batch_placed(const std::vector<T3> &v, long long &ev, int only_ro = -1, int only_so = -1)
{
    size_t n = v.size();
    const size_t bytes = (((3 * n + 32) * sizeof(u64) + 63) / 64) * 64; // aligned_alloc wants a multiple of the alignment
    u64 *rb = (u64 *)aligned_alloc(64, bytes), *sb = (u64 *)aligned_alloc(64, bytes);
    if (!rb || !sb) { rep().uncovered("aligned_alloc failed in chk_batch_placed"); free(rb); free(sb); return; }
    for (int ro = 0; ro < 8; ro++)
        for (int so : {0, 1, 3})
        {
            if ((only_ro >= 0 && ro != only_ro) || (only_so >= 0 && so != only_so)) continue;
            for (size_t i = 0; i < 3 * n + 32; i++) { rb[i] = 0x5E5E5E5E00000000ULL + i; sb[i] = 0x7777777700000000ULL + i; }
            u64 *res = rb + 8 + ro, *src = sb + 8 + so;
            for (size_t i = 0; i < n; i++) for (int k = 0; k < 3; k++) src[3 * i + k] = v[i].c[k];
            Goldilocks3::batchInverse((E3 *)res, (E3 *)src, n); ev++;
            std::string cs_ = fmt("w=%u op=batchInverse_placed gen=1 n=%zu ro=%d so=%d", W, n, ro, so);
            for (size_t i = 0; i < n; i++)
            {
                T3 r{{res[3 * i], res[3 * i + 1], res[3 * i + 2]}};
                T3 prod = omul(v[i], r);
                if (!(prod.c[0] == 1 % PR && prod.c[1] == 0 && prod.c[2] == 0))
                {
                    rep().viol(fmt("C09.wrong.batchInverse.placed.w%u", W), cs_, fmt("result at word offset %d (address = %d mod 64), source at word offset %d: element %zu is not the inverse: src*res = (%s)", ro, 8 * ro, so, i, t3s(prod).c_str()));
                    goto out;
                }
            }
            for (size_t i = 0; i < 3 * n + 32; i++)
            {
                bool inres = i >= (size_t)(8 + ro) && i < (size_t)(8 + ro) + 3 * n;
                if (!inres && rb[i] != 0x5E5E5E5E00000000ULL + i) { rep().viol(fmt("C09.write-outside.batchInverse.placed.w%u", W), cs_, fmt("word %zu of the block that holds the result (result = words %d..%zu) was overwritten", i, 8 + ro, 8 + ro + 3 * n - 1)); goto out; }
                bool insrc = i >= (size_t)(8 + so) && i < (size_t)(8 + so) + 3 * n;
                if (!insrc && sb[i] != 0x7777777700000000ULL + i) { rep().viol(fmt("C09.write-outside.batchInverse.placed.w%u", W), cs_, "a word next to the source array was overwritten"); goto out; }
            }
        }
out:
    free(rb);
    free(sb);
}

// ---- allocation failure as an environment answer.  While g_cap is non-zero every array allocation of more than g_cap bytes made
// by the code under test fails (nothrow forms return NULL, throwing forms throw bad_alloc): a memory cap.  A call may then give
// up with an exception -- nothing is claimed about that -- but a call that RETURNS must have produced the inverses.
static thread_local size_t g_cap = 0;
static thread_local long g_failed = 0;
void *operator new[](size_t n, const std::nothrow_t &) noexcept { if (g_cap && n > g_cap) { g_failed++; return nullptr; } return malloc(n ? n : 1); }
void *operator new[](size_t n) { if (g_cap && n > g_cap) { g_failed++; throw std::bad_alloc(); } void *p = malloc(n ? n : 1); if (!p) throw std::bad_alloc(); return p; }
void *operator new(size_t n, const std::nothrow_t &) noexcept { if (g_cap && n > g_cap) { g_failed++; return nullptr; } return malloc(n ? n : 1); }
void operator delete[](void *p) noexcept { free(p); }
void operator delete[](void *p, size_t) noexcept { free(p); }
void operator delete[](void *p, const std::nothrow_t &) noexcept { free(p); }
void operator delete(void *p, const std::nothrow_t &) noexcept { free(p); }
static void chk_batch_memcap(size_t n, int div, long long &ev)
{
    std::vector<T3> v = gen_array(n);
    std::vector<u64> flat_src(3 * n), flat_res(3 * n, 0x99);
    for (size_t i = 0; i < n; i++) for (int k = 0; k < 3; k++) flat_src[3 * i + k] = v[i].c[k];
    std::string cs_ = fmt("w=%u op=batchInverse_memcap gen=1 n=%zu div=%d", W, n, div);
    bool returned = false;
    g_failed = 0;
    g_cap = (n * 24) / (size_t)div + 24; // arrays of more than n/div elements cannot be allocated
    try { Goldilocks3::batchInverse((E3 *)flat_res.data(), (E3 *)flat_src.data(), n); returned = true; }
    catch (const std::bad_alloc &) {}
    g_cap = 0;
    ev++;
    if (!returned) return;
    for (size_t i = 0; i < n; i++)
    {
        T3 r{{flat_res[3 * i], flat_res[3 * i + 1], flat_res[3 * i + 2]}};
        T3 prod = omul(v[i], r);
        if (!(prod.c[0] == 1 % PR && prod.c[1] == 0 && prod.c[2] == 0))
        {
            rep().viol(fmt("C09.wrong.batchInverse.memcap.w%u", W), cs_, fmt("allocations above %zu bytes fail (%ld refused); the call returned normally but element %zu is not the inverse: src*res = (%s)", (n * 24) / (size_t)div + 24, g_failed, i, t3s(prod).c_str()));
            return;
        }
    }
}

static T3 parse3(const std::string &s)
{
    T3 t{{0, 0, 0}};
    const char *p = s.c_str();
    for (int i = 0; i < 3 && *p; i++)
    {
        char *e;
        t.c[i] = strtoull(p, &e, 0);
        p = (*e == ',') ? e + 1 : e;
    }
    return t;
}
static int run_one(const Args &args)
{
    auto m = parse_case(args.one);
    if (cu(m, "w", 32) != W) { printf("INFO skip width\n"); return 0; }
    std::string op = cs(m, "op");
    T3 a = parse3(cs(m, "a")), b = parse3(cs(m, "b"));
    long long ev = 0;
    if (op == "add") chk_bin(0, a, b, ev);
    else if (op == "sub") chk_bin(1, a, b, ev);
    else if (op == "mul" || op == "mul_ptr") chk_bin(2, a, b, ev);
    else if (op == "square" || op == "neg" || op == "isOne" || op == "copy") chk_unary(a, ev);
    else if (op == "inv") chk_inv(a, ev);
    else if (op == "mulScalar") chk_mulscalar_str(a, cs(m, "z"), ev);
    else if (op.rfind("batchInverse", 0) == 0)
    {
        std::vector<T3> v;
        if (cu(m, "gen", 0)) v = gen_array((size_t)cu(m, "n"));
        std::string arr = cs(m, "arr");
        size_t p = 0;
        while (p < arr.size()) { size_t q = arr.find(';', p); if (q == std::string::npos) q = arr.size(); v.push_back(parse3(arr.substr(p, q - p))); p = q + 1; }
        if (m.count("div")) chk_batch_memcap((size_t)cu(m, "n"), (int)cu(m, "div"), ev);
        else if (!v.empty() && m.count("ro")) chk_batch_placed(v, ev, (int)cu(m, "ro"), (int)cu(m, "so"));
        else if (!v.empty()) chk_batch(v, ev);
    }
    else chk_mixed(a, b.c[0], ev);
    rep().flush();
    return 0;
}

int main(int argc, char **argv)
{
    Args args = parse_args(argc, argv);
    if (!args.one.empty()) return run_one(args);
    omp_set_num_threads(args.jobs);
    rep().max_per_sig = 2;
    const bool th = args.thorough();
    long long ev_total = 0, states = 0, nontriv = 0;
    std::vector<u64> V; // per-coefficient value set
    if (W == 2) for (u64 x = 0; x <= MASK; x++) V.push_back(x);
    else if (W == 32)
    {
        V = small_alphabet();
        if (th) // thorough: 28 boundary words per coefficient (21952 elements, 482 M ordered pairs per operation)
            for (u64 x : std::vector<u64>{GP - 2, (GP - 1) / 2, (GP + 1) / 2, 0xFFFFFFFEFFFFFFFFULL, 0x7FFFFFFFFFFFFFFFULL, 0x7FFFFFFF80000000ULL, 0xFFFFFFFEULL, 0x100000001ULL, GP + 2, 3, 7, 0xFFFFFFFE00000002ULL, 0x7FFFFFFF80000001ULL, 0x8000000000000001ULL, 0xFFFFFFFFFFFFFFFEULL, 0x1FFFFFFFFULL}) V.push_back(x);
    }
    else { u64 c[] = {0, 1, 2, PR - 1, PR, PR + 1, MASK, (1ULL << W) - 1, 1ULL << W, PR / 2}; for (u64 x : c) V.push_back(x & MASK); std::sort(V.begin(), V.end()); V.erase(std::unique(V.begin(), V.end()), V.end()); }
    const size_t nv = V.size();
    std::vector<T3> ELS;
    for (u64 x : V) for (u64 y : V) for (u64 z : V) ELS.push_back(T3{{x, y, z}});
    const size_t ne = ELS.size();
    // ---- all pairs, three binary ops, all aliasing forms
    {
        long long ev = 0;
#pragma omp parallel for schedule(dynamic, 8) reduction(+ : ev)
        for (size_t i = 0; i < ne; i++)
            for (size_t j = 0; j < ne; j++)
                for (int op = 0; op < 3; op++) chk_bin(op, ELS[i], ELS[j], ev);
        ev_total += ev;
        states += 3LL * (long long)ne * (long long)ne;
        rep().sample("pairs", fmt("\"w\":%u,\"what\":\"add, sub, mul on all %zu x %zu pairs of extension elements (coefficients over %zu %s), aliasing forms result==a, result==b, a==b\"", W, ne, ne, nv, W == 2 ? "= every representation" : "boundary values"), 1);
    }
    // ---- unary, inverse, mixed
    {
        long long ev = 0;
#pragma omp parallel for schedule(dynamic, 8) reduction(+ : ev)
        for (size_t i = 0; i < ne; i++)
        {
            chk_unary(ELS[i], ev);
            if (W != 4 && W != 8) chk_inv(ELS[i], ev);
            for (u64 b : V) chk_mixed(ELS[i], b, ev);
        }
        ev_total += ev;
        states += (long long)ne * (long long)(3 + nv);
    }
    // ---- w=4/8: two free coefficients over all lane values
    if (W == 4 || W == 8)
    {
        u64 bases[4][3] = {{0, 0, 0}, {1, 1, 1}, {PR - 1, PR - 1, PR - 1}, {MASK, MASK, MASK}};
        long long ev = 0;
        const u64 N = (W == 4) ? MASK + 1 : 256;
#pragma omp parallel for schedule(dynamic, 1) collapse(3) reduction(+ : ev)
        for (int bs = 0; bs < 4; bs++)
            for (int i = 0; i < 3; i++)
                for (int j = 0; j < 3; j++)
                    for (u64 x = 0; x < N; x++)
                        for (u64 y = 0; y < N; y++)
                        {
                            T3 a{{bases[bs][0], bases[bs][1], bases[bs][2]}}, b = a;
                            a.c[i] = (W == 4) ? x : (x * 257) & MASK;
                            b.c[j] = (W == 4) ? y : (MASK - y * 255) & MASK;
                            chk_bin(2, a, b, ev);
                            if (bs == 0) { chk_bin(0, a, b, ev); chk_bin(1, a, b, ev); }
                        }
        ev_total += ev;
        states += 4LL * 9 * (long long)(N * N);
        rep().sample("two-free", fmt("\"w\":%u,\"what\":\"mul (and add/sub) with one free coefficient per operand over all %llu^2 values, 9 position pairs, 4 base patterns\"", W, (unsigned long long)N), 1);
    }
    // ---- mulScalar with decimal strings
    {
        long long ev = 0;
        std::vector<long long> zs;
        if (W < 32) for (long long z = -3 * (long long)PR; z <= 3 * (long long)PR; z++) zs.push_back(z);
        else { long long c[] = {0, 1, -1, 2, -2, 7, -7, 4294967295LL, -4294967295LL, 4294967296LL, -4294967296LL, 9223372036854775807LL, -9223372036854775807LL, 1000000007LL, -1000000007LL}; for (long long z : c) zs.push_back(z); }
        std::vector<T3> sub;
        for (size_t i = 0; i < ne; i += (W == 2 ? 37 : 13)) sub.push_back(ELS[i]);
        for (auto &a : sub) for (long long z : zs) chk_mulscalar(a, z, ev);
        if (W == 32)
        {
            // below -p and above 2^64 as strings
            for (const char *s : {"-18446744069414584326", "18446744073709551621", "-36893488138829168647", "340282366920938463463374607431768211456"})
                chk_mulscalar_str(T3{{3, 5, 7}}, s, ev);
        }
        ev_total += ev;
        states += (long long)(sub.size() * zs.size());
        nontriv += (long long)sub.size() * (long long)std::count_if(zs.begin(), zs.end(), [](long long z) { return z < 0; });
    }
    // ---- batchInverse: every array of length 1..L over a 6-element alphabet of non-zero elements
    if (W == 2 || W == 32)
    {
        std::vector<T3> al = batch_alphabet();
        int L = (W == 2) ? 6 : (th ? 7 : 5);
        long long ev = 0, cnt = 0;
        for (int n = 1; n <= L; n++)
        {
            long long tot = 1;
            for (int i = 0; i < n; i++) tot *= 6;
#pragma omp parallel for schedule(dynamic, 64) reduction(+ : ev)
            for (long long idx = 0; idx < tot; idx++)
            {
                std::vector<T3> v(n);
                long long t = idx;
                for (int i = 0; i < n; i++) { v[i] = al[t % 6]; t /= 6; }
                chk_batch(v, ev);
            }
            cnt += tot;
        }
        // longer arrays (stack VLA sizes): lengths 8..64 step, single pattern each
        std::set<int> lens = {8, 9, 16, 33, 64, 100, 257, 1000, 4099, 16384, 16385, 20001, 32769, 40002, 65537};
        for (u64 L : culist(args.kv, "lits"))
            for (u64 m : {1ULL, 2ULL, 3ULL})
                for (long long d : {-1LL, 0LL, 1LL}) { long long x = (long long)(L * m) + d; if (x >= 7 && x <= 140000) lens.insert((int)x); }
        for (int n : lens)
        {
            chk_batch(gen_array((size_t)n), ev, "gen=1");
            cnt++;
        }
        for (int n = 1; n <= 40; n++) { chk_batch_placed(gen_array((size_t)n), ev); cnt += 24; }
        for (int n : {64, 100, 257, 1000, 4099}) { chk_batch_placed(gen_array((size_t)n), ev); cnt += 24; }
        rep().stat("batchInverse_placements", 45 * 24);
        // memory caps: allocations of more than n/div elements fail
        for (size_t n : {(size_t)2, (size_t)3, (size_t)5, (size_t)7, (size_t)9, (size_t)33, (size_t)64, (size_t)1001, (size_t)4099})
            for (int div : {1, 2, 3, 4, 8}) { chk_batch_memcap(n, div, ev); cnt++; }
        rep().stat("batchInverse_memory_caps", 45);
        ev_total += ev;
        states += cnt;
        rep().sample("batchInverse", fmt("\"w\":%u,\"what\":\"every array of length 1..%d over a 6-element alphabet of non-zero elements (%lld arrays) + lengths 8,9,16,33,64,100,257,1000,4099,16384,16385,20001,32769,40002,65537; also in place\"", W, L, cnt), 1);
    }
    for (auto &e : ELS) if (e.c[0] >= PR || e.c[1] >= PR || e.c[2] >= PR) nontriv++;
    rep().stat("states", states);
    rep().stat(fmt("states_w%u", W), states);
    rep().stat("transitions", ev_total);
    rep().stat("evaluations", ev_total);
    rep().stat("distinct_nontrivial", nontriv * (long long)ne);
    if (W == 32) rep().stat("traces_validated_against_impl", ev_total);
    rep().flush();
    return 0;
}
