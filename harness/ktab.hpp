// Kernel table shared between kernels_tu.cpp (library side) and the harness (oracle side).
#pragma once
#include <stdint.h>
enum KSpec
{
    S_SHIFT,        // o = a xor msb
    S_CANON,        // o = a mod p, canonical
    S_CANON_S,      // input shifted: unshift(o) = unshift(a) mod p, canonical
    S_ADD,          // o == a + b (mod p), all a, b
    S_ADD_A_SC,     // pre: a canonical, passed shifted; o == a + b
    S_ADD_S_BSMALL, // pre: b <= p-1; a passed shifted; unshift(o) == a + b
    S_ADD_BSMALL,   // pre: b <= p-1; o == a + b
    S_SUB,          // o == a - b
    S_SUB_S_BSMALL, // pre: b <= p-1; a passed shifted; unshift(o) == a - b
    S_SUB_BC,       // pre: b canonical; o == a - b
    S_MUL,          // o == a*b
    S_MUL8,         // pre: b < min(2^8, 2^w); o == a*b
    S_MUL128,       // (o1,o2) = exact double-width product
    S_MUL72,        // pre: b < min(2^8,2^w); (o1,o2) exact product
    S_RED128,       // inputs (c_h, c_l): o == c_h*2^2w + c_l (mod p)
    S_RED96,        // pre: c_h < 2^w
    S_SQ,           // o == a*a
    S_SQ128,        // exact square
};
struct KEntry
{
    const char *name;
    int lanes, nin, nout;
    KSpec spec;
    void (*fn)(const uint64_t *a, const uint64_t *b, uint64_t *o1, uint64_t *o2);
};
struct KTab
{
    const KEntry *e;
    int n;
    unsigned width;   // half-word width w
    int is_model;     // 1 when compiled against the software intrinsics model
    void (*sig_reset)();
    uint64_t (*sig_get)(int lane);
};
