// C20 (arithmetic half): the device field type gl64_t executed on the host.
//
// "gl64_host.hpp" is generated on every run by engine/ptxw/cuh2host.py from the text of
// src/gl64_t.cuh: each asm statement is replaced by calls of the PTX-subset semantics in
// engine/ptxw/ptxw.hpp, the integer types become width-parametric.  This file is compiled
//   -DPTXW_W=32|8|4  x  -D__CUDA_ARCH__=700|600  [x -DGL64_PARTIALLY_REDUCED]
// and enumerates
//   PTXW_W < 32 : ALL operand tuples of every operation at word width w (p_w = 2^2w-2^w+1)
//                 (w=8: all pairs for += -= * ; the wrappers sharing those bodies on all x boundary set)
//   PTXW_W = 32 : all ordered pairs over the boundary alphabet + products hitting [p,2^64)
// oracle: unsigned __int128 arithmetic modulo p_w.  Result must be canonical (< p_w) for every
// public operation of the fully reduced configuration.
#include "vcommon.hpp"
#include "gl64_host.hpp"
#include <omp.h>

using namespace vc;

static const unsigned W = PTXW_W;
static const int ARCH = __CUDA_ARCH__;
static constexpr u64 PR = (W == 32) ? 0xFFFFFFFF00000001ULL : ((1ULL << ((2 * W) % 64)) - (1ULL << W) + 1);   // p_w = 2^2w - 2^w + 1
static constexpr u64 MASK = (W == 32) ? ~0ULL : ((1ULL << ((2 * W) % 64)) - 1);
static constexpr u64 WMASK = (W == 32) ? 0xFFFFFFFFULL : ((1ULL << W) - 1);
// oracle arithmetic: plain % on unsigned __int128 (on u64 when everything fits, w < 32: same values, faster)
struct Oracle
{
    static inline u64 red(u128 x) { return (W < 32) ? (u64)x % PR : (u64)(x % PR); }
    static inline u64 add(u64 a, u64 b) { return red((u128)a + b); }
    static inline u64 sub(u64 a, u64 b) { return red((u128)(a % PR) + PR - (b % PR)); }
    static inline u64 mul(u64 a, u64 b) { return red((u128)(a % PR) * (b % PR)); }
    static inline u64 neg(u64 a) { return (PR - a % PR) % PR; }
    static inline u64 pow(u64 a, u64 e)
    {
        u64 r = 1 % PR, b = a % PR;
        while (e) { if (e & 1) r = mul(r, b); b = mul(b, b); e >>= 1; }
        return r;
    }
};
static const Oracle F;
#ifdef GL64_PARTIALLY_REDUCED
static const bool PRCFG = true;
static const char *CFG = "pr";
#else
static const bool PRCFG = false;
static const char *CFG = "fr";
#endif
static const u64 E_RECIP = 0xFFFFFFFEFFFFFFFFULL;  // exponent computed by reciprocal()'s chain (= p-2 at 64 bits; checked below)
static const u64 E_HEPTA = 0x92492491B6DB6DB7ULL;  // 7^-1 mod (p-1) at 64 bits (checked below)

static inline gl64_t G(u64 x) { gl64_t g; g.set_val(ptxw_u64(x)); return g; }
static inline u64 V(const gl64_t &g) { return ptx::rawof(g.get_val()); }

// ------------------------------------------------------------------------------- operations
enum Kind { K_PAIR, K_UN, K_WORD, K_SHIFT, K_POWU, K_POWI };
enum DomK { CANON, ANY };
struct OpDesc
{
    const char *name;
    Kind kind;
    DomK dom;        // domain of the field operands in the fully reduced configuration
    bool canon_out;  // result must be the canonical representative
    bool heavy;      // enumerated on all pairs even at w=8
    u64 (*run)(u64, u64);
    u64 (*oracle)(u64, u64);
};

static u64 o_add(u64 a, u64 b) { return F.add(a % PR, b % PR); }
static u64 o_sub(u64 a, u64 b) { return F.sub(a, b); }
static u64 o_rsub(u64 a, u64 b) { return F.sub(b, a); }
static u64 o_mul(u64 a, u64 b) { return F.mul(a, b); }
static u64 o_sqr(u64 a, u64) { return F.mul(a, a); }
static u64 o_neg(u64 a, u64) { return F.neg(a); }
static u64 o_id(u64 a, u64) { return a % PR; }
static u64 o_b(u64, u64 b) { return b % PR; }
static u64 o_zero(u64, u64) { return 0; }
static u64 o_recip(u64 a, u64) { return F.pow(a, E_RECIP); }
static u64 o_div(u64 a, u64 b) { return F.mul(a, F.pow(b, E_RECIP)); }
static u64 o_hepta(u64 a, u64) { return F.pow(a, E_HEPTA); }
static u64 o_shl(u64 a, u64 l) { return F.mul(a, F.pow(2, l)); }
static u64 o_shr(u64 a, u64 r) { return F.mul(a, F.pow((PR + 1) / 2, r)); }
static u64 o_pow(u64 a, u64 e) { return F.pow(a, e); }
static u64 o_iszero(u64 a, u64) { return a % PR == 0; }
static u64 o_isone(u64 a, u64) { return a % PR == 1 % PR; }

static u64 r_add_assign(u64 a, u64 b) { gl64_t x = G(a), y = G(b); x += y; return V(x); }
static u64 r_add(u64 a, u64 b) { gl64_t x = G(a), y = G(b); return V(x + y); }
static u64 r_sub_assign(u64 a, u64 b) { gl64_t x = G(a), y = G(b); x -= y; return V(x); }
static u64 r_sub(u64 a, u64 b) { gl64_t x = G(a), y = G(b); return V(x - y); }
static u64 r_mul(u64 a, u64 b) { gl64_t x = G(a), y = G(b); return V(x * y); }
static u64 r_mul_assign(u64 a, u64 b) { gl64_t x = G(a), y = G(b); x *= y; return V(x); }
static u64 r_mul_raw(u64 a, u64 b) { gl64_t x = G(a), y = G(b); x.mul(y); return V(x); }
static u64 r_mul_alias(u64 a, u64) { gl64_t x = G(a); x *= x; return V(x); }
static u64 r_div(u64 a, u64 b) { gl64_t x = G(a), y = G(b); return V(x / y); }
static u64 r_div_assign(u64 a, u64 b) { gl64_t x = G(a), y = G(b); x /= y; return V(x); }
template <int OP> static u64 r_opgpu(u64 a, u64 b)
{
    gl64_t x[1] = {G(a)}, y[1] = {G(b)}, c[1] = {G(0)};
    gl64_t::op_gpu(ptxw_u64(OP), c, x, y);
    return V(c[0]);
}
static u64 r_csel1(u64 a, u64 b) { return V(gl64_t::csel(G(a), G(b), 1)); }
static u64 r_csel0(u64 a, u64 b) { return V(gl64_t::csel(G(a), G(b), 0)); }
static u64 r_cselm(u64 a, u64 b) { return V(gl64_t::csel(G(a), G(b), -2)); }

static u64 r_neg(u64 a, u64) { gl64_t x = G(a); return V(-x); }
static u64 r_cneg1(u64 a, u64) { gl64_t x = G(a); x.cneg(true); return V(x); }
static u64 r_cneg0(u64 a, u64) { gl64_t x = G(a); x.cneg(false); return V(x); }
static u64 r_cnegf1(u64 a, u64) { return V(cneg(G(a), true)); }
static u64 r_sqr(u64 a, u64) { gl64_t x = G(a); x.sqr(); return V(x); }
static u64 r_sqrf(u64 a, u64) { return V(sqr(G(a))); }
static u64 r_recip(u64 a, u64) { return V(G(a).reciprocal()); }
static u64 r_inv(u64 a, u64) { return V(1 / G(a)); }
static u64 r_hepta(u64 a, u64) { return V(G(a).heptaroot()); }
static u64 r_ctor(u64 a, u64) { gl64_t x((ptxw_u64)a); return V(x); }
static u64 r_ctorp(u64 a, u64) { ptxw_u64 t = (ptxw_u64)a; gl64_t x(&t); return V(x); }
static u64 r_conv(u64 a, u64) { gl64_t x = G(a); ptxw_u64 t = (ptxw_u64)x; return ptx::rawof(t); }
static u64 r_store(u64 a, u64) { gl64_t x = G(a); ptxw_u64 t = (ptxw_u64)0; x.store(&t); return ptx::rawof(t); }
static u64 r_reduce(u64 a, u64) { gl64_t x = G(a); x.reduce(); return V(x); }
static u64 r_czero0(u64 a, u64) { return V(czero(G(a), 0)); }
static u64 r_czero1(u64 a, u64) { return V(czero(G(a), 1)); }
static u64 r_iszero(u64 a, u64) { return G(a).is_zero(); }
static u64 r_isone(u64 a, u64) { return G(a).is_one(); }

static u64 r_mulw(u64 a, u64 b) { gl64_t x = G(a); return V(x * (ptxw_u32)b); }
static u64 r_mulw_assign(u64 a, u64 b) { gl64_t x = G(a); x *= (ptxw_u32)b; return V(x); }
static u64 r_mulw_raw(u64 a, u64 b) { gl64_t x = G(a); x.mul((ptxw_u32)b); return V(x); }

static u64 r_shl(u64 a, u64 l) { gl64_t x = G(a); x <<= (unsigned)l; return V(x); }
static u64 r_shlf(u64 a, u64 l) { return V(G(a) << (unsigned)l); }
static u64 r_shr(u64 a, u64 l) { gl64_t x = G(a); x >>= (unsigned)l; return V(x); }
static u64 r_shrf(u64 a, u64 l) { return V(G(a) >> (unsigned)l); }
static u64 r_powu(u64 a, u64 e) { gl64_t x = G(a); x ^= (uint32_t)e; return V(x); }
static u64 r_powuf(u64 a, u64 e) { return V(G(a) ^ (uint32_t)e); }
static u64 r_powuc(u64 a, u64 e) { gl64_t x = G(a); return V(x((uint32_t)e)); }
static u64 r_powi(u64 a, u64 e) { gl64_t x = G(a); x ^= (int)e; return V(x); }
static u64 r_powif(u64 a, u64 e) { return V(G(a) ^ (int)e); }

static const OpDesc OPS[] = {
    // name            kind     dom    canon  heavy  run            oracle
    {"add_assign", K_PAIR, CANON, true, true, r_add_assign, o_add},
    {"sub_assign", K_PAIR, CANON, true, true, r_sub_assign, o_sub},
    {"mul", K_PAIR, ANY, true, true, r_mul, o_mul},   // either multiplicand may be partially reduced (source comment l.35)
    {"add", K_PAIR, CANON, true, false, r_add, o_add},
    {"sub", K_PAIR, CANON, true, false, r_sub, o_sub},
    {"mul_assign", K_PAIR, ANY, true, false, r_mul_assign, o_mul},
    {"mul_raw", K_PAIR, ANY, false, false, r_mul_raw, o_mul},   // private mul(): product before the final reduction
    {"div", K_PAIR, CANON, true, false, r_div, o_div},
    {"div_assign", K_PAIR, CANON, true, false, r_div_assign, o_div},
    {"op_gpu0", K_PAIR, CANON, true, false, r_opgpu<0>, o_add},
    {"op_gpu1", K_PAIR, CANON, true, false, r_opgpu<1>, o_sub},
    {"op_gpu2", K_PAIR, CANON, true, false, r_opgpu<2>, o_mul},
    {"op_gpu3", K_PAIR, CANON, true, false, r_opgpu<3>, o_rsub},
    {"csel1", K_PAIR, CANON, true, false, r_csel1, o_id},
    {"csel0", K_PAIR, CANON, true, false, r_csel0, o_b},
    {"cselm", K_PAIR, CANON, true, false, r_cselm, o_id},
    {"neg", K_UN, CANON, true, false, r_neg, o_neg},
    {"cneg1", K_UN, CANON, true, false, r_cneg1, o_neg},
    {"cneg0", K_UN, CANON, true, false, r_cneg0, o_id},
    {"cneg_friend1", K_UN, CANON, true, false, r_cnegf1, o_neg},
    {"sqr", K_UN, ANY, true, false, r_sqr, o_sqr},
    {"sqr_friend", K_UN, ANY, true, false, r_sqrf, o_sqr},
    {"mul_self_alias", K_UN, ANY, true, false, r_mul_alias, o_sqr},
    {"reciprocal", K_UN, CANON, true, false, r_recip, o_recip},
    {"one_over", K_UN, CANON, true, false, r_inv, o_recip},
    {"heptaroot", K_UN, CANON, true, false, r_hepta, o_hepta},
    {"ctor", K_UN, ANY, true, false, r_ctor, o_id},          // gl64_t(uint64_t): final reduction of any 64-bit value
    {"ctor_ptr", K_UN, ANY, true, false, r_ctorp, o_id},
    {"reduce", K_UN, ANY, true, false, r_reduce, o_id},      // private reduce(): the final conditional subtraction
    {"conv_u64", K_UN, CANON, true, false, r_conv, o_id},
    {"store", K_UN, CANON, true, false, r_store, o_id},
    {"czero0", K_UN, CANON, true, false, r_czero0, o_id},
    {"czero1", K_UN, CANON, true, false, r_czero1, o_zero},
    {"is_zero", K_UN, CANON, true, false, r_iszero, o_iszero},
    {"is_one", K_UN, CANON, true, false, r_isone, o_isone},
    {"mulw", K_WORD, ANY, true, false, r_mulw, o_mul},
    {"mulw_assign", K_WORD, ANY, true, false, r_mulw_assign, o_mul},
    {"mulw_raw", K_WORD, ANY, false, false, r_mulw_raw, o_mul},
    {"shl", K_SHIFT, CANON, true, false, r_shl, o_shl},
    {"shl_friend", K_SHIFT, CANON, true, false, r_shlf, o_shl},
    {"shr", K_SHIFT, CANON, true, false, r_shr, o_shr},
    {"shr_friend", K_SHIFT, CANON, true, false, r_shrf, o_shr},
    {"pow_u32", K_POWU, CANON, true, false, r_powu, o_pow},
    {"pow_u32_friend", K_POWU, CANON, true, false, r_powuf, o_pow},
    {"pow_u32_call", K_POWU, CANON, true, false, r_powuc, o_pow},
    {"pow_int", K_POWI, CANON, true, false, r_powi, o_pow},
    {"pow_int_friend", K_POWI, CANON, true, false, r_powif, o_pow},
};
static const int NOPS = sizeof(OPS) / sizeof(OPS[0]);
// in the partially reduced configuration every operand may be any 64-bit value and results are only
// required to be congruent, except the conversions out of the type
static inline DomK dom_of(const OpDesc &op) { return PRCFG ? ANY : op.dom; }
static inline bool canon_of(const OpDesc &op)
{
    if (!PRCFG) return op.canon_out;
    return op.run == r_conv || op.run == r_store || op.run == r_iszero || op.run == r_isone;
}
static inline bool op_applies(const OpDesc &op)
{
    if (!PRCFG) return true;
    // gl64_t::reduce() is the *input* fix-up there and ctor does not reduce: still congruent, keep them.
    // czero/csel pass representations through: congruent. shr has no fix-up in either configuration.
    return true;
}

// ------------------------------------------------------------------------------- dot products
template <size_t T> static u64 r_dotg(const u64 *a, const u64 *b)
{
    gl64_t x[T], y[T];
    for (size_t i = 0; i < T; i++) { x[i] = G(a[i]); y[i] = G(b[i]); }
    return V(gl64_t::dot_product<T>(x, y));
}
template <size_t T> static u64 r_dotb(const u64 *a, const u64 *b)
{
    gl64_t x[T];
    uint8_t y[T];
    for (size_t i = 0; i < T; i++) { x[i] = G(a[i]); y[i] = (uint8_t)b[i]; }
    return V(gl64_t::dot_product<T>(x, y));
}
static const int DOT_T[] = {1, 2, 3, 4, 8, 12};
static const int MAXT = 12;
typedef u64 (*dotfn)(const u64 *, const u64 *);
static dotfn dot_fn(bool bytes, int T)
{
    switch (T)
    {
    case 1: return bytes ? r_dotb<1> : r_dotg<1>;
    case 2: return bytes ? r_dotb<2> : r_dotg<2>;
    case 3: return bytes ? r_dotb<3> : r_dotg<3>;
    case 4: return bytes ? r_dotb<4> : r_dotg<4>;
    case 8: return bytes ? r_dotb<8> : r_dotg<8>;
    case 12: return bytes ? r_dotb<12> : r_dotg<12>;
    }
    return nullptr;
}
static u64 o_dot(int T, const u64 *a, const u64 *b)
{
    u64 s = 0;
    for (int i = 0; i < T; i++) s = F.add(s, F.mul(a[i], b[i]));
    return s;
}
// number of bits of the byte operand at width w (8 of 32 -> w/4)
static const unsigned BYTEBITS = (W == 32) ? 8 : (W / 4 ? W / 4 : 1);

// ------------------------------------------------------------------------------- bookkeeping
struct SigSet
{
    static const size_t N = 1 << 13;
    std::vector<u64> t;
    size_t n = 0;
    SigSet() : t(N, 0) {}
    void add(u64 s)
    {
        if (s == 0) s = 1;
        size_t h = (size_t)((s * 0x9E3779B97F4A7C15ULL) >> 51) & (N - 1);
        for (size_t k = 0; k < 64; k++)
        {
            u64 &e = t[(h + k) & (N - 1)];
            if (e == s) return;
            if (e == 0) { if (n < N / 2) { e = s; n++; } return; }
        }
    }
};
struct Acc
{
    long long cases = 0, nontriv = 0, viol = 0;
    SigSet sigs;
    bool have_sample = false;
    std::string sample;
};
struct Totals
{
    std::mutex mu;
    long long cases = 0, nontriv = 0, viol = 0, outcomes = 0;
    std::map<std::string, long long> per_op;
};
static Totals tot;

static std::string sigof(const char *what, const char *opname)
{
    return fmt("C20.%s.%s.arch%d.w%u%s", what, opname, ARCH, W, PRCFG ? ".pr" : "");
}
static std::string casestr(const char *opname, u64 a, u64 b)
{
    return fmt("cfg=%s w=%u arch=%d op=%s a=%s b=%s", CFG, W, ARCH, opname, hex(a).c_str(), hex(b).c_str());
}
static std::string dotcase(bool bytes, int T, const u64 *a, const u64 *b)
{
    return fmt("cfg=%s w=%u arch=%d op=%s T=%d a=%s b=%s", CFG, W, ARCH, bytes ? "dotb" : "dotg", T, joinhex(a, T).c_str(), joinhex(b, T).c_str());
}

// one execution; returns true when the case is fine
static inline bool exec_op(const OpDesc &op, u64 a, u64 b, Acc &acc, bool report = true)
{
    ptx::S.reset();
    u64 got = 0;
    bool trapped = false;
    try { got = op.run(a, b); }
    catch (ptx::Trap &) { trapped = true; }
    const bool nt = ptx::S.nontriv, ub = ptx::S.ub;
    const u64 sg = ptx::S.sig;
    acc.cases++;
    acc.nontriv += nt;
    acc.sigs.add(sg);
    u64 ex = op.oracle(a, b);
    bool ok = !trapped && !ub && (canon_of(op) ? got == ex : (got <= MASK && got % PR == ex));
    if (nt && !acc.have_sample)
    {
        acc.have_sample = true;
        acc.sample = fmt("\"w\":%u,\"arch\":%d,\"cfg\":\"%s\",\"op\":\"%s\",\"a\":\"%s\",\"b\":\"%s\",\"result\":\"%s\",\"expected\":\"%s\",\"path_sig\":\"%s\",\"carry_or_predicate_taken\":true",
                         W, ARCH, CFG, op.name, hex(a).c_str(), hex(b).c_str(), hex(got).c_str(), hex(ex).c_str(), hex(sg).c_str());
    }
    if (!ok)
    {
        if (acc.viol++ < 3 && report)
        {
            const char *what = trapped ? "trap" : ub ? "undef" : (got <= MASK && got % PR == ex) ? "noncanonical" : "wrong";
            rep().viol(sigof(what, op.name), casestr(op.name, a, b),
                       trapped ? std::string("trap executed") : ub ? fmt("undefined predicate/carry/register read; got %s expected %s", hex(got).c_str(), hex(ex).c_str())
                                                                   : fmt("got %s expected %s", hex(got).c_str(), hex(ex).c_str()));
        }
    }
    return ok;
}
static inline bool exec_dot(bool bytes, int T, dotfn fn, const u64 *a, const u64 *b, Acc &acc)
{
    ptx::S.reset();
    u64 got = 0;
    bool trapped = false;
    try { got = fn(a, b); }
    catch (ptx::Trap &) { trapped = true; }
    const bool nt = ptx::S.nontriv, ub = ptx::S.ub;
    acc.cases++;
    acc.nontriv += nt;
    acc.sigs.add(ptx::S.sig);
    u64 ex = o_dot(T, a, b);
    bool ok = !trapped && !ub && (PRCFG ? (got <= MASK && got % PR == ex) : got == ex);
    if (nt && !acc.have_sample)
    {
        acc.have_sample = true;
        acc.sample = fmt("\"w\":%u,\"arch\":%d,\"cfg\":\"%s\",\"op\":\"%s\",\"T\":%d,\"a\":\"%s\",\"b\":\"%s\",\"result\":\"%s\",\"carry_or_predicate_taken\":true", W, ARCH, CFG,
                         bytes ? "dotb" : "dotg", T, joinhex(a, T).c_str(), joinhex(b, T).c_str(), hex(got).c_str());
    }
    if (!ok && acc.viol++ < 3)
    {
        const char *what = trapped ? "trap" : ub ? "undef" : (got <= MASK && got % PR == ex) ? "noncanonical" : "wrong";
        rep().viol(sigof(what, bytes ? "dotb" : "dotg"), dotcase(bytes, T, a, b), fmt("got %s expected %s", hex(got).c_str(), hex(ex).c_str()));
    }
    return ok;
}
static void merge(const std::string &opname, std::vector<Acc> &accs, const std::string &samplekind)
{
    std::set<u64> sg;
    long long c = 0, nt = 0, v = 0;
    std::string sample;
    for (auto &a : accs)
    {
        c += a.cases; nt += a.nontriv; v += a.viol;
        for (u64 s : a.sigs.t) if (s) sg.insert(s);
        if (sample.empty() && a.have_sample) sample = a.sample;
    }
    std::lock_guard<std::mutex> g(tot.mu);
    tot.cases += c; tot.nontriv += nt; tot.viol += v; tot.outcomes += (long long)sg.size();
    tot.per_op[opname] += c;
    if (!sample.empty()) rep().sample(samplekind, sample, 1);
}

// a set of operand values: either the range [0,n) or an explicit list
struct Dom
{
    bool range;
    u64 n;
    std::vector<u64> v;
    static Dom R(u64 n) { Dom d; d.range = true; d.n = n; return d; }
    static Dom L(const std::vector<u64> &v) { Dom d; d.range = false; d.n = v.size(); d.v = v; return d; }
    inline u64 at(u64 i) const { return range ? i : v[i]; }
    Dom canon_only() const
    {
        if (range) return R(std::min(n, PR));
        std::vector<u64> w;
        for (u64 x : v) if (x < PR) w.push_back(x);
        return L(w);
    }
};
static void sweep(const OpDesc &op, const Dom &A, const Dom &B, const std::string &tag)
{
    int nth = omp_get_max_threads();
    std::vector<Acc> accs(nth);
#pragma omp parallel
    {
        Acc &acc = accs[omp_get_thread_num()];
#pragma omp for schedule(dynamic, 8)
        for (u64 i = 0; i < A.n; i++)
        {
            u64 a = A.at(i);
            for (u64 j = 0; j < B.n; j++) exec_op(op, a, B.at(j), acc);
        }
    }
    merge(op.name, accs, tag + "-" + op.name);
}

// ------------------------------------------------------------------------------- operand sets
static std::vector<u64> uniq(std::vector<u64> v)
{
    for (auto &x : v) x &= MASK;
    std::sort(v.begin(), v.end());
    v.erase(std::unique(v.begin(), v.end()), v.end());
    return v;
}
// boundary values at the current width (also meaningful at 64 bits)
static std::vector<u64> bset()
{
    const u64 H = WMASK;  // 2^w - 1
    std::vector<u64> v = {0, 1, 2, 3, 7, H - 1, H, H + 1, H + 2, 2 * H, 2 * H + 1, 2 * H + 2,
                          PR - 3, PR - 2, PR - 1, PR, PR + 1, PR + 2, MASK, MASK - 1, MASK - 2, MASK - H, MASK - H - 1, MASK - H + 1,
                          (PR - 1) / 2, (PR + 1) / 2, (PR - 1) / 2 - 1, (PR + 1) / 2 + 1, (MASK >> 1), (MASK >> 1) + 1, (MASK >> 1) + 2,
                          0x5555555555555555ULL & MASK, 0xAAAAAAAAAAAAAAAAULL & MASK, 0x3333333333333333ULL & MASK,
                          (H << W) & MASK, ((H - 1) << W) & MASK, (((H - 1) << W) | H) & MASK, (((H - 1) << W) | 1) & MASK,
                          (H >> 1) << W, ((H >> 1) << W) | H, ((H >> 1) + 1) << W, (1ULL << W) | 1, H * H & MASK, (PR - H) & MASK};
    return uniq(v);
}
static std::vector<u64> take_canon(const std::vector<u64> &v)
{
    std::vector<u64> w;
    for (u64 x : v) if (x < PR) w.push_back(x);
    return w;
}
static std::vector<u64> tiny(size_t n)  // the n most extreme canonical values
{
    std::vector<u64> all = {0, PR - 1, 1, WMASK, PR - 2, WMASK + 1, (PR - 1) / 2, WMASK << (W - 1), 2, PR - WMASK, (PR + 1) / 2, 3};
    std::vector<u64> w;
    for (u64 x : all)
    {
        x &= MASK;
        if (x < PR && std::find(w.begin(), w.end(), x) == w.end() && w.size() < n) w.push_back(x);
    }
    return w;
}
static std::vector<u64> shift_counts() { std::vector<u64> v; for (u64 l = 0; l <= 2 * W + 6; l++) v.push_back(l); return v; }
static std::vector<u64> pow_u_exps(bool thorough)
{
    std::vector<u64> v;
    u64 lim = (W == 4) ? 260 : (W == 32 ? (thorough ? 70 : 20) : (thorough ? 300 : 70));
    for (u64 e = 0; e < lim; e++) v.push_back(e);
    u64 ex[] = {255, 256, 257, 0xFFFF, 0x10000, 0x10001, PR - 2, PR - 1, PR, PR + 1, 0x7FFFFFFF, 0x80000000ULL, 0x80000001ULL, 0xFFFFFFFEULL, 0xFFFFFFFFULL, 0xAAAAAAAAULL, 0x55555555ULL};
    for (u64 e : ex) v.push_back(e & 0xFFFFFFFFULL);
    std::sort(v.begin(), v.end());
    v.erase(std::unique(v.begin(), v.end()), v.end());
    return v;
}
static std::vector<u64> pow_i_exps(bool thorough)
{
    std::vector<u64> v;
    for (u64 e = 2; e < (thorough ? 70u : 34u); e++) v.push_back(e);
    u64 ex[] = {127, 128, 129, 255, 256, 0xFFFF, 0x10000, 0x7FFFFFFE, 0x7FFFFFFF, 0x55555555, 0x2AAAAAAA};
    for (u64 e : ex) v.push_back(e);
    return v;
}
static std::vector<u64> byte_vals()
{
    std::vector<u64> v;
    if (BYTEBITS <= 2) { for (u64 x = 0; x < (1ULL << BYTEBITS); x++) v.push_back(x); }
    else v = {0, 1, 2, 127, 128, 254, 255};
    return v;
}

// ------------------------------------------------------------------------------- dot product sweeps
// tuples: even positions hold (a,b) from P1, odd positions (c,d) from P2 (T=1: P1 only)
static void sweep_dot(bool bytes, int T, const Dom &A1, const Dom &B1, const Dom &A2, const Dom &B2, const std::string &tag)
{
    dotfn fn = dot_fn(bytes, T);
    int nth = omp_get_max_threads();
    std::vector<Acc> accs(nth);
    const u64 n2 = (T == 1) ? 1 : A2.n * B2.n;
#pragma omp parallel
    {
        Acc &acc = accs[omp_get_thread_num()];
        u64 a[MAXT], b[MAXT];
#pragma omp for schedule(dynamic, 4)
        for (u64 i = 0; i < A1.n; i++)
            for (u64 j = 0; j < B1.n; j++)
                for (u64 k = 0; k < n2; k++)
                {
                    u64 c = (T == 1) ? 0 : A2.at(k / B2.n), d = (T == 1) ? 0 : B2.at(k % B2.n);
                    for (int t = 0; t < T; t++) { a[t] = (t & 1) ? c : A1.at(i); b[t] = (t & 1) ? d : B1.at(j); }
                    exec_dot(bytes, T, fn, a, b, acc);
                }
    }
    merge(fmt("%s<%d>", bytes ? "dotb" : "dotg", T), accs, tag + (bytes ? "-dotb" : "-dotg"));
}
// all tuples over a small set (T <= 4)
static void sweep_dot_small(bool bytes, int T, const std::vector<u64> &SA, const std::vector<u64> &SB, const std::string &tag)
{
    dotfn fn = dot_fn(bytes, T);
    u64 na = 1, nb = 1;
    for (int t = 0; t < T; t++) { na *= SA.size(); nb *= SB.size(); }
    int nth = omp_get_max_threads();
    std::vector<Acc> accs(nth);
#pragma omp parallel
    {
        Acc &acc = accs[omp_get_thread_num()];
        u64 a[MAXT], b[MAXT];
#pragma omp for schedule(dynamic, 4)
        for (u64 i = 0; i < na; i++)
        {
            u64 x = i;
            for (int t = 0; t < T; t++) { a[t] = SA[x % SA.size()]; x /= SA.size(); }
            for (u64 j = 0; j < nb; j++)
            {
                u64 y = j;
                for (int t = 0; t < T; t++) { b[t] = SB[y % SB.size()]; y /= SB.size(); }
                exec_dot(bytes, T, fn, a, b, acc);
            }
        }
    }
    merge(fmt("%s<%d>", bytes ? "dotb" : "dotg", T), accs, tag + (bytes ? "-dotb-small" : "-dotg-small"));
}

// ------------------------------------------------------------------------------- replay of one case
static int run_one(const std::string &cs_)
{
    auto m = parse_case(cs_);
    if (cu(m, "w", 32) != W || (int)cu(m, "arch", 0) != ARCH || cs(m, "cfg", "fr") != CFG) { printf("INFO skip other-binary\n"); return 0; }
    std::string on = cs(m, "op");
    Acc acc;
    if (on == "dotg" || on == "dotb")
    {
        int T = (int)cu(m, "T");
        auto a = culist(m, "a"), b = culist(m, "b");
        dotfn fn = dot_fn(on == "dotb", T);
        if (!fn || (int)a.size() != T || (int)b.size() != T) return 2;
        exec_dot(on == "dotb", T, fn, a.data(), b.data(), acc);
    }
    else
    {
        int k = -1;
        for (int i = 0; i < NOPS; i++) if (on == OPS[i].name) k = i;
        if (k < 0) return 2;
        exec_op(OPS[k], cu(m, "a"), cu(m, "b"), acc);
    }
    rep().stat("evaluations", acc.cases);
    rep().flush();
    return 0;
}

static bool selected(const Args &args, const char *name)
{
    if (args.part.empty()) return true;
    return args.part == name;
}

int main(int argc, char **argv)
{
    Args args = parse_args(argc, argv);
    if (!args.one.empty()) return run_one(args.one);
    omp_set_num_threads(args.jobs);
    const bool thorough = args.thorough();
    // the two exponents the oracles rely on, checked here against their defining property at 64 bits
    {
        Mod G64(GP);
        if (E_RECIP != GP - 2 || (u64)(((u128)E_HEPTA * 7) % (GP - 1)) != 1) { fprintf(stderr, "oracle exponent self-check failed\n"); return 4; }
        (void)G64;
    }

    if (W < 32)
    {
        // =========================================================== width-scaled layer: every operand value
        const std::string tag = fmt("w%u-a%d%s", W, ARCH, PRCFG ? "-pr" : "");
        const bool big = (W >= 8);      // 2^32 pairs per operation: only the 'heavy' bodies get all pairs
        const bool bigdot = (W >= 6);   // dot products: tuples over the boundary set instead of all values
        const Dom ALL = Dom::R(1ULL << (2 * W)), CAN = Dom::R(PR), WORDS = Dom::R(1ULL << W), ONE = Dom::R(1);
        const Dom BS_ANY = Dom::L(bset()), BS_CAN = Dom::L(take_canon(bset()));
        for (int k = 0; k < NOPS; k++)
        {
            const OpDesc &op = OPS[k];
            if (!selected(args, op.name) || !op_applies(op)) continue;
            const Dom &D = dom_of(op) == ANY ? ALL : CAN;
            const Dom &BS = dom_of(op) == ANY ? BS_ANY : BS_CAN;
            switch (op.kind)
            {
            case K_PAIR:
            {
                // division = multiplication by a 64-step exponentiation: all pairs only at w=4
                const bool costly = (op.run == r_div || op.run == r_div_assign) && bigdot;
                if ((!big || op.heavy) && !costly) sweep(op, D, D, tag);
                else { sweep(op, D, BS, tag); sweep(op, BS, D, tag); }
                break;
            }
            case K_UN: sweep(op, D, ONE, tag); break;
            case K_WORD: sweep(op, D, WORDS, tag); break;
            case K_SHIFT: sweep(op, D, Dom::L(shift_counts()), tag); break;
            case K_POWU: sweep(op, D, Dom::L(pow_u_exps(thorough)), tag); break;
            case K_POWI: sweep(op, D, Dom::L(pow_i_exps(thorough)), tag); break;
            }
        }
        if (selected(args, "dot"))
        {
            const Dom DC = PRCFG ? ALL : CAN;
            const Dom BS = PRCFG ? BS_ANY : BS_CAN;
            const Dom BYTES = Dom::L(byte_vals());
            const Dom T4 = Dom::L(tiny(4)), T8 = Dom::L(tiny(8));
            for (int T : DOT_T)
            {
                // scaling bound: dot_product<T> keeps the carries of 2T cross products in ONE word (odd[2]), which needs
                // 2T <= 2^w (at 32 bits: T <= 2^31, no bound in practice).  Larger T at small w is outside the model.
                if (2ULL * T > (1ULL << W))
                {
                    rep().uncovered(fmt("dot_product<%d> not run at w=%u arch=%d cfg=%s: 2T > 2^w, its one-word carry accumulator odd[2] would overflow (32-bit analogue: T > 2^31); run at the larger widths", T, W, ARCH, CFG));
                    continue;
                }
                if (T == 1)
                {
                    if (!big) sweep_dot(false, 1, DC, DC, ONE, ONE, tag);   // all pairs (w=6: 16M)
                    else { sweep_dot(false, 1, DC, BS, ONE, ONE, tag); sweep_dot(false, 1, BS, DC, ONE, ONE, tag); }
                    sweep_dot(true, 1, DC, BYTES, ONE, ONE, tag);
                }
                else
                {
                    if (!bigdot && T == 2 && thorough) sweep_dot(false, 2, DC, DC, DC, DC, tag);  // every 4-tuple at w=4
                    else if (!bigdot) sweep_dot(false, T, DC, DC, T8, T8, tag);
                    else sweep_dot(false, T, BS, BS, T8, T8, tag);
                    sweep_dot(true, T, DC, BYTES, bigdot ? T8 : BS, BYTES, tag);
                }
                if (T == 3) { sweep_dot_small(false, 3, tiny(6), tiny(6), tag); sweep_dot_small(true, 3, tiny(6), byte_vals(), tag); }
                if (T == 4) { sweep_dot_small(false, 4, tiny(4), tiny(4), tag); sweep_dot_small(true, 4, tiny(4), byte_vals(), tag); }
            }
        }
        rep().sample(fmt("scaled-summary-%s", tag.c_str()),
                     fmt("\"w\":%u,\"arch\":%d,\"cfg\":\"%s\",\"p_w\":%llu,\"operands\":\"%s\"", W, ARCH, CFG, (unsigned long long)PR,
                         big ? "all pairs of [0,p_w)^2 for += -= and of [0,2^2w)^2 for *; all values x boundary set for the wrappers; all values for unary/word/shift/pow; dot products over boundary tuples"
                         : bigdot ? "all operand tuples of every unary/binary/word/shift/pow operation; dot products: T=1 all pairs, T>1 boundary tuples"
                                  : "all operand tuples of every operation (dot products T>2: alternating tuples)"), 1);
    }
    else
    {
        // =========================================================== full width: boundary alphabet
        const std::string tag = fmt("w64-a%d%s", ARCH, PRCFG ? "-pr" : "");
        std::vector<u64> A = alphabet(thorough && !PRCFG);
        if (args.seed) std::rotate(A.begin(), A.begin() + (args.seed % A.size()), A.end());
        const Dom ALL = Dom::L(A), CAN = ALL.canon_only(), ONE = Dom::R(1);
        std::vector<u64> hw;
        for (uint32_t h : halfwords(thorough)) hw.push_back(h);
        const Dom WORDS = Dom::L(hw);
        // the quick alphabet is used for the expensive (exponentiation-based) operations
        std::vector<u64> Aq = alphabet(false);
        const Dom QALL = Dom::L(Aq), QCAN = QALL.canon_only();
        auto gens = noncanon_generators();
        for (int k = 0; k < NOPS; k++)
        {
            const OpDesc &op = OPS[k];
            if (!selected(args, op.name) || !op_applies(op)) continue;
            const bool any = dom_of(op) == ANY;
            const Dom &D = any ? ALL : CAN;
            const bool costly = (op.run == r_div || op.run == r_div_assign);
            switch (op.kind)
            {
            case K_PAIR:
                if (costly) sweep(op, any ? QALL : QCAN, any ? QALL : QCAN, tag);
                else sweep(op, D, D, tag);
                if (op.oracle == o_mul)
                {
                    // products equal to 2^64-1-delta: the unreduced result lies in [p, 2^64)
                    std::vector<Acc> accs(1);
                    for (auto &g : gens) { exec_op(op, g.first, g.second, accs[0]); exec_op(op, g.second, g.first, accs[0]); }
                    merge(op.name, accs, tag + "-gen-" + op.name);
                }
                break;
            case K_UN: sweep(op, D, ONE, tag); break;
            case K_WORD:
            {
                sweep(op, D, WORDS, tag);
                std::vector<Acc> accs(1);
                for (auto &g : gens) if (g.first <= 0xFFFFFFFFULL) exec_op(op, g.second, g.first, accs[0]);
                merge(op.name, accs, tag + "-gen-" + op.name);
                break;
            }
            case K_SHIFT: sweep(op, D, Dom::L(shift_counts()), tag); break;
            case K_POWU: sweep(op, D, Dom::L(pow_u_exps(thorough)), tag); break;
            case K_POWI: sweep(op, D, Dom::L(pow_i_exps(thorough)), tag); break;
            }
        }
        if (selected(args, "dot"))
        {
            const Dom DQ = PRCFG ? QALL : QCAN;
            const Dom BS = Dom::L(PRCFG ? bset() : take_canon(bset()));
            const Dom BYTES = Dom::L(byte_vals());
            const Dom T8 = Dom::L(tiny(8));
            for (int T : DOT_T)
            {
                if (T == 1) { sweep_dot(false, 1, PRCFG ? ALL : CAN, thorough ? (PRCFG ? ALL : CAN) : DQ, ONE, ONE, tag); sweep_dot(true, 1, PRCFG ? ALL : CAN, BYTES, ONE, ONE, tag); }
                else
                {
                    sweep_dot(false, T, thorough ? DQ : BS, thorough ? DQ : BS, T8, T8, tag);
                    sweep_dot(true, T, DQ, BYTES, T8, BYTES, tag);
                }
                if (T == 3) { sweep_dot_small(false, 3, tiny(6), tiny(6), tag); sweep_dot_small(true, 3, tiny(6), byte_vals(), tag); }
                if (T == 4) { sweep_dot_small(false, 4, tiny(4), tiny(4), tag); sweep_dot_small(true, 4, tiny(4), byte_vals(), tag); }
            }
        }
        rep().sample(fmt("native-summary-%s", tag.c_str()),
                     fmt("\"w\":32,\"arch\":%d,\"cfg\":\"%s\",\"alphabet_size\":%zu,\"canonical\":%llu,\"halfwords\":%zu,\"noncanon_generators\":%zu", ARCH, CFG, A.size(),
                         (unsigned long long)CAN.n, hw.size(), gens.size()), 1);
    }
    for (auto &kv : tot.per_op) printf("INFO cases w=%u arch=%d cfg=%s op=%s n=%lld\n", W, ARCH, CFG, kv.first.c_str(), kv.second);
    rep().stat("states", tot.cases);
    rep().stat(fmt("states_w%u_arch%d%s", W, ARCH, PRCFG ? "_pr" : ""), tot.cases);
    rep().stat("transitions", tot.cases);
    rep().stat("evaluations", tot.cases);
    rep().stat("distinct_nontrivial", tot.nontriv);
    rep().stat("distinct_outcomes", tot.outcomes);
    rep().stat("failing_cases", tot.viol);
    rep().flush();
    return 0;
}
