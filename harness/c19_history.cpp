// C19: a transform object is reusable -- every call returns exactly what a freshly constructed
// object returns for the same arguments, whatever calls preceded it.
//
// Explicit-state breadth-first search over the REAL object.  A state is a call history; it is
// rebuilt by replaying the history on a fresh object (objects are not copyable).  The canonical
// key of a state is read from the object's private fields (-fno-access-control):
//   s, nThreads, extension, hash(roots), hash(powTwoInv), r==NULL, and when r != NULL the
//   domain N it was built for (r_[0] = 1/N identifies it) with hash(r[0..N)), hash(r_[0..N)),
//   plus the process-wide default team size (omp_get_max_threads), which the calls change.
// Every later result is a function of the call's arguments, the tables fixed by the constructor,
// (r, r_) and that global -- so equal keys have equal futures.  From every new key ALL calls of
// the alphabet are applied; per transition: output == fresh object's output (differential) and
// == closed-form oracle; key after the call recorded.  Search ends when no new key appears.
// Replaying a history must reproduce its key (asserted: framework error otherwise).
#include "vcommon.hpp"
#include <gmp.h>
#include "ntt_goldilocks.hpp"
#include "ntt_oracle.hpp"
#include <omp.h>
#include <sstream>
using namespace vc;
using namespace nttor;
typedef Goldilocks::Element E;

struct Call { int mode; u64 n, next, ncols, nphase, nblock; };
static const int M_CR = 3; // the public helper computeR(N): no output, but it rewrites the coset tables an extendPol call relies on
static const char *mn(int mode) { return mode == M_CR ? "computeR" : mname[mode]; }
static std::string callstr(const Call &c)
{
    return fmt("%s(n=%llu,next=%llu,ncols=%llu,nphase=%llu,nblock=%llu)", mn(c.mode), (unsigned long long)c.n, (unsigned long long)c.next, (unsigned long long)c.ncols, (unsigned long long)c.nphase, (unsigned long long)c.nblock);
}
static std::vector<Call> alphabet_calls(u64 D, bool thorough)
{
    std::vector<Call> a;
    std::vector<u64> cols = {1, 3};
    std::vector<u64> phases = {1, 2, 3};
    std::vector<u64> blocks = {1, 2};
    for (u64 n = 1; n <= D; n *= 2)
        for (u64 nc : cols) for (u64 ph : phases) for (u64 bl : blocks)
        {
            a.push_back({M_NTT, n, 0, nc, ph, bl});
            a.push_back({M_INTT, n, 0, nc, ph, bl});
        }
    for (u64 N = 1; N <= D; N *= 2)
        for (u64 e = 1; e <= (thorough ? 4u : 2u); e *= 2)
        {
            if (N * e > 4 * D) continue;
            for (u64 nc : cols) for (u64 ph : phases) for (u64 bl : blocks) a.push_back({M_EXT, N, N * e, nc, ph, bl});
        }
    return a;
}
static u64 fnv(const void *p, size_t n, u64 h = 1469598103934665603ULL)
{
    const unsigned char *b = (const unsigned char *)p;
    for (size_t i = 0; i < n; i++) { h ^= b[i]; h *= 1099511628211ULL; }
    return h;
}
static std::string key_of(NTT_Goldilocks &o)
{
    std::ostringstream k;
    k << "s=" << o.s << ";nT=" << o.nThreads << ";ext=" << o.extension;
    k << ";roots=" << std::hex << fnv(o.roots, sizeof(E) * (1ULL << o.s)) << ";p2i=" << fnv(o.powTwoInv, sizeof(E) * (o.s + 1)) << std::dec;
    if (o.r == NULL) k << ";r=NULL";
    else
    {
        // r_[0] = 1/N
        u64 inv = F.inv(o.r_[0].fe % GP);
        k << ";rN=" << inv;
        if (inv >= 1 && inv <= 4096) k << std::hex << ";r=" << fnv(o.r, sizeof(E) * inv) << ";r_=" << fnv(o.r_, sizeof(E) * inv) << std::dec;
    }
    k << ";omp=" << omp_get_max_threads();
    return k.str();
}
static std::vector<u64> input_for(const Call &c)
{
    std::vector<u64> in(c.n * c.ncols);
    for (u64 j = 0; j < c.n; j++)
        for (u64 cc = 0; cc < c.ncols; cc++)
        {
            u64 v = ((j * 7 + cc * 13 + 1) * 0x9E3779B97F4A7C15ULL);
            if ((j + cc) % 3 == 0) v = ~0ULL - (j + cc);
            in[j * c.ncols + cc] = v;
        }
    return in;
}
// performs the call on object o; returns output matrix (canonical values)
static std::vector<u64> do_call(NTT_Goldilocks &o, const Call &c)
{
    if (c.mode == M_CR) { o.computeR(c.n); return std::vector<u64>(); }
    u64 nout = c.mode == M_EXT ? c.next : c.n;
    std::vector<u64> in = input_for(c);
    GuardArena<E> src(c.n * c.ncols, true), dst(nout * c.ncols, true);
    for (size_t i = 0; i < in.size(); i++) src.p[i].fe = in[i];
    if (c.mode == M_NTT) o.NTT(dst.p, src.p, c.n, c.ncols, NULL, c.nphase, c.nblock);
    else if (c.mode == M_INTT) o.INTT(dst.p, src.p, c.n, c.ncols, NULL, c.nphase, c.nblock);
    else o.extendPol(dst.p, src.p, c.next, c.n, c.ncols, NULL, c.nphase, c.nblock);
    std::vector<u64> out(nout * c.ncols);
    for (size_t i = 0; i < out.size(); i++) out[i] = dst.p[i].fe % GP;
    return out;
}
static std::vector<u64> oracle(const Call &c)
{
    u64 nout = c.mode == M_EXT ? c.next : c.n;
    std::vector<u64> K = kernel(c.mode, c.n, c.next), in = input_for(c), ex(nout * c.ncols);
    for (u64 k = 0; k < nout; k++)
        for (u64 cc = 0; cc < c.ncols; cc++)
        {
            u64 acc = 0;
            for (u64 j = 0; j < c.n; j++) acc = F.add(acc, F.mul(in[j * c.ncols + cc], K[j * nout + k]));
            ex[k * c.ncols + cc] = acc;
        }
    return ex;
}
static std::string histstr(const std::vector<Call> &A, const std::vector<int> &h)
{
    std::string s;
    for (size_t i = 0; i < h.size(); i++) { if (i) s += ","; s += dec(h[i]); }
    return s;
}

struct Cfg { u64 D; unsigned nthreads; int base_omp; int ext = 1; /* third constructor argument */ };

// one transition, run in a child process: replay history, check its key, apply the call, compare
static void transition(const Cfg &cfg, const std::vector<Call> &A, const std::vector<int> &hist, const std::string &expect_key, int ci)
{
    omp_set_num_threads(cfg.base_omp);
    std::string cs_ = fmt("D=%llu nthreads=%u hist=%s call=%d", (unsigned long long)cfg.D, cfg.nthreads, histstr(A, hist).c_str(), ci);
    std::string after;
    {
        NTT_Goldilocks o(cfg.D, cfg.nthreads);
        for (int h : hist) do_call(o, A[h]);
        std::string k0 = key_of(o);
        if (!expect_key.empty() && k0 != expect_key)
        {
            printf("INFO framework_replay_divergence %s got [%s] expected [%s]\n", cs_.c_str(), k0.c_str(), expect_key.c_str());
            rep().stat("framework_replay_divergence");
        }
        const Call &c = A[ci];
        std::vector<u64> got = do_call(o, c);
        after = key_of(o);
        // differential oracle: fresh object, same arguments (in the same process-wide OpenMP state as a fresh run)
        std::vector<u64> fresh;
        {
            NTT_Goldilocks f(cfg.D, cfg.nthreads);
            fresh = do_call(f, c);
        }
        std::vector<u64> ex = oracle(c);
        rep().stat("transitions");
        rep().stat("evaluations");
        const char *cls = hist.empty() ? "fresh" : "after-history";
        if (got != fresh)
        {
            size_t i = 0;
            while (i < got.size() && got[i] == fresh[i]) i++;
            rep().viol(fmt("C19.differs-from-fresh.%s", mname[c.mode]), cs_, fmt("%s: element %zu = %s but a fresh object gives %s; history: %s", callstr(c).c_str(), i, hex(got[i]).c_str(), hex(fresh[i]).c_str(), cls));
        }
        else if (got != ex)
        {
            size_t i = 0;
            while (i < got.size() && got[i] == ex[i]) i++;
            rep().viol(fmt("C19.wrong.%s.%s", mname[c.mode], cls), cs_, fmt("%s: element %zu = %s expected %s", callstr(c).c_str(), i, hex(got[i]).c_str(), hex(ex[i]).c_str()));
        }
    } // destructor runs here (C18 builds this harness with ASan)
    printf("KEY %s\t%s\n", cs_.c_str(), after.c_str());
}


// ---------------------------------------------------------------------------------------------
// "deep" part: ALL call histories up to a depth over a second alphabet of LARGE calls, explored
// WITHOUT state merging (so state that the canonical key does not know about -- a cache added to
// the object, a function-local static -- cannot hide).  Each history is replayed on a fresh object
// and its LAST call is compared with a fresh object's result for the same arguments (shorter
// histories are enumerated too, so every call of every history is checked once).
static u64 g_deepK = 1ULL << 12;
static std::vector<Call> big_calls()
{
    const u64 K = g_deepK;
    return {
        {M_EXT, K, 2 * K, 1, 3, 1}, {M_EXT, 2 * K, 2 * K, 1, 3, 1}, {M_EXT, K, 4 * K, 1, 2, 1}, {M_EXT, 2 * K, 4 * K, 2, 3, 2},
        {M_NTT, 2 * K, 0, 1, 3, 1}, {M_INTT, K, 0, 2, 2, 1},
    };
}
// small calls for the unmerged exploration: extendPol over every N in {1,2,4,8} (so that shrink-then-grow patterns such
// as N = 4, 2, 8 occur), a forward and an inverse transform
static std::vector<Call> small_calls()
{
    return {
        {M_EXT, 1, 2, 1, 3, 1}, {M_EXT, 2, 2, 1, 3, 1}, {M_EXT, 2, 4, 2, 2, 1}, {M_EXT, 4, 4, 1, 3, 1}, {M_EXT, 4, 8, 1, 2, 2},
        {M_EXT, 8, 8, 1, 3, 1}, {M_EXT, 8, 16, 2, 3, 1}, {M_NTT, 8, 0, 1, 3, 1}, {M_INTT, 4, 0, 2, 2, 1},
        {M_CR, 2, 0, 0, 0, 0}, {M_CR, 8, 0, 0, 0, 0},
    };
}
// calls for objects constructed with the third argument (extension > 1: the transform treats the rows from size/extension on as
// zero): sizes below, at and above the extension factor
static std::vector<Call> ext_calls()
{
    return {
        {M_NTT, 1, 0, 1, 3, 1}, {M_NTT, 2, 0, 1, 3, 1}, {M_NTT, 4, 0, 2, 2, 1}, {M_NTT, 8, 0, 1, 3, 1}, {M_NTT, 16, 0, 2, 3, 2},
        {M_INTT, 2, 0, 1, 3, 1}, {M_INTT, 8, 0, 2, 2, 1}, {M_INTT, 16, 0, 1, 3, 1},
    };
}
// extendPol with large blow-up factors (16, 32) next to small ones on the same extended sizes: a helper or a key derived from
// (N_Extended, blow-up) must distinguish all of them
static std::vector<Call> blowup_calls()
{
    return {
        {M_EXT, 1, 16, 1, 3, 1}, {M_EXT, 2, 32, 1, 3, 1}, {M_EXT, 1, 32, 2, 2, 1}, {M_EXT, 32, 32, 1, 3, 1}, {M_EXT, 16, 16, 1, 3, 1},
        {M_EXT, 16, 32, 1, 3, 1}, {M_EXT, 8, 16, 2, 3, 2}, {M_EXT, 4, 32, 1, 2, 1},
    };
}
static std::vector<u64> big_out(NTT_Goldilocks &o, const Call &c) { return do_call(o, c); }
static void deep_history(const Cfg &cfg, const std::vector<Call> &A, const std::vector<int> &hist)
{
    omp_set_num_threads(cfg.base_omp);
    std::string cs_ = fmt("deep=%d D=%llu nthreads=%u hist=%s", cfg.ext > 1 ? 3 : (A.size() == blowup_calls().size() && A[0].next == 16 && A[0].n == 1) ? 5 : A.size() == small_calls().size() ? 2 : 1, (unsigned long long)cfg.D, cfg.nthreads, histstr(A, hist).c_str()) + (cfg.ext > 1 ? fmt(" ext=%d", cfg.ext) : std::string());
    std::vector<u64> got, fresh;
    {
        NTT_Goldilocks o(cfg.D, cfg.nthreads, cfg.ext);
        for (size_t i = 0; i + 1 < hist.size(); i++) do_call(o, A[hist[i]]);
        got = big_out(o, A[hist.back()]);
    }
    {
        NTT_Goldilocks f(cfg.D, cfg.nthreads, cfg.ext);
        fresh = big_out(f, A[hist.back()]);
    }
    rep().stat("transitions");
    rep().stat("evaluations");
    rep().stat("deep_histories");
    if (got != fresh)
    {
        size_t i = 0;
        while (i < got.size() && got[i] == fresh[i]) i++;
        rep().viol(fmt("C19.differs-from-fresh.deep.%s", mn(A[hist.back()].mode)), cs_, fmt("last call %s after %zu earlier calls: element %zu = %s but a fresh object gives %s", callstr(A[hist.back()]).c_str(), hist.size() - 1, i, hex(got[i]).c_str(), hex(fresh[i]).c_str()));
    }
}

// ---- object lifetimes: several transform objects alive at the same time.  Events over three slots (slot 0 and 1: domain 8,
// slot 2: domain 16): new(slot), delete(slot), use(slot) = a forward transform of the slot's full domain compared with the
// closed-form oracle.  Every well-formed event sequence up to a length is executed (new only on an empty slot, delete / use only
// on a live one); after a delete, blocks of the sizes the object had are allocated and overwritten, so that memory an object has
// released does not keep its old contents by luck.  State shared between objects (a table cache, a reference count) shows as a
// wrong transform or as a sanitizer report in the C18 build.
static void lifetime_history(const std::vector<int> &ev)
{
    static const u64 DOM[3] = {8, 8, 16};
    NTT_Goldilocks *obj[3] = {nullptr, nullptr, nullptr};
    std::vector<void *> junk;
    std::string hs;
    for (int e : ev) hs += (hs.empty() ? "" : ",") + std::to_string(e);
    std::string cs_ = "deep=4 D=8 nthreads=2 hist=" + hs;
    for (size_t i = 0; i < ev.size(); i++)
    {
        int kind = ev[i] / 3, slot = ev[i] % 3;
        if (kind == 0) obj[slot] = new NTT_Goldilocks(DOM[slot], 2);
        else if (kind == 1)
        {
            delete obj[slot];
            obj[slot] = nullptr;
            for (size_t k : {(size_t)4, (size_t)5, (size_t)8, (size_t)9, (size_t)16, (size_t)17}) { void *p = malloc(k * 8); memset(p, 0xA5, k * 8); junk.push_back(p); }
        }
        else
        {
            Call c{M_NTT, DOM[slot], 0, 2, 3, 1};
            std::vector<u64> got = do_call(*obj[slot], c), ex = oracle(c);
            rep().stat("transitions");
            rep().stat("evaluations");
            if (got != ex)
            {
                size_t k = 0;
                while (k < got.size() && got[k] == ex[k]) k++;
                rep().viol("C19.wrong.NTT.lifetimes", cs_, fmt("event %zu (use of the object in slot %d, domain %llu): element %zu = %s expected %s", i, slot, (unsigned long long)DOM[slot], k, hex(got[k]).c_str(), hex(ex[k]).c_str()));
                break;
            }
        }
    }
    for (int sl = 0; sl < 3; sl++) delete obj[sl];
    for (void *p : junk) free(p);
    rep().stat("lifetime_histories");
}
static void lifetime_enum(std::vector<std::vector<int>> &out, std::vector<int> &cur, int live, int maxlen)
{
    if (!cur.empty() && cur.back() / 3 == 2) out.push_back(cur); // histories that end in a use
    if ((int)cur.size() == maxlen) return;
    for (int e = 0; e < 9; e++)
    {
        int kind = e / 3, slot = e % 3;
        bool isl = (live >> slot) & 1;
        if ((kind == 0) == isl) continue; // new needs an empty slot, delete / use a live one
        if (kind == 2 && !cur.empty() && cur.back() == e) continue; // the same use twice in a row adds nothing
        cur.push_back(e);
        lifetime_enum(out, cur, kind == 0 ? live | (1 << slot) : kind == 1 ? live & ~(1 << slot) : live, maxlen);
        cur.pop_back();
    }
}

// GMP's allocator belongs to the application (mp_set_memory_functions): here every GMP block carries a 16-byte header, so a block
// that GMP allocated and the library releases with libc free() -- or the reverse -- is an invalid free (glibc aborts, ASan reports it)
static void *gm_alloc(size_t n)
{
    char *p = (char *)malloc(n + 16);
    if (!p) abort();
    memcpy(p, "GMPHDR__", 8);
    memcpy(p + 8, &n, sizeof n);
    return p + 16;
}
static void *gm_realloc(void *q, size_t, size_t n)
{
    char *p = (char *)q - 16;
    if (memcmp(p, "GMPHDR__", 8)) abort();
    p = (char *)realloc(p, n + 16);
    if (!p) abort();
    memcpy(p + 8, &n, sizeof n);
    return p + 16;
}
static void gm_free(void *q, size_t)
{
    char *p = (char *)q - 16;
    if (memcmp(p, "GMPHDR__", 8)) abort();
    free(p);
}

int main(int argc, char **argv)
{
    mp_set_memory_functions(gm_alloc, gm_realloc, gm_free);
    Args args = parse_args(argc, argv);
    const bool th = args.thorough();
    std::vector<Cfg> cfgs = {{8, 1, 4}, {8, 3, 4}};
    if (th) { cfgs.push_back({16, 2, 4}); cfgs.push_back({4, 5, 2}); }
    if (!args.one.empty())
    {
        auto m = parse_case(args.one);
        if (cu(m, "construct", 0))
        {
            Cfg cfg{cu(m, "D"), (unsigned)cu(m, "nthreads"), 4};
            ChildResult r = run_child([&](FILE *f) { omp_set_num_threads(cfg.base_omp); NTT_Goldilocks o(cfg.D, cfg.nthreads); fprintf(f, "ok"); });
            if (r.kind != 0) rep().viol(fmt("C19.%s.constructor", crash_sig(r).c_str()), args.one, "constructing the transform object ended the process: " + err_tail(r));
            rep().flush();
            return 0;
        }
        if (cu(m, "deep", 0) == 4)
        {
            std::vector<int> hist;
            for (u64 x : culist(m, "hist")) hist.push_back((int)x);
            ChildResult r = run_child([&](FILE *f) { dup2(fileno(f), 1); rep().reset(); lifetime_history(hist); rep().flush(); fflush(stdout); }, 120);
            if (r.kind == 0) fwrite(r.out.data(), 1, r.out.size(), stdout);
            else rep().viol(fmt("C19.%s.lifetimes", crash_sig(r).c_str()), args.one, err_tail(r));
            rep().flush();
            return 0;
        }
        if (cu(m, "deep", 0))
        {
            Cfg cfg{cu(m, "D"), (unsigned)cu(m, "nthreads"), 4};
            cfg.ext = (int)cu(m, "ext", 1);
            g_deepK = cfg.D / 2;
            std::vector<Call> A = cu(m, "deep", 0) == 5 ? blowup_calls() : cu(m, "deep", 0) == 3 ? ext_calls() : cu(m, "deep", 0) == 2 ? small_calls() : big_calls();
            std::vector<int> hist;
            for (u64 x : culist(m, "hist")) hist.push_back((int)x);
            ChildResult r = run_child([&](FILE *f) { dup2(fileno(f), 1); rep().reset(); deep_history(cfg, A, hist); rep().flush(); fflush(stdout); }, 300);
            if (r.kind == 0) fwrite(r.out.data(), 1, r.out.size(), stdout);
            else rep().viol(fmt("C19.%s.deep.%s", crash_sig(r).c_str(), mn(A[hist.back()].mode)), args.one, err_tail(r));
            rep().flush();
            return 0;
        }
        Cfg cfg{cu(m, "D"), (unsigned)cu(m, "nthreads"), 4};
        for (auto &c : cfgs) if (c.D == cfg.D && c.nthreads == cfg.nthreads) cfg.base_omp = c.base_omp;
        std::vector<Call> A = alphabet_calls(cfg.D, true);
        std::vector<Call> Aq = alphabet_calls(cfg.D, cu(m, "th", 0));
        std::vector<int> hist;
        for (u64 x : culist(m, "hist")) hist.push_back((int)x);
        int ci = (int)cu(m, "call");
        const std::vector<Call> &AA = cu(m, "th", 0) ? A : Aq;
        ChildResult r = run_child([&](FILE *f) { dup2(fileno(f), 1); rep().reset(); transition(cfg, AA, hist, "", ci); rep().flush(); fflush(stdout); });
        if (r.kind == 0) fwrite(r.out.data(), 1, r.out.size(), stdout);
        else rep().viol(fmt("C19.%s.%s.%s", crash_sig(r).c_str(), mname[AA[ci].mode], hist.empty() ? "fresh" : "after-history"), args.one, err_tail(r));
        rep().flush();
        return 0;
    }
    long long total_states = 0, total_trans = 0, maxdepth_seen = 0, nontriv = 0;
    int depth_cap = th ? 4 : 3;
    for (const Cfg &cfg : cfgs)
    {
        std::vector<Call> A = alphabet_calls(cfg.D, th);
        // BFS
        std::map<std::string, std::vector<int>> seen; // key -> shortest history
        std::vector<std::pair<std::vector<int>, std::string>> frontier;
        // initial key: computed in a child (never run library code in this process)
        {
            ChildResult r = run_child([&](FILE *f) {
                omp_set_num_threads(cfg.base_omp);
                NTT_Goldilocks o(cfg.D, cfg.nthreads);
                fprintf(f, "%s", key_of(o).c_str());
            });
            if (r.kind != 0)
            {
                rep().viol(fmt("C19.%s.constructor", crash_sig(r).c_str()), fmt("construct=1 D=%llu nthreads=%u", (unsigned long long)cfg.D, cfg.nthreads), "constructing the transform object ended the process: " + err_tail(r));
                continue;
            }
            seen[r.out] = {};
            frontier.push_back({{}, r.out});
        }
        int depth = 0;
        while (!frontier.empty() && depth < depth_cap)
        {
            struct T { std::vector<int> hist; std::string key; int ci; };
            std::vector<T> work;
            for (auto &st : frontier) for (int ci = 0; ci < (int)A.size(); ci++) { work.push_back({st.first, st.second, ci}); if (!st.first.empty()) nontriv++; }
            // capture children output
            fflush(stdout);
            int saved = dup(1);
            FILE *tf = tmpfile();
            dup2(fileno(tf), 1);
            isolated_for((long)work.size(), args.jobs, 24, [&](long i) { transition(cfg, A, work[i].hist, work[i].key, work[i].ci); },
                         [&](long i, const ChildResult &r) {
                             std::string cs_ = fmt("D=%llu nthreads=%u hist=%s call=%d th=%d", (unsigned long long)cfg.D, cfg.nthreads, histstr(A, work[i].hist).c_str(), work[i].ci, th ? 1 : 0);
                             rep().viol(fmt("C19.%s.%s.%s", crash_sig(r).c_str(), mname[A[work[i].ci].mode], work[i].hist.empty() ? "fresh" : "after-history"), cs_, err_tail(r));
                         });
            fflush(stdout);
            dup2(saved, 1);
            close(saved);
            rewind(tf);
            std::vector<std::pair<std::vector<int>, std::string>> next;
            char *line = nullptr;
            size_t cap = 0;
            ssize_t len;
            while ((len = getline(&line, &cap, tf)) > 0)
            {
                std::string l(line, len);
                if (l.rfind("KEY ", 0) == 0)
                {
                    size_t tab = l.find('\t');
                    std::string cs_ = l.substr(4, tab - 4), key = l.substr(tab + 1);
                    while (!key.empty() && key.back() == '\n') key.pop_back();
                    auto m = parse_case(cs_);
                    std::vector<int> h;
                    for (u64 x : culist(m, "hist")) h.push_back((int)x);
                    h.push_back((int)cu(m, "call"));
                    if (!seen.count(key)) { seen[key] = h; next.push_back({h, key}); }
                }
                else
                {
                    // add the tier marker to VIOL case strings so that replay picks the same alphabet
                    if (l.rfind("VIOL ", 0) == 0 && l.find(" th=") == std::string::npos)
                    {
                        size_t t1 = l.find('\t'), t2 = l.find('\t', t1 + 1);
                        if (t1 != std::string::npos && t2 != std::string::npos) l.insert(t2, fmt(" th=%d", th ? 1 : 0));
                    }
                    fputs(l.c_str(), stdout);
                }
            }
            free(line);
            fclose(tf);
            total_trans += (long long)work.size();
            depth++;
            frontier = next;
            if (!next.empty()) maxdepth_seen = std::max<long long>(maxdepth_seen, depth);
            printf("INFO bfs D=%llu nthreads=%u depth=%d transitions=%zu new_states=%zu total_states=%zu\n", (unsigned long long)cfg.D, cfg.nthreads, depth, work.size(), next.size(), seen.size());
        }
        if (!frontier.empty())
        {
            printf("INFO bfs D=%llu depth cap %d reached with %zu unexpanded states\n", (unsigned long long)cfg.D, depth_cap, frontier.size());
            rep().stat("depth_cap_hit");
        }
        total_states += (long long)seen.size();
        for (auto &kv : seen)
            rep().sample("state", fmt("\"D\":%llu,\"nthreads\":%u,\"key\":\"%s\",\"reached_by\":\"%s\"", (unsigned long long)cfg.D, cfg.nthreads, kv.first.c_str(), histstr(A, kv.second).c_str()), 6);
    }
    {
        // deep part
        // sizes straddle the largest power-of-two-ish constant of the source in [2^11, 2^16] (default 2^13)
        for (u64 L : culist(args.kv, "lits")) if (L > (1ULL << 13) && L <= (1ULL << 16)) { u64 p2 = 1; while (p2 < L) p2 *= 2; g_deepK = std::max(g_deepK, p2 / 2); }
        Cfg cfg{2 * g_deepK, 4, 4};
        std::vector<Call> A = big_calls();
        int depth = th ? 5 : 4;
        std::vector<std::vector<int>> H;
        std::vector<std::vector<int>> level = {{}};
        for (int d = 1; d <= depth; d++)
        {
            std::vector<std::vector<int>> nx;
            for (auto &h : level) for (int c = 0; c < (int)A.size(); c++) { auto g = h; g.push_back(c); nx.push_back(g); }
            for (auto &h : nx) H.push_back(h);
            level = nx;
        }
        isolated_for((long)H.size(), args.jobs, 8, [&](long i) { deep_history(cfg, A, H[i]); },
                     [&](long i, const ChildResult &r) {
                         rep().viol(fmt("C19.%s.deep.%s", crash_sig(r).c_str(), mn(A[H[i].back()].mode)), fmt("deep=1 D=%llu nthreads=%u hist=%s", (unsigned long long)cfg.D, cfg.nthreads, histstr(A, H[i]).c_str()), err_tail(r));
                     }, 600);
        total_states += (long long)H.size();
        nontriv += (long long)H.size() - (long long)A.size();
        {
            // the same, over the small calls (depth 4: 7380 histories)
            Cfg scfg{8, 3, 4};
            std::vector<Call> SA = small_calls();
            std::vector<std::vector<int>> SH, lvl = {{}};
            for (int d = 1; d <= 4; d++)
            {
                std::vector<std::vector<int>> nx;
                for (auto &h : lvl) for (int c = 0; c < (int)SA.size(); c++) { auto g = h; g.push_back(c); nx.push_back(g); }
                for (auto &h : nx) SH.push_back(h);
                lvl = nx;
            }
            isolated_for((long)SH.size(), args.jobs, 64, [&](long i) { deep_history(scfg, SA, SH[i]); },
                         [&](long i, const ChildResult &r) {
                             rep().viol(fmt("C19.%s.deep.%s", crash_sig(r).c_str(), mn(SA[SH[i].back()].mode)), fmt("deep=2 D=%llu nthreads=%u hist=%s", (unsigned long long)scfg.D, scfg.nthreads, histstr(SA, SH[i]).c_str()), err_tail(r));
                         }, 300);
            total_states += (long long)SH.size();
            nontriv += (long long)SH.size() - (long long)SA.size();
            printf("INFO deep: all %zu histories up to depth 4 over %zu small calls (extendPol N in 1,2,4,8; NTT; INTT), no state merging\n", SH.size(), SA.size());
        }
        {
            // objects constructed with extension 2, 4, 8 (domain 16): all histories up to depth 3 over eight calls
            std::vector<Call> EA = ext_calls();
            std::vector<std::vector<int>> EH, lvl = {{}};
            for (int d = 1; d <= 3; d++)
            {
                std::vector<std::vector<int>> nx;
                for (auto &h : lvl) for (int c = 0; c < (int)EA.size(); c++) { auto g = h; g.push_back(c); nx.push_back(g); }
                for (auto &h : nx) EH.push_back(h);
                lvl = nx;
            }
            for (int ext : {2, 4, 8})
            {
                Cfg ecfg{16, 3, 4};
                ecfg.ext = ext;
                isolated_for((long)EH.size(), args.jobs, 64, [&](long i) { deep_history(ecfg, EA, EH[i]); },
                             [&](long i, const ChildResult &r) {
                                 rep().viol(fmt("C19.%s.deep.%s", crash_sig(r).c_str(), mn(EA[EH[i].back()].mode)), fmt("deep=3 D=16 nthreads=3 hist=%s ext=%d", histstr(EA, EH[i]).c_str(), ext), err_tail(r));
                             }, 300);
                total_states += (long long)EH.size();
                nontriv += (long long)EH.size() - (long long)EA.size();
            }
            printf("INFO deep: all %zu histories up to depth 3 over %zu calls on objects constructed with extension 2, 4, 8\n", EH.size(), EA.size());
        }
        {
            // large blow-up factors: all histories up to depth 3 over eight extendPol calls on an object of domain 32
            std::vector<Call> BA = blowup_calls();
            std::vector<std::vector<int>> BH, lvl = {{}};
            for (int d = 1; d <= 3; d++)
            {
                std::vector<std::vector<int>> nx;
                for (auto &h : lvl) for (int c = 0; c < (int)BA.size(); c++) { auto g = h; g.push_back(c); nx.push_back(g); }
                for (auto &h : nx) BH.push_back(h);
                lvl = nx;
            }
            Cfg bcfg{32, 3, 4};
            isolated_for((long)BH.size(), args.jobs, 64, [&](long i) { deep_history(bcfg, BA, BH[i]); },
                         [&](long i, const ChildResult &r) {
                             rep().viol(fmt("C19.%s.deep.%s", crash_sig(r).c_str(), mn(BA[BH[i].back()].mode)), fmt("deep=5 D=32 nthreads=3 hist=%s", histstr(BA, BH[i]).c_str()), err_tail(r));
                         }, 300);
            total_states += (long long)BH.size();
            nontriv += (long long)BH.size() - (long long)BA.size();
            printf("INFO deep: all %zu histories up to depth 3 over %zu extendPol calls with blow-up factors 1..32\n", BH.size(), BA.size());
        }
        {
            // object lifetimes
            std::vector<std::vector<int>> LH;
            std::vector<int> cur;
            lifetime_enum(LH, cur, 0, th ? 7 : 6);
            isolated_for((long)LH.size(), args.jobs, 256, [&](long i) { lifetime_history(LH[i]); },
                         [&](long i, const ChildResult &r) {
                             std::string hs;
                             for (int e : LH[i]) hs += (hs.empty() ? "" : ",") + std::to_string(e);
                             rep().viol(fmt("C19.%s.lifetimes", crash_sig(r).c_str()), "deep=4 D=8 nthreads=2 hist=" + hs, err_tail(r));
                         }, 300);
            total_states += (long long)LH.size();
            nontriv += (long long)LH.size();
            printf("INFO deep: all %zu well-formed new/delete/use sequences up to length %d over three object slots (domains 8, 8, 16)\n", LH.size(), th ? 7 : 6);
        }
        printf("INFO deep: all %zu histories up to depth %d over %zu large calls (sizes 2^12..2^14), no state merging\n", H.size(), depth, A.size());
        rep().sample("deep-history", "\"history\":\"extendPol(2^13<-2^12), extendPol(2^13<-2^13), extendPol(2^14<-2^12), extendPol(2^14<-2^13,2 cols,2 blocks): last call compared with a fresh object\"", 1);
    }
    rep().stat("states", total_states);
    rep().stat("bfs_transitions", total_trans);
    rep().stat("distinct_outcomes", total_states);
    rep().stat("distinct_nontrivial", nontriv); // transitions taken from a non-initial state
    rep().stat("max_depth", maxdepth_seen);
    rep().flush();
    return 0;
}
