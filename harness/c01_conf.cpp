// C01 conformance + lifting: the asm translation at w=32 (model) must equal the compiled inline asm
// bit for bit on every alphabet pair; every path signature (carry/borrow vector) seen in the
// exhaustive small-width runs must be matched by a 64-bit execution on the compiled code.
#include "vcommon.hpp"
#include <fstream>
using namespace vc;
namespace nat { u64 run_op(int, int, u64, u64); u64 last_sig(); }
namespace mdl { u64 run_op(int, int, u64, u64); u64 last_sig(); }
static const char *opname[] = {"add", "sub", "mul", "square", "neg", "inc", "dec", "mulScalar"};
static bool is_binary(int op) { return op == 0 || op == 1 || op == 2 || op == 7; }
static Mod F(GP);
static u64 expect(int op, u64 a, u64 b)
{
    switch (op)
    {
    case 0: return F.add(a % GP, b % GP);
    case 1: return F.sub(a, b);
    case 2: case 7: return F.mul(a, b);
    case 3: return F.mul(a, a);
    case 4: return F.neg(a);
    case 5: return F.add(a % GP, 1);
    default: return F.sub(a, 1);
    }
}
static std::vector<u64> lift_half(u64 h, unsigned w)
{
    std::vector<u64> c;
    u64 hm = (1ULL << w) - 1;
    h &= hm;
    c.push_back(h);
    c.push_back((h >> (w - 1)) ? (0xFFFFFFFFULL & ~hm) | h : h);
    c.push_back((h << (32 - w)) & 0xFFFFFFFFULL);
    c.push_back(((h << (32 - w)) | ((1ULL << (32 - w)) - 1)) & 0xFFFFFFFFULL);
    u64 r = 0;
    for (unsigned s = 0; s < 32; s += w) r |= h << s;
    c.push_back(r & 0xFFFFFFFFULL);
    std::sort(c.begin(), c.end());
    c.erase(std::unique(c.begin(), c.end()), c.end());
    return c;
}
int main(int argc, char **argv)
{
    Args args = parse_args(argc, argv);
    if (!args.one.empty())
    {
        auto m = parse_case(args.one);
        int op = -1;
        for (int i = 0; i < 8; i++) if (cs(m, "op") == opname[i]) op = i;
        if (op < 0) return 2;
        u64 a = cu(m, "a"), b = cu(m, "b");
        u64 n = nat::run_op(op, 0, a, b), md = mdl::run_op(op, 0, a, b);
        if (n != md) rep().viol(fmt("CONF.asm-model-mismatch.%s", opname[op]), args.one, "native and model differ");
        if (n % GP != expect(op, a, b)) rep().viol(fmt("C01.wrong.%s.w32", opname[op]), args.one, "native result wrong");
        rep().flush();
        return 0;
    }
    std::vector<u64> A = alphabet(args.thorough());
    auto gens = noncanon_generators();
    std::map<std::pair<int, u64>, std::pair<u64, u64>> sig32;
    long long validated = 0;
    for (int op = 0; op < 8; op++)
    {
        auto one = [&](u64 a, u64 b) {
            u64 n = nat::run_op(op, 0, a, b);
            u64 md = mdl::run_op(op, 0, a, b);
            u64 sg = mdl::last_sig();
            if (n != md) rep().viol(fmt("CONF.asm-model-mismatch.%s", opname[op]), fmt("w=32 op=%s form=0 a=%s b=%s", opname[op], hex(a).c_str(), hex(b).c_str()), fmt("native %s model %s", hex(n).c_str(), hex(md).c_str()));
            else validated++;
            sig32.insert({{op, sg}, {a, b}});
        };
        if (is_binary(op)) { for (u64 a : A) for (u64 b : A) one(a, b); for (auto &g : gens) { one(g.first, g.second); one(g.second, g.first); } }
        else for (u64 a : A) one(a, 0);
    }
    long long direct = 0, lifted = 0, unl = 0;
    std::string sf = cs(args.kv, "sigfile");
    if (!sf.empty())
    {
        std::ifstream in(sf);
        std::string line;
        while (std::getline(in, line))
        {
            auto m = parse_case(line);
            unsigned w = (unsigned)cu(m, "w");
            int op = -1;
            for (int i = 0; i < 8; i++) if (cs(m, "op") == opname[i]) op = i;
            if (op < 0 || !w) continue;
            u64 sig = cu(m, "sig"), a = cu(m, "a"), b = cu(m, "b");
            if (sig32.count({op, sig})) { direct++; continue; }
            bool done = false;
            for (u64 x1 : lift_half(a >> w, w)) { for (u64 x0 : lift_half(a, w)) { for (u64 y1 : lift_half(b >> w, w)) { for (u64 y0 : lift_half(b, w))
            {
                u64 A64 = (x1 << 32) | x0, B64 = (y1 << 32) | y0;
                mdl::run_op(op, 0, A64, B64);
                if (mdl::last_sig() != sig) continue;
                u64 n = nat::run_op(op, 0, A64, B64);
                if (n % GP != expect(op, A64, B64)) rep().viol(fmt("C01.wrong.%s.w32", opname[op]), fmt("w=32 op=%s form=0 a=%s b=%s", opname[op], hex(A64).c_str(), hex(B64).c_str()), "lifted trace: native result wrong");
                sig32.insert({{op, sig}, {A64, B64}});
                printf("INFO lifted op=%s sig=%s from w=%u to a=%s b=%s\n", opname[op], hex(sig).c_str(), w, hex(A64).c_str(), hex(B64).c_str());
                lifted++;
                validated++;
                done = true;
                break;
            } if (done) break; } if (done) break; } if (done) break; }
            if (!done) { unl++; rep().uncovered(fmt("scalar path signature not lifted to 64 bits: op=%s sig=%s (w=%u witness a=%s b=%s)", opname[op], hex(sig).c_str(), w, hex(a).c_str(), hex(b).c_str())); }
        }
    }
    rep().stat("traces_validated_against_impl", validated);
    rep().stat("sig64_classes", (long long)sig32.size());
    rep().stat("sig_direct", direct);
    rep().stat("sig_lifted", lifted);
    rep().stat("sig_unlifted", unl);
    rep().sample("conformance", fmt("\"what\":\"asm translation at w=32 vs compiled inline asm, bit for bit, on %zu^2 alphabet pairs + %zu generator pairs per binary op\"", A.size(), gens.size()), 1);
    rep().flush();
    return 0;
}
