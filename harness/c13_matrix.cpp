// C13 / C14: 12-wide dot / sparse / dense matrix kernels (AVX2: one state, AVX-512: two
// interleaved states) return the mathematical product mod p in the documented layout.
//
// Parts (all exhaustive within the stated sets):
//   chain    scaled w=2: every (a0,b0,a1,b1,a2,b2) in [0,16)^6 per lane through spmv/dot
//   chain8   8-bit variants: every state triple x every admitted coefficient triple
//   addchain state = 1 (the multiplier returns the raw coefficient): every triple of
//            representations (m0,m1,m2) through the adder chain
//   colsum   mmult_4x12*: every 4-tuple of row-result representations through the column sums
//   routing  tagged states x unit matrices / dense distinct matrices: every lane and row routed right
//   dev2     native: base states/matrices with <= 2 deviating positions over the boundary alphabet
#include "vcommon.hpp"
#include "mtab.hpp"
#include <omp.h>
using namespace vc;
#ifdef HAVE_NAT
namespace nat { extern const MTab mtab; }
#endif
#ifdef HAVE_MDL
namespace mdl { extern const MTab mtab; }
#endif

static unsigned W;
static u64 PR, MASK;
static u64 B8; // admitted bound for "8-bit" coefficients at this width: 3*(B8-1) < 2^w, B8 <= 256

static u64 mulm(u64 a, u64 b) { return (u64)((u128)(a % PR) * (b % PR) % PR); }
static u64 addm(u64 a, u64 b) { return (u64)(((u128)(a % PR) + (b % PR)) % PR); }

static int coef_len(MKind k) { return k == MK_MMULT ? 144 : k == MK_MMULT4x12 ? 48 : 12; }
static int out_len(const MEntry &e) { return e.kind == MK_DOT ? e.nstates : e.kind == MK_MMULT ? 12 * e.nstates : 4 * e.nstates; }

static void oracle(const MEntry &e, const u64 *st, const u64 *co, u64 *ex)
{
    for (int s = 0; s < e.nstates; s++)
    {
        const u64 *x = st + 12 * s;
        switch (e.kind)
        {
        case MK_SPMV:
            for (int i = 0; i < 4; i++)
            {
                u64 acc = 0;
                for (int j = 0; j < 3; j++) acc = addm(acc, mulm(x[4 * j + i], co[4 * j + i]));
                ex[4 * s + i] = acc;
            }
            break;
        case MK_DOT:
        {
            u64 acc = 0;
            for (int t = 0; t < 12; t++) acc = addm(acc, mulm(x[t], co[t]));
            ex[s] = acc;
            break;
        }
        case MK_MMULT4x12:
            for (int k = 0; k < 4; k++)
            {
                u64 acc = 0;
                for (int t = 0; t < 12; t++) acc = addm(acc, mulm(x[t], co[12 * k + t]));
                ex[4 * s + k] = acc;
            }
            break;
        case MK_MMULT:
            for (int k = 0; k < 12; k++)
            {
                u64 acc = 0;
                for (int t = 0; t < 12; t++) acc = addm(acc, mulm(x[t], co[12 * k + t]));
                ex[12 * s + k] = acc;
            }
            break;
        }
    }
}

static thread_local int g_pl = 0; // placement of the coefficient array (see MTab::set_place)
static std::string casestr(const MEntry &e, const char *side, const u64 *st, const u64 *co)
{
    return fmt("w=%u kernel=%s side=%s state=", W, e.name, side) + joinhex(st, 12 * e.nstates) + " coef=" + joinhex(co, coef_len(e.kind)) + (g_pl ? fmt(" pl=%d", g_pl) : std::string());
}

struct Counters { long long evals = 0, cases = 0, nontriv = 0; };

// runs one call and checks all outputs; returns raw outputs in out
static inline void run_check(const MEntry &e, const char *side, const u64 *st, const u64 *co, u64 *out, Counters &c, const char *part)
{
    u64 ex[24];
    e.fn(st, co, out);
    oracle(e, st, co, ex);
    int n = out_len(e);
    c.evals++;
    bool bad = false;
    for (int i = 0; i < n; i++)
    {
        if (out[i] > MASK || out[i] % PR != ex[i]) bad = true;
        if (out[i] >= PR) c.nontriv++;
    }
    if (bad)
    {
        int i = 0;
        for (; i < n; i++) if (out[i] > MASK || out[i] % PR != ex[i]) break;
        rep().viol(fmt("%s.wrong.%s.w%u", e.nstates == 2 ? "C14" : "C13", e.name, W), casestr(e, side, st, co),
                   fmt("part=%s output[%d]=%s expected %s", part, i, hex(out[i]).c_str(), hex(ex[i]).c_str()));
    }
}

static bool want(const Args &a, const MEntry &e)
{
    std::string fam = cs(a.kv, "family", "all");
    if (fam == "avx2" && e.nstates != 1) return false;
    if (fam == "avx512" && e.nstates != 2) return false;
    if (!a.part.empty() && a.part != e.name) return false;
    return true;
}

// representation alphabet for chains
static std::vector<u64> rep_alphabet(bool full)
{
    std::vector<u64> r;
    if (W <= 4 && full) { for (u64 x = 0; x <= MASK; x++) r.push_back(x); return r; }
    if (W < 32)
    {
        u64 c[] = {0, 1, 2, PR / 2, PR - 2, PR - 1, PR, PR + 1, MASK - 1, MASK, (1ULL << W) - 1, 1ULL << W, (1ULL << W) + 1, MASK - ((1ULL << W) - 1), PR + ((1ULL << W) - 3) % (MASK - PR + 1)};
        for (u64 x : c) r.push_back(x & MASK);
        for (u64 x = PR; x <= MASK && r.size() < 40; x += std::max<u64>(1, (MASK - PR) / 12)) r.push_back(x);
    }
    else
    {
        r = small_alphabet();
        u64 c[] = {GP + 2, GP + 0xFFFFFFFEULL, 0xFFFFFFFFFFFFFFFEULL, GP + 0xFFFFFFFDULL, 0xFFFFFFFF80000000ULL, GP - 2, (GP - 1) / 2, 0xFFFFFFFEFFFFFFFFULL, 3, 0x7FFFFFFFFFFFFFFFULL, 0xFFFFFFFF00000002ULL, 0xFFFFFFFFFFFF0000ULL};
        for (u64 x : c) r.push_back(x);
    }
    std::sort(r.begin(), r.end());
    r.erase(std::unique(r.begin(), r.end()), r.end());
    return r;
}

static void explore(const MTab &T, const char *side, const Args &args)
{
    W = T.width;
    PR = pw(W);
    MASK = (W == 32) ? ~0ULL : ((1ULL << (2 * W)) - 1);
    B8 = 256;
    if (W < 32) { u64 lim = ((1ULL << W) - 1) / 3 + 1; if (lim < B8) B8 = lim; }
    const bool thorough = args.thorough();
    long long tot_evals = 0, tot_cases = 0, tot_nontriv = 0;
    long long preimage_miss = 0;

    for (int ei = 0; ei < T.n; ei++)
    {
        const MEntry &e = T.e[ei];
        if (!want(args, e)) continue;
        Counters tc;
        const int NS = e.nstates;
        // ------------------------------------------------------------ chain (w=2, all 6-tuples)
        if ((e.kind == MK_SPMV || e.kind == MK_DOT) && !e.small8 && W == 2 && !e.alias)
        {
            const u64 N3 = 16 * 16 * 16;
            Counters c;
#pragma omp parallel
            {
                Counters lc;
#pragma omp for schedule(dynamic, 16)
                for (u64 bt = 0; bt < N3; bt += 4)
                {
                    u64 co[12], st[24], out[24];
                    for (int i = 0; i < 4; i++) { u64 t = bt + i; co[i] = t & 15; co[4 + i] = (t >> 4) & 15; co[8 + i] = (t >> 8) & 15; }
                    for (u64 at = 0; at < N3; at += NS)
                    {
                        for (int s = 0; s < NS; s++)
                        {
                            u64 t = (at + s) % N3;
                            for (int i = 0; i < 4; i++) { st[12 * s + i] = t & 15; st[12 * s + 4 + i] = (t >> 4) & 15; st[12 * s + 8 + i] = (t >> 8) & 15; }
                        }
                        run_check(e, side, st, co, out, lc, "chain");
                        lc.cases += 4 * NS;
                    }
                }
#pragma omp critical
                { c.evals += lc.evals; c.cases += lc.cases; c.nontriv += lc.nontriv; }
            }
            tc.evals += c.evals; tc.cases += c.cases; tc.nontriv += c.nontriv;
            rep().sample(fmt("chain-%s", e.name), fmt("\"w\":2,\"kernel\":\"%s\",\"what\":\"every (a0,b0,a1,b1,a2,b2) in [0,16)^6 per lane\",\"lane_cases\":%lld", e.name, c.cases), 1);
        }
        // ------------------------------------------------------------ chain8: 8-bit coefficient variants
        if ((e.kind == MK_SPMV) && e.small8 && W < 32 && !e.alias)
        {
            std::vector<u64> sa;
            bool full = (W == 2) || (W == 4 && thorough);
            sa = rep_alphabet(full);
            // w=4 quick: the first state coefficient still ranges over ALL lane values (carries inside the
            // 72-bit product depend on both halves of a), the other two over the boundary set
            std::vector<u64> sa0 = (W == 4) ? rep_alphabet(true) : sa;
            const size_t n = sa.size();
            // admitted coefficient values: all below B8 for w<=4, a boundary subset above
            std::vector<u64> bv;
            if (W <= 4) for (u64 x = 0; x < B8; x++) bv.push_back(x);
            else { u64 c8[] = {0, 1, 2, 3, B8 / 2, B8 - 2, B8 - 1}; for (u64 x : c8) bv.push_back(x); }
            const u64 nbv = bv.size();
            const u64 nb = nbv * nbv * nbv;
            Counters c;
#pragma omp parallel
            {
                Counters lc;
#pragma omp for schedule(dynamic, 1) collapse(2)
                for (size_t i0 = 0; i0 < sa0.size(); i0++)
                    for (size_t i1 = 0; i1 < n; i1++)
                    {
                        u64 co[12], st[24], out[24];
                        for (size_t i2 = 0; i2 < n; i2 += NS)
                            for (u64 bt = 0; bt < nb; bt += 4)
                            {
                                for (int i = 0; i < 4; i++) { u64 t = (bt + i) % nb; co[i] = bv[t % nbv]; co[4 + i] = bv[(t / nbv) % nbv]; co[8 + i] = bv[t / (nbv * nbv)]; }
                                for (int s = 0; s < NS; s++)
                                    for (int i = 0; i < 4; i++) { st[12 * s + i] = sa0[i0]; st[12 * s + 4 + i] = sa[i1]; st[12 * s + 8 + i] = sa[(i2 + s) % n]; }
                                run_check(e, side, st, co, out, lc, "chain8");
                                lc.cases += 4 * NS;
                            }
                    }
#pragma omp critical
                { c.evals += lc.evals; c.cases += lc.cases; c.nontriv += lc.nontriv; }
            }
            tc.evals += c.evals; tc.cases += c.cases; tc.nontriv += c.nontriv;
            rep().sample(fmt("chain8-%s", e.name), fmt("\"w\":%u,\"kernel\":\"%s\",\"what\":\"state triples over %zu representations x coefficient triples over %llu admitted values below %llu\",\"lane_cases\":%lld", W, e.name, n, (unsigned long long)nbv, (unsigned long long)B8, c.cases), 1);
        }
        // ------------------------------------------------------------ addchain: state=1, coefficients = representations
        if ((e.kind == MK_SPMV || e.kind == MK_DOT) && !e.small8 && !(e.alias && W > 2))
        {
            bool full = (W == 2) || (W == 4);
            std::vector<u64> R = rep_alphabet(full);
            const size_t n = R.size();
            Counters c;
#pragma omp parallel
            {
                Counters lc;
#pragma omp for schedule(dynamic, 1)
                for (size_t i0 = 0; i0 < n; i0++)
                {
                    u64 co[12], st[24], out[24];
                    for (int t = 0; t < 24; t++) st[t] = 1;
                    for (size_t i1 = 0; i1 < n; i1++)
                        for (size_t i2 = 0; i2 < n; i2 += 4)
                        {
                            for (int i = 0; i < 4; i++) { co[i] = R[i0]; co[4 + i] = R[i1]; co[8 + i] = R[(i2 + i) % n]; }
                            run_check(e, side, st, co, out, lc, "addchain");
                            lc.cases += 4;
                        }
                }
#pragma omp critical
                { c.evals += lc.evals; c.cases += lc.cases; c.nontriv += lc.nontriv; }
            }
            tc.evals += c.evals; tc.cases += c.cases; tc.nontriv += c.nontriv;
            rep().sample(fmt("addchain-%s", e.name), fmt("\"w\":%u,\"kernel\":\"%s\",\"what\":\"state=1, all coefficient triples over %zu representations (%s)\",\"lane_cases\":%lld", W, e.name, n, full ? "every value" : "boundary + non-canonical band", c.cases), 1);
        }
        // ------------------------------------------------------------ natively: products landing in [p,2^64) twice/three times in a lane
        if ((e.kind == MK_SPMV || e.kind == MK_DOT) && !e.small8 && W == 32)
        {
            auto gens = noncanon_generators();
            size_t ng = std::min<size_t>(gens.size(), thorough ? 60 : 24);
            Counters c;
            for (size_t g0 = 0; g0 < ng; g0++)
                for (size_t g1 = 0; g1 < ng; g1++)
                    for (size_t g2 = 0; g2 < ng; g2 += 4)
                    {
                        u64 co[12], st[24], out[24];
                        for (int s = 0; s < NS; s++)
                            for (int i = 0; i < 4; i++)
                            {
                                size_t k2 = (g2 + i) % ng;
                                bool sw = (s == 1);
                                st[12 * s + i] = sw ? gens[g0].second : gens[g0].first;
                                st[12 * s + 4 + i] = gens[g1].first;
                                st[12 * s + 8 + i] = gens[k2].first;
                                co[i] = gens[g0].second; co[4 + i] = gens[g1].second; co[8 + i] = gens[k2].second;
                                if (sw) st[12 * s + i] = gens[g0].first; // same coefficient array serves both states
                            }
                        run_check(e, side, st, co, out, c, "generators");
                        c.cases += 4 * NS;
                    }
            tc.evals += c.evals; tc.cases += c.cases; tc.nontriv += c.nontriv;
            rep().sample(fmt("generators-%s", e.name), fmt("\"kernel\":\"%s\",\"what\":\"lane products a*b = 2^64-1-delta exactly (raw product representation in [p,2^64)) in all three addends\",\"example\":{\"a\":\"0x3\",\"b\":\"0x5555555555555555\"},\"lane_cases\":%lld", e.name, c.cases), 1);
        }
        // ------------------------------------------------------------ natively, 8-bit variants: operands whose 72-bit product carries
        // out of the middle 32-bit column: a_h = floor((k*2^32-1)/b), a_l = 2^32-1  (low32(a_h*b) + ((a_l*b)>>32) >= 2^32)
        if (e.small8 && W == 32)
        {
            Counters c;
            std::vector<std::pair<u64, u64>> cy;
            for (u64 b = 2; b < 256; b++)
                for (u64 k : {(u64)1, b / 2, b - 1})
                {
                    if (k == 0) continue;
                    u64 ah = ((k << 32) - 1) / b;
                    cy.push_back({(ah << 32) | 0xFFFFFFFFULL, b});
                    cy.push_back({(ah << 32) | 0xFFFFFFFEULL, b});
                    cy.push_back({((ah + 1) << 32) | 0xFFFFFFFFULL, b});
                }
            // ... and products that straddle a multiple of 2^64 (the point where the high byte of the 72-bit product changes):
            // a = ceil(m*2^64/b) + j and floor(m*2^64/b) - j for m in {1, b/2, b-1}, j in {0,1,2}
            for (u64 b = 2; b < 256; b++)
                for (u64 m : {(u64)1, b / 2, b - 1})
                {
                    if (m == 0) continue;
                    u128 t = ((u128)m << 64);
                    u64 fl = (u64)(t / b), ce = (u64)((t + b - 1) / b);
                    for (u64 j = 0; j < 3; j++) { cy.push_back({ce + j, b}); cy.push_back({fl - j, b}); }
                }
            const int cl = coef_len(e.kind);
            for (size_t g = 0; g < cy.size(); g++)
            {
                u64 st[24], co[144], out[24];
                for (int pos = 0; pos < 12; pos += 5)
                {
                    for (int t = 0; t < 24; t++) st[t] = (t % 3 == 0) ? 0 : cy[(g + t) % cy.size()].first;
                    for (int u = 0; u < cl; u++) co[u] = cy[(g + u) % cy.size()].second;
                    for (int s2 = 0; s2 < NS; s2++) st[12 * s2 + pos] = cy[g].first;
                    for (int u = pos; u < cl; u += 12) co[u] = cy[g].second;
                    run_check(e, side, st, co, out, c, "carry72");
                    c.cases++;
                }
            }
            tc.evals += c.evals; tc.cases += c.cases; tc.nontriv += c.nontriv;
            rep().sample(fmt("carry72-%s", e.name), fmt("\"kernel\":\"%s\",\"what\":\"8-bit coefficients b in [2,256) with states a = (floor((k*2^32-1)/b)<<32)|0xFFFFFFFF: the 72-bit product carries out of its middle column\",\"example\":{\"a\":\"0x55555555ffffffff\",\"b\":3},\"cases\":%lld", e.name, c.cases), 1);
        }
        // ------------------------------------------------------------ colsum
        if (e.kind == MK_MMULT4x12 && !(e.alias && W > 2))
        {
            bool full = (W == 2) || (W == 4 && thorough && !e.small8);
            std::vector<u64> R = rep_alphabet(full);
            if (W == 4 && !full && thorough) { R = rep_alphabet(false); }
            const size_t n = R.size();
            Counters c;
            long long miss = 0;
#pragma omp parallel
            {
                Counters lc;
                long long lmiss = 0;
#pragma omp for schedule(dynamic, 1)
                for (size_t i0 = 0; i0 < n; i0++)
                {
                    u64 co[48], st[24], out[24];
                    for (size_t i1 = 0; i1 < n; i1++)
                        for (size_t i2 = 0; i2 < n; i2++)
                            for (size_t i3 = 0; i3 < n; i3 += (e.small8 ? 1 : 4))
                            {
                                memset(co, 0, sizeof co);
                                if (!e.small8)
                                {
                                    for (int t = 0; t < 24; t++) st[t] = 1;
                                    for (int k = 0; k < 4; k++)
                                    {
                                        co[12 * k + 8 + 0] = R[i0]; co[12 * k + 8 + 1] = R[i1]; co[12 * k + 8 + 2] = R[i2]; co[12 * k + 8 + 3] = R[(i3 + k) % n];
                                    }
                                }
                                else
                                {
                                    for (int t = 0; t < 24; t++) st[t] = 0;
                                    for (int s = 0; s < NS; s++) { st[12 * s + 8] = R[i0]; st[12 * s + 9] = R[i1]; st[12 * s + 10] = R[i2]; st[12 * s + 11] = R[(i3 + s) % n]; }
                                    for (int k = 0; k < 4; k++) for (int i = 0; i < 4; i++) co[12 * k + 8 + i] = 1;
                                }
                                run_check(e, side, st, co, out, lc, "colsum");
                                lc.cases += e.small8 ? NS : 4;
                            }
                }
#pragma omp critical
                { c.evals += lc.evals; c.cases += lc.cases; c.nontriv += lc.nontriv; miss += lmiss; }
            }
            tc.evals += c.evals; tc.cases += c.cases; tc.nontriv += c.nontriv;
            preimage_miss += miss;
            rep().sample(fmt("colsum-%s", e.name), fmt("\"w\":%u,\"kernel\":\"%s\",\"what\":\"all 4-tuples of row-result representations over %zu values fed to the column sums\",\"tuples\":%lld", W, e.name, n, c.cases), 1);
        }
        // ------------------------------------------------------------ uniform: every state word = s, every coefficient = v, for all (s, v) over the
        // representation alphabet (all lane values at w <= 4): the three blocks of a lane carry the same large product at once
        if (!e.alias)
        {
            Counters c;
            std::vector<u64> SV = (W <= 4) ? rep_alphabet(true) : (W == 32 ? alphabet(false) : rep_alphabet(false));
            std::vector<u64> CV;
            for (u64 v : SV) if (!e.small8 || v < B8) CV.push_back(v);
            if (W == 32 && e.small8) { CV.clear(); for (u64 v = 0; v < B8; v++) CV.push_back(v); }
            const int cl = coef_len(e.kind);
            const long ns = (long)SV.size(), nc = (long)CV.size();
#pragma omp parallel
            {
                Counters lc;
                u64 st[24], co[144], out[24];
#pragma omp for schedule(dynamic, 4)
                for (long i = 0; i < ns; i++)
                    for (long j = 0; j < nc; j++)
                    {
                        for (int t = 0; t < 24; t++) st[t] = SV[i];
                        for (int u = 0; u < cl; u++) co[u] = CV[j];
                        run_check(e, side, st, co, out, lc, "uniform");
                        lc.cases++;
                    }
#pragma omp critical
                { c.evals += lc.evals; c.cases += lc.cases; c.nontriv += lc.nontriv; }
            }
            tc.evals += c.evals; tc.cases += c.cases; tc.nontriv += c.nontriv;
        }
        // ------------------------------------------------------------ routing (and, for the coefficient array, every address modulo 64)
        for (int pl = 0; pl < 8; pl++)
        {
            g_pl = pl;
            T.set_place(pl);
            Counters c;
            u64 st[24], co[144], out[24];
            int cl = coef_len(e.kind);
            // tagged states: distinct non-zero residues per position, different per state
            for (int rot = 0; rot < 12; rot++)
            {
                for (int s = 0; s < NS; s++)
                    for (int t = 0; t < 12; t++) st[12 * s + t] = (u64)(1 + ((t + rot + 5 * s) % 12)) % PR;
                // unit coefficient arrays: one 1, rest 0
                for (int u = 0; u < cl; u++)
                {
                    memset(co, 0, sizeof co);
                    co[u] = 1;
                    run_check(e, side, st, co, out, c, "routing-unit");
                    c.cases++;
                }
                // dense distinct coefficients
                for (int u = 0; u < cl; u++) co[u] = e.small8 ? (u64)((u * 7 + rot) % B8) : (u64)((u * 7 + 3 + rot) % PR);
                run_check(e, side, st, co, out, c, "routing-dense");
                c.cases++;
            }
            tc.evals += c.evals; tc.cases += c.cases; tc.nontriv += c.nontriv;
            g_pl = 0;
            T.set_place(0);
        }
        // ------------------------------------------------------------ dev2 (native and w=8/32 models): <=2 deviations over alphabet
        if (W >= 8 && !(e.alias && W == 8))
        {
            std::vector<u64> A = (W == 32) ? small_alphabet() : rep_alphabet(false);
            if (W == 32)
            {
                auto g = noncanon_generators();
                for (size_t i = 0; i < 6 && i < g.size(); i++) { A.push_back(g[i].first); A.push_back(g[i].second); }
            }
            const int cl = coef_len(e.kind);
            const int npos = 12 * NS + (e.small8 ? 0 : std::min(cl, 24));
            u64 bases_s[][2] = {{0, 0}, {1, 1}, {PR - 1, PR - 1}, {MASK, MASK}, {3, 0x5555555555555555ULL & MASK}};
            Counters c;
            int nb = 5;
#pragma omp parallel
            {
                Counters lc;
#pragma omp for schedule(dynamic, 1) collapse(2)
                for (int bs = 0; bs < nb; bs++)
                    for (int p0 = 0; p0 < npos; p0++)
                    {
                        u64 st[24], co[144], out[24];
                        for (int p1 = p0; p1 < npos; p1++)
                            for (size_t v0 = 0; v0 < A.size(); v0++)
                                for (size_t v1 = 0; v1 < (p1 == p0 ? 1 : A.size()); v1++)
                                {
                                    for (int t = 0; t < 24; t++) st[t] = bases_s[bs][0];
                                    for (int u = 0; u < cl; u++) co[u] = e.small8 ? (u64)((u * 5 + bs) % B8) : bases_s[bs][1];
                                    auto setp = [&](int p, u64 v) { if (p < 12 * NS) st[p] = v; else co[(p - 12 * NS) * (cl / std::min(cl, 24))] = v; };
                                    setp(p0, A[v0]);
                                    if (p1 != p0) setp(p1, A[v1]);
                                    run_check(e, side, st, co, out, lc, "dev2");
                                    lc.cases++;
                                }
                    }
#pragma omp critical
                { c.evals += lc.evals; c.cases += lc.cases; c.nontriv += lc.nontriv; }
            }
            tc.evals += c.evals; tc.cases += c.cases; tc.nontriv += c.nontriv;
            rep().sample(fmt("dev2-%s", e.name), fmt("\"w\":%u,\"kernel\":\"%s\",\"what\":\"5 base patterns, <=2 deviating positions among %d, values over %zu-element alphabet\",\"cases\":%lld", W, e.name, npos, A.size(), c.cases), 1);
        }
        tot_evals += tc.evals;
        tot_cases += tc.cases;
        tot_nontriv += tc.nontriv;
        printf("INFO kernel=%s w=%u calls=%lld cases=%lld noncanonical_outputs=%lld\n", e.name, W, tc.evals, tc.cases, tc.nontriv);
    }
    rep().stat("states", tot_cases);
    rep().stat(fmt("states_w%u%s", W, T.is_model ? "" : "_native"), tot_cases);
    rep().stat("transitions", tot_evals);
    rep().stat("evaluations", tot_evals);
    rep().stat("distinct_nontrivial", tot_nontriv);
    if (preimage_miss) rep().stat("preimage_miss", preimage_miss);
}

static int run_one(const Args &args)
{
    auto m = parse_case(args.one);
    std::string side = cs(m, "side");
    const MTab *T = nullptr;
#ifdef HAVE_MDL
    if (side == "mdl") T = &mdl::mtab;
#endif
#ifdef HAVE_NAT
    if (side == "nat") T = &nat::mtab;
#endif
    if (!T || T->width != cu(m, "w", 32)) { printf("INFO skip side/width not in this binary\n"); return 0; }
    W = T->width;
    PR = pw(W);
    MASK = (W == 32) ? ~0ULL : ((1ULL << (2 * W)) - 1);
    auto st = culist(m, "state"), co = culist(m, "coef");
    for (int i = 0; i < T->n; i++)
        if (cs(m, "kernel") == T->e[i].name)
        {
            st.resize(24);
            co.resize(144);
            u64 out[24];
            Counters c;
            g_pl = (int)cu(m, "pl", 0);
            T->set_place(g_pl);
            run_check(T->e[i], side.c_str(), st.data(), co.data(), out, c, "replay");
        }
    rep().flush();
    return 0;
}

int main(int argc, char **argv)
{
    Args args = parse_args(argc, argv);
    omp_set_num_threads(args.jobs);
    rep().max_per_sig = 2;
    if (!args.one.empty()) return run_one(args);
#ifdef HAVE_MDL
    explore(mdl::mtab, "mdl", args);
#endif
#ifdef HAVE_NAT
    explore(nat::mtab, "nat", args);
#endif
    rep().flush();
    return 0;
}
