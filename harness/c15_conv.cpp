// C15: conversions into the field give the residue of the mathematical integer; conversions out
// give the canonical / centred value; toS32 succeeds exactly on [-2^31, 2^31); predicates depend on
// residue classes only; integer -> field -> integer round trips are the identity on the stated ranges.
//
// Enumerated (native code, oracle = GMP with floor modulus):
//   fromS32/toS32      : ALL 2^32 int32 values (thorough) / every value within 2^12 of INT32_MIN,-1,0,INT32_MAX and +-2^k (quick)
//   raw representations: alphabet A_t united with +-2^12 neighbourhoods of 0, 2^31, p-2^31, (p-1)/2, p, 2^63, 2^64
//   integers as strings / mpz: k*p + r for k in {-2^65,-4..4,2^65} x 40 boundary residues, every radix 2..36
#include "vcommon.hpp"
#include "goldilocks_base_field.hpp"
#include <omp.h>
#include <gmpxx.h>
using namespace vc;
typedef Goldilocks::Element E;
static const mpz_class PZ("18446744069414584321");

static u64 floormod(const mpz_class &z)
{
    mpz_class r;
    mpz_fdiv_r(r.get_mpz_t(), z.get_mpz_t(), PZ.get_mpz_t());
    return (u64)mpz_get_ui(r.get_mpz_t()); // r < p < 2^64: one limb
}
static mpz_class mz(u64 x)
{
    mpz_class r;
    mpz_import(r.get_mpz_t(), 1, 1, 8, 0, 0, &x);
    return r;
}
static mpz_class mzs(int64_t x)
{
    if (x >= 0) return mz((u64)x);
    mpz_class r = mz((u64)(-(x + 1)));
    return -(r + 1);
}

// process-global C++ locale in force while the conversions run: 0 = classic, 1 = a locale whose numpunct facet groups digits
// ("1,000"): text produced by the library must not depend on it
#include <locale>
static int g_locale = 0;
struct GroupingPunct : std::numpunct<char>
{
    char do_thousands_sep() const override { return ','; }
    std::string do_grouping() const override { return "\3"; }
};
static void set_locale(int k)
{
    g_locale = k;
    if (k) std::locale::global(std::locale(std::locale::classic(), new GroupingPunct));
    else std::locale::global(std::locale::classic());
}
static void check_raw(u64 raw, long long &ev)
{
    E e;
    e.fe = raw;
    u64 canon = raw % GP;
    std::string cs_ = fmt("kind=raw raw=%s", hex(raw).c_str()) + (g_locale ? " locale=grouping" : "");
    // toU64
    u64 u = Goldilocks::toU64(e);
    ev++;
    if (u != canon) rep().viol("C15.wrong.toU64", cs_, fmt("got %s expected %s", hex(u).c_str(), hex(canon).c_str()));
    u64 u2;
    Goldilocks::toU64(u2, e);
    if (u2 != canon) rep().viol("C15.wrong.toU64.ref", cs_, "");
    {
        // reference overload with the output aliasing the element's own storage word
        E a;
        a.fe = raw;
        Goldilocks::toU64(a.fe, a);
        ev++;
        if (a.fe != canon) rep().viol("C15.wrong.toU64.alias", cs_, fmt("toU64(e.fe, e) left %s expected %s", hex(a.fe).c_str(), hex(canon).c_str()));
        E b;
        b.fe = raw;
        Goldilocks::toS64((int64_t &)b.fe, b);
        ev++;
        int64_t exs2 = (canon <= (GP - 1) / 2) ? (int64_t)canon : -(int64_t)(GP - canon);
        if ((int64_t)b.fe != exs2) rep().viol("C15.wrong.toS64.alias", cs_, fmt("toS64((int64_t&)e.fe, e) left %lld expected %lld", (long long)(int64_t)b.fe, (long long)exs2));
        E c;
        c.fe = raw;
        Goldilocks::fromU64(c, c.fe);
        if (c.fe % GP != canon) rep().viol("C15.wrong.fromU64.alias", cs_, "");
    }
    // toS64: centred representative
    int64_t s = Goldilocks::toS64(e);
    ev++;
    int64_t exs = (canon <= (GP - 1) / 2) ? (int64_t)canon : -(int64_t)(GP - canon);
    if (s != exs) rep().viol("C15.wrong.toS64", cs_, fmt("got %lld expected %lld", (long long)s, (long long)exs));
    // toS32
    int32_t s32 = 0x5A5A5A5A;
    bool ok = Goldilocks::toS32(s32, e);
    ev++;
    bool exok = (exs >= -2147483648LL && exs <= 2147483647LL);
    if (ok != exok)
        rep().viol(fmt("C15.wrong.toS32.success.%s", exs == -2147483648LL ? "int32min" : "other"), cs_, fmt("returned %d expected %d (centred value %lld)", (int)ok, (int)exok, (long long)exs));
    else if (ok && s32 != (int32_t)exs) rep().viol("C15.wrong.toS32.value", cs_, fmt("got %d expected %lld", s32, (long long)exs));
    // predicates
    ev += 4;
    if (Goldilocks::isZero(e) != (canon == 0)) rep().viol("C15.wrong.isZero", cs_, "");
    if (Goldilocks::isOne(e) != (canon == 1)) rep().viol("C15.wrong.isOne", cs_, "");
    if (Goldilocks::isNegone(e) != (canon == GP - 1)) rep().viol("C15.wrong.isNegone", cs_, "");
    // equality across representations
    if (raw < (1ULL << 32) - 1)
    {
        E f;
        f.fe = raw + GP; // other representation of the same class
        if (!Goldilocks::equal(e, f) || !(e == f)) rep().viol("C15.wrong.equal.same-class", cs_, "x and x+p compare different");
        if (Goldilocks::isZero(f) != (canon == 0) || Goldilocks::isOne(f) != (canon == 1)) rep().viol("C15.wrong.predicate.noncanonical", cs_, "");
    }
    {
        E f;
        f.fe = raw ^ 1; // differs by one: different class unless {p-?}: raw^1 == raw +-1
        bool same = ((raw ^ 1) % GP) == canon;
        if (Goldilocks::equal(e, f) != same) rep().viol("C15.wrong.equal.diff-class", cs_, "");
    }
    // equality against the words at boundary DISTANCES from this one (x +- 1, 2^32-1, 2^32, 2^63, p, ... modulo 2^64): a comparison
    // that works on the difference of the raw words meets every distance at which the residues do or do not coincide
    {
        static const u64 DIST[] = {1, 2, 0xFFFFFFFEULL, 0xFFFFFFFFULL, 0x100000000ULL, 0x100000001ULL, 0x7FFFFFFFFFFFFFFFULL, 0x8000000000000000ULL, GP - 1, GP, GP + 1, 0xFFFFFFFFFFFFFFFFULL};
        for (u64 d : DIST)
            for (int sgn = 0; sgn < 2; sgn++)
            {
                E f;
                f.fe = sgn ? raw - d : raw + d;
                bool same = (f.fe % GP) == canon;
                ev++;
                if (Goldilocks::equal(e, f) != same || (e == f) != same || Goldilocks::equal(f, e) != same)
                {
                    rep().viol("C15.wrong.equal.distance", cs_, fmt("equal(%s, %s) is %s but the residues %s", hex(raw).c_str(), hex(f.fe).c_str(), same ? "false" : "true", same ? "coincide" : "differ"));
                    break;
                }
            }
    }
    // every radix GMP writes (2..62) and the upper-case forms (-2..-36): the text must be what GMP prints for the canonical value
    for (int radix : {37, 50, 62, -16, -36})
    {
        std::string t = Goldilocks::toString(e, radix);
        ev++;
        if (t != mz(canon).get_str(radix)) { rep().viol("C15.wrong.toString.radix", cs_ + fmt(" radix=%d", radix), "text differs from GMP's for the canonical value: " + t.substr(0, 80)); break; }
    }
    // toString in a few radices, round trip through fromString
    for (int radix : {10, 16, 8, 2, 36})
    {
        std::string t = Goldilocks::toString(e, radix);
        ev++;
        // the text must be the canonical value written with the digits of the radix and nothing else
        bool clean = !t.empty();
        for (char ch : t)
        {
            int d = (ch >= '0' && ch <= '9') ? ch - '0' : (ch >= 'a' && ch <= 'z') ? ch - 'a' + 10 : (ch >= 'A' && ch <= 'Z') ? ch - 'A' + 10 : 99;
            if (d >= radix) clean = false;
        }
        if (!clean) { rep().viol("C15.wrong.toString", cs_ + fmt(" radix=%d", radix), "string holds characters that are not digits of the radix: " + t); break; }
        mpz_class back(t, radix);
        if (back != mz(canon)) { rep().viol("C15.wrong.toString", cs_ + fmt(" radix=%d", radix), "string is not the canonical value: " + t); break; }
        E g = Goldilocks::fromString(t, radix);
        if (g.fe % GP != canon) { rep().viol("C15.wrong.fromString.roundtrip", cs_ + fmt(" radix=%d", radix), ""); break; }
        // the reference-output overload with a string the caller has used before (one std::string reused over a sequence of calls):
        // the text is the value's, not the previous contents followed by it
        static std::string reused = "123456789abcdef";
        for (int rep2 = 0; rep2 < 2; rep2++)
        {
            Goldilocks::toString(reused, e, radix);
            ev++;
            if (reused != t) { rep().viol("C15.wrong.toString.reused-string", cs_ + fmt(" radix=%d", radix), "toString(result, e, radix) with a non-empty result on entry gives \"" + reused.substr(0, 80) + "\", the by-value overload \"" + t + "\""); reused = "7"; break; }
        }
    }
    // fromU64 round trip (identity below p)
    E h = Goldilocks::fromU64(raw);
    if (h.fe % GP != canon) rep().viol("C15.wrong.fromU64", cs_, "");
    // fromS64 on the signed reading of raw
    {
        int64_t sv = (int64_t)raw;
        E g = Goldilocks::fromS64(sv);
        ev++;
        u64 ex = floormod(mzs(sv));
        if (g.fe % GP != ex) rep().viol("C15.wrong.fromS64", fmt("kind=s64 v=%lld", (long long)sv), fmt("got %s expected %s", hex(g.fe).c_str(), hex(ex).c_str()));
        // round trip for |v| <= (p-1)/2
        if (sv >= -(int64_t)((GP - 1) / 2) && sv <= (int64_t)((GP - 1) / 2))
            if (Goldilocks::toS64(g) != sv) rep().viol("C15.wrong.roundtrip.S64", fmt("kind=s64 v=%lld", (long long)sv), "");
    }
}

static void check_s32(int32_t v, long long &ev)
{
    E e = Goldilocks::fromS32(v);
    ev++;
    u64 ex = v >= 0 ? (u64)v : GP - (u64)(-(int64_t)v);
    if (e.fe % GP != ex) { rep().viol("C15.wrong.fromS32", fmt("kind=s32 v=%d", v), fmt("got %s expected %s", hex(e.fe).c_str(), hex(ex).c_str())); return; }
    int32_t back = 0x5A5A5A5A;
    bool ok = Goldilocks::toS32(back, e);
    ev++;
    if (!ok) rep().viol(fmt("C15.wrong.roundtrip.S32.rejected.%s", v == INT32_MIN ? "int32min" : "other"), fmt("kind=s32 v=%d", v), "toS32(fromS32(v)) reports failure");
    else if (back != v) rep().viol("C15.wrong.roundtrip.S32.value", fmt("kind=s32 v=%d", v), fmt("got %d", back));
}

static void check_integer(const mpz_class &z, int radix, long long &ev)
{
    u64 ex = floormod(z);
    std::string t = z.get_str(radix);
    std::string cs_ = fmt("kind=int radix=%d z=", radix) + z.get_str(10);
    const char *cls = (z < 0) ? (z < -PZ ? "below-minus-p" : "negative") : "nonneg";
    E a = Goldilocks::fromString(t, radix);
    ev++;
    if (a.fe % GP != ex) rep().viol(fmt("C15.wrong.fromString.%s", cls), cs_, fmt("got %s expected %s", hex(a.fe).c_str(), hex(ex).c_str()));
    E b = Goldilocks::fromScalar(z);
    ev++;
    if (b.fe % GP != ex) rep().viol(fmt("C15.wrong.fromScalar.%s", cls), cs_, fmt("got %s expected %s", hex(b.fe).c_str(), hex(ex).c_str()));
    E r1, r2;
    Goldilocks::fromString(r1, t, radix);
    Goldilocks::fromScalar(r2, z);
    if (r1.fe != a.fe || r2.fe != b.fe) rep().viol("C15.wrong.overload-disagree", cs_, "value-returning and reference overloads differ");
    if (z >= 0 && z < PZ)
    {
        // round trip of the canonical value through toString in this radix
        std::string back = Goldilocks::toString(a, radix);
        if (mpz_class(back, radix) != z) rep().viol("C15.wrong.roundtrip.string", cs_, "toString(fromString(z)) != z: " + back);
    }
}

// one numeral given as text: optional '-', then digits of the radix in either case, leading zeros allowed.  The oracle parses
// the text itself (Horner mod p), independent of GMP's reader.
static void check_string(const std::string &t, int radix, long long &ev)
{
    bool neg = !t.empty() && t[0] == '-';
    u64 v = 0;
    for (size_t i = neg ? 1 : 0; i < t.size(); i++)
    {
        char ch = t[i];
        int d = (ch >= '0' && ch <= '9') ? ch - '0' : (ch >= 'a' && ch <= 'z') ? ch - 'a' + 10 : (ch >= 'A' && ch <= 'Z') ? ch - 'A' + 10 : 99;
        if (d >= radix) return; // not a numeral of this radix: nothing is claimed
        v = (u64)(((u128)v * (u64)radix + (u64)d) % GP);
    }
    if (t.size() == (neg ? 1u : 0u)) return;
    u64 ex = neg ? (GP - v) % GP : v;
    std::string cs_ = fmt("kind=str radix=%d s=%s", radix, t.c_str());
    ev += 2;
    try
    {
        E a = Goldilocks::fromString(t, radix);
        if (a.fe % GP != ex) { rep().viol("C15.wrong.fromString.text", cs_, fmt("got %s expected %s", hex(a.fe).c_str(), hex(ex).c_str())); return; }
        E r1;
        r1.fe = 0x5E5E5E5E5E5E5E5EULL;
        Goldilocks::fromString(r1, t, radix);
        if (r1.fe % GP != ex) rep().viol("C15.wrong.fromString.text", cs_, fmt("reference overload: got %s expected %s", hex(r1.fe).c_str(), hex(ex).c_str()));
    }
    catch (const std::exception &e)
    {
        rep().viol("C15.throws.fromString.text", cs_, std::string("a valid numeral of this radix was rejected: ") + e.what());
    }
}

// the array overload of toString; reports and returns false on a discrepancy
static bool check_array(const E *arr, uint64_t len, int radix)
{
    std::string t = Goldilocks::toString(arr, len, radix), ex, vals;
    for (uint64_t k = 0; k < len; k++) { ex += std::to_string(k) + ": " + mz(arr[k].fe % GP).get_str(radix) + "\n"; vals += (k ? "," : "") + hex(arr[k].fe); }
    if (t == ex) return true;
    rep().viol("C15.wrong.toString.array", fmt("kind=arr radix=%d vals=%s", radix, vals.c_str()), "text differs from the canonical values of the elements: " + t.substr(0, 120));
    return false;
}

static int run_one(const Args &args)
{
    auto m = parse_case(args.one);
    long long ev = 0;
    std::string k = cs(m, "kind");
    if (cs(m, "locale", "") == "grouping") set_locale(1);
    if (k == "raw") check_raw(cu(m, "raw"), ev);
    else if (k == "s32") check_s32((int32_t)strtol(cs(m, "v").c_str(), 0, 10), ev);
    else if (k == "s64") check_raw((u64)strtoll(cs(m, "v").c_str(), 0, 10), ev);
    else if (k == "int") check_integer(mpz_class(cs(m, "z"), 10), (int)cu(m, "radix"), ev);
    else if (k == "str") check_string(cs(m, "s"), (int)cu(m, "radix"), ev);
    else if (k == "arr")
    {
        std::vector<u64> v = culist(m, "vals");
        std::vector<E> a(v.size() + 1);
        for (size_t i = 0; i < v.size(); i++) a[i].fe = v[i];
        check_array(a.data(), v.size(), (int)cu(m, "radix"));
    }
    rep().flush();
    return 0;
}

int main(int argc, char **argv)
{
    Args args = parse_args(argc, argv);
    if (!args.one.empty()) return run_one(args);
    omp_set_num_threads(args.jobs);
    rep().max_per_sig = 2;
    const bool th = args.thorough();
    long long ev_total = 0, states = 0, nontriv = 0;
    // ---------------------------------------------------------------- int32
    if (th)
    {
        long long ev = 0;
        // parallel sweep with a silent predicate; every suspect value is then re-checked sequentially (and reported
        // only if it fails there too: a failure that appears only under concurrent calls is listed as uncovered)
        std::vector<int32_t> suspects;
#pragma omp parallel for schedule(static) reduction(+ : ev)
        for (long long v = INT32_MIN; v <= INT32_MAX; v++)
        {
            E e = Goldilocks::fromS32((int32_t)v);
            u64 ex = v >= 0 ? (u64)v : GP - (u64)(-v);
            int32_t back = 0x5A5A5A5A;
            bool ok = (e.fe % GP == ex) && Goldilocks::toS32(back, e) && back == (int32_t)v;
            ev += 2;
            if (!ok)
            {
#pragma omp critical
                if (suspects.size() < 4096) suspects.push_back((int32_t)v);
            }
        }
        long long before = rep().nviol;
        for (int32_t v : suspects) check_s32(v, ev);
        if (!suspects.empty() && rep().nviol == before)
            rep().uncovered(fmt("%zu int32 values failed the round trip only while other threads were converting too (not reproducible sequentially): re-entrancy is outside C15 and is examined by the free-running ThreadSanitizer pass of C12", suspects.size()));
        ev_total += ev;
        states += 1LL << 32;
        nontriv += 1LL << 31;
        rep().sample("int32", "\"what\":\"all 2^32 int32 values through fromS32 then toS32\"", 1);
    }
    else
    {
        std::set<int32_t> S;
        long long centers[] = {INT32_MIN, -1, 0, INT32_MAX};
        for (long long c : centers)
            for (long long d = -4096; d <= 4096; d++) { long long v = c + d; if (v >= INT32_MIN && v <= INT32_MAX) S.insert((int32_t)v); }
        for (int k = 0; k < 31; k++) for (int d = -2; d <= 2; d++) { long long v = (1LL << k) + d; S.insert((int32_t)v); S.insert((int32_t)-v); }
        long long ev = 0;
        for (int32_t v : S) { check_s32(v, ev); if (v < 0) nontriv++; }
        ev_total += ev;
        states += (long long)S.size();
        rep().sample("int32", fmt("\"what\":\"%zu int32 values: +-4096 around INT32_MIN,-1,0,INT32_MAX and +-2^k+-2\"", S.size()), 1);
    }
    // ---------------------------------------------------------------- raw representations
    {
        std::vector<u64> R = alphabet(th);
        u64 centers[] = {0, 1ULL << 31, GP - (1ULL << 31), (GP - 1) / 2, GP, 1ULL << 63, 0 /* 2^64 wraps: handled by d<0 */, 1ULL << 32, GP + (1ULL << 31)};
        for (u64 c : centers)
            for (long long d = -4096; d <= 4096; d++) R.push_back(c + (u64)d);
        std::sort(R.begin(), R.end());
        R.erase(std::unique(R.begin(), R.end()), R.end());
        long long ev = 0, nt = 0;
        for (size_t i = 0; i < R.size(); i++) { check_raw(R[i], ev); if (R[i] >= GP) nt++; } // sequential: results must not depend on who else is converting
        // the array overload toString(const Element*, size, radix): "i: <canonical value in the radix>\n" per element
        {
            long long na = 0;
            for (size_t i0 = 0; i0 + 8 <= R.size(); i0 += 61)
                for (int radix : {10, 16, 2, 36, 8})
                {
                    E arr[8];
                    for (int k = 0; k < 8; k++) arr[k].fe = R[i0 + k];
                    for (uint64_t len : {(uint64_t)0, (uint64_t)1, (uint64_t)8})
                    {
                        ev++;
                        na++;
                        if (!check_array(arr, len, radix))
                        {
                            i0 = R.size();
                            break;
                        }
                    }
                    if (i0 >= R.size()) break;
                }
            rep().stat("array_toString_calls", na);
        }
        // the same conversions with a digit-grouping global locale installed (as an application that calls std::locale::global does)
        set_locale(1);
        for (size_t i = 0; i < R.size(); i += 3) check_raw(R[i], ev);
        set_locale(0);
        rep().stat("conversions_under_grouping_locale", (long long)((R.size() + 2) / 3));
        ev_total += ev;
        states += (long long)R.size();
        nontriv += nt;
        rep().sample("raw", fmt("\"what\":\"%zu raw 64-bit representations (alphabet + 2^12-neighbourhoods of 0,2^31,p-2^31,(p-1)/2,p,2^63,2^64)\",\"noncanonical\":%lld", R.size(), nt), 1);
    }
    // ---------------------------------------------------------------- integers of any sign and magnitude
    {
        std::vector<mpz_class> ks;
        mpz_class big = mpz_class(1) << 65;
        ks.push_back(-big);
        for (int k = -4; k <= 4; k++) ks.push_back(k);
        ks.push_back(big);
        std::vector<u64> rs = {0, 1, 2, 5, 7, 0xFFFFFFFFULL, 0x100000000ULL, 0x7FFFFFFFULL, 0x80000000ULL, 0x80000001ULL, (GP - 1) / 2, (GP + 1) / 2, GP - 1, GP - 2, GP - 5,
                               GP - 0x80000000ULL, GP - 0x80000001ULL, GP - 0x7FFFFFFFULL, 1ULL << 63, (1ULL << 63) - 1, (1ULL << 63) + 1, 0xFFFFFFFEFFFFFFFFULL, 0xFFFFFFFF00000000ULL,
                               0x123456789ABCDEFULL, 35, 36, 37, 1295, 1296, 0xFFFF, 0x10000, 10, 99, 100, 1000000007ULL, 0x5555555555555555ULL, 0xAAAAAAAAAAAAAAAAULL % GP, 3, 4, 6};
        std::vector<mpz_class> Z;
        for (auto &k : ks) for (u64 r : rs) Z.push_back(k * PZ + mz(r));
        // also values just around -p, 0, 2^64
        for (int d = -3; d <= 3; d++) { Z.push_back(-PZ + d); Z.push_back(mpz_class(d)); Z.push_back((mpz_class(1) << 64) + d); Z.push_back(-(mpz_class(1) << 64) + d); }
        long long ev = 0;
        for (auto &z : Z)
            for (int radix = 2; radix <= 36; radix++) { check_integer(z, radix, ev); }
        // multi-limb integers: every combination of boundary words in the 64-bit limbs (1..4 limbs, both signs) -- a reduction that
        // folds the limbs itself meets p, p+-1, 2^64-1 and 2^63 in every limb position
        {
            const u64 LB[] = {0, 1, 0xFFFFFFFFULL, 0x8000000000000000ULL, GP - 1, GP, GP + 77, 0xFFFFFFFFFFFFFFFFULL};
            std::vector<mpz_class> ZL;
            for (u64 l3 : LB) for (u64 l2 : LB) for (u64 l1 : LB) for (u64 l0 : LB)
            {
                mpz_class z = mz(l3);
                z = (z << 64) + mz(l2);
                z = (z << 64) + mz(l1);
                z = (z << 64) + mz(l0);
                ZL.push_back(z);
                ZL.push_back(-z);
            }
            for (auto &z : ZL) { check_integer(z, 10, ev); check_integer(z, 16, ev); }
            states += (long long)ZL.size() * 2;
            nontriv += (long long)ZL.size() * 2;
            rep().stat("multi_limb_integers", (long long)ZL.size());
        }
        ev_total += ev;
        states += (long long)Z.size() * 35;
        for (auto &z : Z) if (z < 0 || z >= PZ) nontriv += 35;
        rep().sample("integers", fmt("\"what\":\"%zu integers k*p+r (k in -2^65,-4..4,2^65; 40 residues) and neighbours of -p,0,+-2^64, each in every radix 2..36, as string and as mpz\",\"example\":\"-18446744069414584326 = -p-5\"", Z.size()), 1);
    }
    {
        // every numeral text of 1..3 symbols (thorough 4) over the digits of the radix in both letter cases, with and without
        // a minus sign, for every radix 2..36: leading zeros, mixed case and every digit next to every other digit
        const int maxlen = args.thorough() ? 4 : 3;
        long long ev = 0, n = 0;
#pragma omp parallel for schedule(dynamic, 1) reduction(+ : ev, n)
        for (int radix = 2; radix <= 36; radix++)
        {
            std::string sym;
            for (int d = 0; d < radix; d++) { sym += (char)(d < 10 ? '0' + d : 'a' + d - 10); if (d >= 10) sym += (char)('A' + d - 10); }
            std::vector<int> ix;
            for (int len = 1; len <= maxlen; len++)
            {
                ix.assign(len, 0);
                for (;;)
                {
                    std::string t;
                    for (int i : ix) t += sym[i];
                    check_string(t, radix, ev);
                    check_string("-" + t, radix, ev);
                    n += 2;
                    int k = len - 1;
                    while (k >= 0 && ++ix[k] == (int)sym.size()) ix[k--] = 0;
                    if (k < 0) break;
                }
            }
        }
        // the long numerals of the integer set above with leading zeros and in upper case
        {
            std::vector<mpz_class> Z2;
            for (int d = -2; d <= 2; d++) { Z2.push_back(PZ + d); Z2.push_back(-PZ + d); Z2.push_back((mpz_class(1) << 64) + d); Z2.push_back(mpz_class(3) * PZ + d); Z2.push_back(-(mpz_class(1) << 65) + d); }
            for (auto &z : Z2)
                for (int radix = 2; radix <= 36; radix++)
                {
                    std::string t = z.get_str(radix), sign = t[0] == '-' ? "-" : "", body = t[0] == '-' ? t.substr(1) : t, up = body;
                    for (auto &ch : up) ch = (char)toupper((unsigned char)ch);
                    for (const std::string &b : {body, up})
                        for (const char *pad : {"0", "00", "0000000000000000000000000000000000000000000000000000000000000000000"}) { check_string(sign + pad + b, radix, ev); n++; }
                }
        }
        ev_total += ev;
        states += n;
        nontriv += n;
        rep().stat("numeral_texts", n);
        rep().sample("texts", fmt("\"what\":\"every text of 1..%d digit symbols (both letter cases) with and without '-', every radix 2..36; long numerals with leading zeros / upper case\",\"texts\":%lld", maxlen, n), 1);
    }
    rep().stat("states", states);
    rep().stat("transitions", ev_total);
    rep().stat("evaluations", ev_total);
    rep().stat("distinct_nontrivial", nontriv);
    rep().stat("traces_validated_against_impl", ev_total);
    rep().flush();
    return 0;
}
