// C01: scalar add, sub, mul, square, neg, inc, dec, mulScalar are exact mod p on every
// representation; result depends only on residue classes; output may alias operands.
//
// Built three ways from the same source:
//   native  : against /repo/src (real inline asm), 64-bit alphabets, closure over non-canonical outputs
//   scaled  : against the width-scaled copy (-DVW=w, asm translated), ALL operand values
//   model32 : scaled copy with VW=32 linked with native (see c01_lift.cpp) -- not here
#include "vcommon.hpp"
#include "goldilocks_base_field.hpp"
#include <omp.h>
#include <unordered_set>

using namespace vc;
typedef Goldilocks::Element E;

#ifdef VW
static const unsigned W = VW;
#else
static const unsigned W = 32;
#endif
static const u64 PR = pw(W);
static const u64 LANEMASK = (W == 32) ? ~0ULL : ((1ULL << (2 * W)) - 1);
static Mod F(PR);

#ifdef SIMW_SIG
namespace simw_asm { thread_local u64 asig = 1; }
#endif

enum Op { ADD, SUB, MUL, SQUARE, NEG, INC, DEC, MULSCALAR, NOPS };
static const char *opname[] = {"add", "sub", "mul", "square", "neg", "inc", "dec", "mulScalar"};
static bool is_binary(int op) { return op == ADD || op == SUB || op == MUL || op == MULSCALAR; }

// form 0: value-returning overload; form 1: void overload, result distinct object;
// form 2: void overload result aliases a; form 3: result aliases b; form 4: a and b are the same object (a==b only)
static int nforms(int op)
{
    switch (op)
    {
    case ADD: case SUB: case MUL: return 5;
    case SQUARE: case NEG: return 3;     // 0, 1, 2 (alias a)
    case MULSCALAR: return 3;            // 0, 1, 2
    default: return 1;
    }
}

static u64 expect(int op, u64 a, u64 b)
{
    switch (op)
    {
    case ADD: return F.add(a % PR, b % PR);
    case SUB: return F.sub(a, b);
    case MUL: return F.mul(a, b);
    case SQUARE: return F.mul(a, a);
    case NEG: return F.neg(a);
    case INC: return F.add(a % PR, 1);
    case DEC: return F.sub(a, 1);
    case MULSCALAR: return F.mul(a, b);
    }
    return 0;
}

// returns raw representation
static u64 run(int op, int form, u64 av, u64 bv)
{
    E a, b, r;
    a.fe = av;
    b.fe = bv;
    r.fe = 0xDEADBEEFDEADBEEFULL & LANEMASK;
    switch (op)
    {
    case ADD:
        if (form == 0) return Goldilocks::add(a, b).fe;
        if (form == 1) { Goldilocks::add(r, a, b); return r.fe; }
        if (form == 2) { Goldilocks::add(a, a, b); return a.fe; }
        if (form == 3) { Goldilocks::add(b, a, b); return b.fe; }
        { Goldilocks::add(r, a, a); return r.fe; }
    case SUB:
        if (form == 0) return Goldilocks::sub(a, b).fe;
        if (form == 1) { Goldilocks::sub(r, a, b); return r.fe; }
        if (form == 2) { Goldilocks::sub(a, a, b); return a.fe; }
        if (form == 3) { Goldilocks::sub(b, a, b); return b.fe; }
        { Goldilocks::sub(r, a, a); return r.fe; }
    case MUL:
        if (form == 0) return Goldilocks::mul(a, b).fe;
        if (form == 1) { Goldilocks::mul(r, a, b); return r.fe; }
        if (form == 2) { Goldilocks::mul(a, a, b); return a.fe; }
        if (form == 3) { Goldilocks::mul(b, a, b); return b.fe; }
        { Goldilocks::mul(r, a, a); return r.fe; }
    case SQUARE:
        if (form == 0) return Goldilocks::square(a).fe;
        if (form == 1) { Goldilocks::square(r, a); return r.fe; }
        { Goldilocks::square(a, a); return a.fe; }
    case NEG:
        if (form == 0) return Goldilocks::neg(a).fe;
        if (form == 1) { Goldilocks::neg(r, a); return r.fe; }
        { Goldilocks::neg(a, a); return a.fe; }
    case INC: return Goldilocks::inc(a).fe;
    case DEC: return Goldilocks::dec(a).fe;
    case MULSCALAR:
        if (form == 0) return Goldilocks::mulScalar(a, bv).fe;
        if (form == 1) { Goldilocks::mulScalar(r, a, bv); return r.fe; }
        { Goldilocks::mulScalar(a, a, bv); return a.fe; }
    }
    return 0;
}

static std::string casestr(int op, int form, u64 a, u64 b)
{
    return fmt("w=%u op=%s form=%d a=%s b=%s", W, opname[op], form, hex(a).c_str(), hex(b).c_str());
}

#if !defined(VW) && !defined(C01_AS_LIB)
// ---- calls made during static initialisation.  The constructor of this namespace-scope object runs before main() and -- the
// harness is first on the link line -- before the dynamic initialisers of the library's own translation unit: the state a
// client's global constructor finds.  Every operation is evaluated there on all ordered pairs of the small boundary alphabet;
// main() compares the stored results with the reference (the result of an operation depends on its operands only, not on WHEN it
// is called).
struct EarlyEval
{
    std::vector<u64> A;
    std::vector<u64> res; // [op][i][j]
    EarlyEval()
    {
        A = small_alphabet();
        A.push_back(PR - 2);
        A.push_back(0x7FFFFFFF80000000ULL);
        for (int op = 0; op < NOPS; op++)
            for (u64 a : A)
                for (u64 b : A) res.push_back(run(op, 0, a, is_binary(op) ? b : 0));
    }
    bool lookup(int op, u64 a, u64 b, u64 &r) const
    {
        for (size_t i = 0; i < A.size(); i++)
            for (size_t j = 0; j < A.size(); j++)
                if (A[i] == a && (A[j] == b || !is_binary(op))) { r = res[((size_t)op * A.size() + i) * A.size() + j]; return true; }
        return false;
    }
};
static EarlyEval g_early;
#endif
#if !defined(VW) && !defined(C01_AS_LIB)
// ---- the operation inlined into a LEAF function.  The library's operations are inline asm wrappers; once inlined into a function
// that makes no calls, the compiler keeps that function's locals in the red zone below the stack pointer and in whatever registers
// the asm does not declare as clobbered -- a context the ordinary harness (which calls printf, gmp, the reporter) never offers.
// The leaf computes d = x - y, r = OP(d [, z]), t = d + w0 with twelve more live locals, and stores everything for main() to check.
template <int OP> __attribute__((noinline)) static void leaf_ctx(const u64 *in, u64 *outv)
{
    E w[14];
    for (int i = 0; i < 14; i++) w[i].fe = in[i];
    E d = Goldilocks::sub(w[12], w[13]);
    E r;
    if (OP == ADD) r = Goldilocks::add(d, w[11]);
    else if (OP == SUB) r = Goldilocks::sub(d, w[11]);
    else if (OP == MUL) r = Goldilocks::mul(d, w[11]);
    else if (OP == SQUARE) r = Goldilocks::square(d);
    else if (OP == NEG) r = Goldilocks::neg(d);
    else if (OP == INC) r = Goldilocks::inc(d);
    else r = Goldilocks::dec(d);
    E t = Goldilocks::add(d, w[0]);
    outv[0] = r.fe;
    outv[1] = d.fe;
    outv[2] = t.fe;
    u64 acc = 0;
    for (int i = 0; i < 14; i++) acc += w[i].fe * (u64)(2 * i + 1);
    outv[3] = acc;
}
// second shape: a block routine with a local array of NBK differences (NBK*8 bytes: up to the 128 bytes of the red zone), filled in
// one loop and consumed in another through the reference overloads
template <int OP, int NBK> __attribute__((noinline)) static void leaf_block(E *out, const E *x)
{
    E d[NBK];
    for (int j = 0; j < NBK; j++) Goldilocks::sub(d[j], x[j], x[(j + 1) % NBK]);
    for (int j = 0; j < NBK; j++)
    {
        if (OP == ADD) Goldilocks::add(out[j], d[j], x[j]);
        else if (OP == SUB) Goldilocks::sub(out[j], d[j], x[j]);
        else if (OP == MUL) Goldilocks::mul(out[j], d[j], x[j]);
        else if (OP == SQUARE) Goldilocks::square(out[j], d[j]);
        else if (OP == NEG) Goldilocks::neg(out[j], d[j]);
        else if (OP == INC) out[j] = Goldilocks::inc(d[j]);
        else out[j] = Goldilocks::dec(d[j]);
    }
}
template <int OP> static void leaf_block_n(int nbk, E *out, const E *x)
{
    switch (nbk)
    {
    case 4: leaf_block<OP, 4>(out, x); break;
    case 8: leaf_block<OP, 8>(out, x); break;
    case 12: leaf_block<OP, 12>(out, x); break;
    case 15: leaf_block<OP, 15>(out, x); break;
    default: leaf_block<OP, 16>(out, x); break;
    }
}
static std::string leaf_block_check(int op, int nbk, u64 x0, u64 y0)
{
    E x[16], out[16];
    for (int i = 0; i < 16; i++) x[i].fe = (i % 3 == 0) ? x0 + (u64)i : (i % 3 == 1) ? y0 - (u64)i : (0x9E3779B97F4A7C15ULL * (u64)(i + 1));
    switch (op)
    {
    case ADD: leaf_block_n<ADD>(nbk, out, x); break;
    case SUB: leaf_block_n<SUB>(nbk, out, x); break;
    case MUL: leaf_block_n<MUL>(nbk, out, x); break;
    case SQUARE: leaf_block_n<SQUARE>(nbk, out, x); break;
    case NEG: leaf_block_n<NEG>(nbk, out, x); break;
    case INC: leaf_block_n<INC>(nbk, out, x); break;
    case DEC: leaf_block_n<DEC>(nbk, out, x); break;
    default: return "";
    }
    for (int j = 0; j < nbk; j++)
    {
        u64 d = F.sub(x[j].fe, x[(j + 1) % nbk].fe), z = x[j].fe;
        u64 ex = op == ADD ? F.add(d, z % PR) : op == SUB ? F.sub(d, z) : op == MUL ? F.mul(d, z) : op == SQUARE ? F.mul(d, d) : op == NEG ? F.neg(d) : op == INC ? F.add(d, 1) : F.sub(d, 1);
        if (out[j].fe % PR != ex) return fmt("block of %d: element %d got %s expected %s", nbk, j, hex(out[j].fe).c_str(), hex(ex).c_str());
    }
    return "";
}
// mulScalar with a scalar that is a compile-time literal at the (inlined) call site: constant propagation may select code that a
// run-time scalar never reaches
#define C01_LITERALS(X) X(0ULL) X(1ULL) X(2ULL) X(3ULL) X(7ULL) X(255ULL) X(65537ULL) X(0x7FFFFFFFULL) X(0x80000000ULL) X(0xFFFFFFFEULL) X(0xFFFFFFFFULL) \
    X(0x100000000ULL) X(0x100000001ULL) X(0xFFFFFFFF00000000ULL) X(0xFFFFFFFF00000001ULL) X(0xFFFFFFFFFFFFFFFFULL)
template <u64 K> __attribute__((noinline)) static u64 mulscalar_literal(u64 x, int form)
{
    E a, r;
    a.fe = x;
    if (form == 0) { Goldilocks::mulScalar(r, a, K); return r.fe; }
    Goldilocks::mulScalar(a, a, K); // result aliases the base
    return a.fe;
}
static bool mulscalar_literal_run(u64 k, u64 x, int form, u64 &out)
{
#define X(L) if (k == (L)) { out = mulscalar_literal<(L)>(x, form); return true; }
    C01_LITERALS(X)
#undef X
    return false;
}
static void leaf_inputs(u64 x, u64 y, u64 *in)
{
    for (int i = 0; i < 14; i++) in[i] = (0x9E3779B97F4A7C15ULL * (u64)(i + 1)) % PR;
    in[12] = x;
    in[13] = y;
    in[11] = (x ^ 0x5555555555555555ULL) | 1;
}
// returns "" or the description of the first discrepancy
static std::string leaf_check(int op, u64 x, u64 y)
{
    u64 in[14], o[4] = {0, 0, 0, 0};
    leaf_inputs(x, y, in);
    switch (op)
    {
    case ADD: leaf_ctx<ADD>(in, o); break;
    case SUB: leaf_ctx<SUB>(in, o); break;
    case MUL: leaf_ctx<MUL>(in, o); break;
    case SQUARE: leaf_ctx<SQUARE>(in, o); break;
    case NEG: leaf_ctx<NEG>(in, o); break;
    case INC: leaf_ctx<INC>(in, o); break;
    case DEC: leaf_ctx<DEC>(in, o); break;
    default: return "";
    }
    u64 d = F.sub(x, y), z = in[11];
    u64 exr = op == ADD ? F.add(d, z % PR) : op == SUB ? F.sub(d, z) : op == MUL ? F.mul(d, z) : op == SQUARE ? F.mul(d, d) : op == NEG ? F.neg(d) : op == INC ? F.add(d, 1) : F.sub(d, 1);
    u64 ext = F.add(d, in[0] % PR), acc = 0;
    for (int i = 0; i < 14; i++) acc += in[i] * (u64)(2 * i + 1);
    if (o[0] % PR != exr) return fmt("result of the operation: got %s expected %s", hex(o[0]).c_str(), hex(exr).c_str());
    if (o[1] % PR != d) return fmt("the operand x-y, read back after the operation: got %s expected %s", hex(o[1]).c_str(), hex(d).c_str());
    if (o[2] % PR != ext) return fmt("a later addition that uses the operand again: got %s expected %s", hex(o[2]).c_str(), hex(ext).c_str());
    if (o[3] != acc) return std::string("one of the caller's other local elements changed across the operation");
    return "";
}
#endif
struct SigTab
{
    std::mutex mu;
    std::map<std::pair<int, u64>, std::pair<long long, std::pair<u64, u64>>> m; // (op,sig) -> count, witness
    void add(int op, u64 sig, u64 a, u64 b)
    {
        std::lock_guard<std::mutex> g(mu);
        auto &e = m[{op, sig}];
        if (e.first++ == 0) e.second = {a, b};
    }
};
static SigTab sigtab;

// checks one (op, a, b) in all forms; returns representation produced by form 0
static inline u64 check_all_forms(int op, u64 a, u64 b, long long &evals, std::map<std::pair<int, u64>, std::pair<long long, std::pair<u64, u64>>> *localsig)
{
    u64 ex = expect(op, a, b);
    u64 r0 = 0;
    int nf = nforms(op);
    for (int f = 0; f < nf; f++)
    {
        if (f == 4 && a != b) continue;
#ifdef SIMW_SIG
        simw_asm::sig_reset();
#endif
        u64 r = run(op, f, a, b);
        evals++;
#ifdef SIMW_SIG
        if (f == 0 && localsig)
        {
            auto &e = (*localsig)[{op, simw_asm::asig}];
            if (e.first++ == 0) e.second = {a, b};
        }
#endif
        if (f == 0) r0 = r;
        bool ok = (r <= LANEMASK) && (r % PR == ex) && (W == 32 ? true : r <= LANEMASK);
        // toU64 must give the canonical value: requires r < 2p, i.e. r - p < p when r >= p
        E e;
        e.fe = r;
        u64 canon = Goldilocks::toU64(e);
        if (canon != ex) ok = false;
        if (!ok)
            rep().viol(fmt("C01.wrong.%s.w%u", opname[op], W), casestr(op, f, a, b),
                       fmt("got %s (toU64 %s) expected %s", hex(r).c_str(), hex(canon).c_str(), hex(ex).c_str()));
    }
    return r0;
}

static int run_one(const std::string &cs_)
{
    auto m = parse_case(cs_);
    if (cu(m, "w", 32) != W) { printf("INFO skip width-mismatch\n"); return 0; }
    std::string on = cs(m, "op");
    int op = -1;
    for (int i = 0; i < NOPS; i++) if (on == opname[i]) op = i;
    if (op < 0) return 2;
    int form = (int)cu(m, "form");
    u64 a = cu(m, "a"), b = cu(m, "b");
    u64 ex = expect(op, a, b);
    u64 r = run(op, form, a, b);
    std::string when = cs(m, "when", "");
#if !defined(VW) && !defined(C01_AS_LIB)
    if (when == "static-init" && !g_early.lookup(op, a, b, r)) { printf("INFO replay: pair not in the static-initialisation set\n"); return 0; }
    if (when == "literal")
    {
        u64 got = 0;
        rep().stat("evaluations");
        if (mulscalar_literal_run(b, a, form, got) && got % PR != F.mul(a, b))
            rep().viol(fmt("C01.wrong.mulScalar.literal.w%u", W), casestr(op, form, a, b) + " when=literal", fmt("scalar written as a literal at the call site: got %s expected %s", hex(got).c_str(), hex(F.mul(a, b)).c_str()));
        rep().flush();
        return 0;
    }
    if (when == "leaf")
    {
        int nbk = (int)cu(m, "block", 0);
        std::string f = nbk ? leaf_block_check(op, nbk, a, b) : leaf_check(op, a, b);
        rep().stat("evaluations");
        if (!f.empty()) rep().viol(fmt("C01.wrong.%s.leaf-context.w%u", opname[op], W), casestr(op, 0, a, b) + " when=leaf" + (nbk ? fmt(" block=%d", nbk) : std::string()), f);
        rep().flush();
        return 0;
    }
#endif
    E e;
    e.fe = r;
    u64 canon = Goldilocks::toU64(e);
    rep().stat("evaluations");
    if (canon != ex || r % PR != ex || r > LANEMASK)
        rep().viol(fmt("C01.wrong.%s%s.w%u", opname[op], when == "static-init" ? ".static-init" : "", W), casestr(op, form, a, b) + (when.empty() ? "" : " when=" + when),
                   fmt("got %s (toU64 %s) expected %s", hex(r).c_str(), hex(canon).c_str(), hex(ex).c_str()));
    rep().flush();
    return 0;
}

#ifdef C01_AS_LIB
// library form: the same op table behind a namespace, for the conformance/lifting harness (c01_conf.cpp)
namespace KNS
{
u64 run_op(int op, int form, u64 a, u64 b)
{
#ifdef SIMW_SIG
    simw_asm::sig_reset();
#endif
    return ::run(op, form, a, b);
}
u64 last_sig()
{
#ifdef SIMW_SIG
    return simw_asm::asig;
#else
    return 0;
#endif
}
} // namespace KNS
#else
int main(int argc, char **argv)
{
    Args args = parse_args(argc, argv);
    if (!args.one.empty()) return run_one(args.one);
    omp_set_num_threads(args.jobs);
    long long total_evals = 0, total_cases = 0, nontrivial = 0;

#ifdef VW
    // ---------------- exhaustive over all operand values at width W
    const u64 N = 1ULL << (2 * W);
    for (int op = 0; op < NOPS; op++)
    {
        // optional sub-selection for the big width
        if (!args.part.empty() && args.part != opname[op]) continue;
        long long evals = 0, cases = 0;
        bool bin = is_binary(op);
#pragma omp parallel reduction(+ : evals, cases)
        {
            std::map<std::pair<int, u64>, std::pair<long long, std::pair<u64, u64>>> lsig;
#pragma omp for schedule(dynamic, 16)
            for (u64 a = 0; a < N; a++)
            {
                if (bin)
                    for (u64 b = 0; b < N; b++) { check_all_forms(op, a, b, evals, &lsig); cases++; }
                else { check_all_forms(op, a, 0, evals, &lsig); cases++; }
            }
            for (auto &kv : lsig)
            {
                std::lock_guard<std::mutex> g(sigtab.mu);
                auto &e = sigtab.m[kv.first];
                if (e.first == 0) e.second = kv.second.second;
                e.first += kv.second.first;
            }
        }
        total_evals += evals;
        total_cases += cases;
        rep().sample(fmt("scaled-w%u-%s", W, opname[op]), fmt("\"w\":%u,\"op\":\"%s\",\"operands\":\"all %llu %s\"", W, opname[op], (unsigned long long)cases, bin ? "pairs (a,b) in [0,2^2w)^2" : "values a in [0,2^2w)"), 1);
    }
    for (auto &kv : sigtab.m)
    {
        printf("INFO sig w=%u op=%s sig=%s count=%lld a=%s b=%s\n", W, opname[kv.first.first], hex(kv.first.second).c_str(), kv.second.first,
               hex(kv.second.second.first).c_str(), hex(kv.second.second.second).c_str());
        if (kv.first.second != 4 && kv.first.second != 1) nontrivial++; // any taken carry/borrow
    }
    rep().stat(fmt("states_w%u", W), total_cases);
    rep().stat("states", total_cases);
    rep().stat("transitions", total_evals);
    rep().stat("evaluations", total_evals);
    rep().stat("distinct_outcomes", (long long)sigtab.m.size());
    rep().stat("distinct_nontrivial", nontrivial);
#else
    // ---------------- native: alphabet pairs, then closure over non-canonical outputs
    std::vector<u64> A = alphabet(args.thorough());
    // seed only rotates order
    if (args.seed) std::rotate(A.begin(), A.begin() + (args.seed % A.size()), A.end());
    auto gens = noncanon_generators();
    std::set<u64> noncanon;
    std::mutex mu;
    int depth_max = args.thorough() ? 2 : 1;
    std::vector<u64> cur = A;
    std::set<u64> seen(A.begin(), A.end());
    long long nc_cases = 0;
    for (int depth = 0; depth <= depth_max; depth++)
    {
        std::set<u64> newvals;
        long long evals = 0, cases = 0, nc = 0;
        const std::vector<u64> &L = cur;
        std::vector<u64> R(seen.begin(), seen.end());
#pragma omp parallel reduction(+ : evals, cases, nc)
        {
            std::set<u64> lnew;
#pragma omp for schedule(dynamic, 4)
            for (size_t i = 0; i < L.size(); i++)
            {
                u64 a = L[i];
                for (int op = 0; op < NOPS; op++)
                {
                    if (is_binary(op))
                    {
                        for (u64 b : R)
                        {
                            u64 r = check_all_forms(op, a, b, evals, nullptr);
                            cases++;
                            if (r >= PR) { nc++; if (lnew.size() < 4096) lnew.insert(r); }
                            if (depth > 0 || true)
                            {
                                u64 r2 = check_all_forms(op, b, a, evals, nullptr);
                                cases++;
                                if (r2 >= PR) { nc++; if (lnew.size() < 4096) lnew.insert(r2); }
                            }
                        }
                    }
                    else
                    {
                        u64 r = check_all_forms(op, a, 0, evals, nullptr);
                        cases++;
                        if (r >= PR) { nc++; if (lnew.size() < 4096) lnew.insert(r); }
                    }
                }
            }
            std::lock_guard<std::mutex> g(mu);
            for (u64 x : lnew) newvals.insert(x);
        }
        total_evals += evals;
        total_cases += cases;
        nc_cases += nc;
        printf("INFO closure depth=%d operands=%zu against=%zu cases=%lld noncanonical_results=%lld\n", depth, L.size(), R.size(), cases, nc);
        // next level: new non-canonical representations produced by the library itself
        std::vector<u64> nxt;
        for (u64 x : newvals) if (!seen.count(x)) { nxt.push_back(x); }
        if (nxt.size() > (args.thorough() ? 512u : 128u)) nxt.resize(args.thorough() ? 512u : 128u);
        for (u64 x : nxt) seen.insert(x);
        cur = nxt;
        if (cur.empty()) break;
    }
#ifndef C01_AS_LIB
    // results computed during static initialisation (EarlyEval)
    {
        long long n = 0;
        for (int op = 0; op < NOPS; op++)
            for (u64 a : g_early.A)
                for (u64 b : g_early.A)
                {
                    u64 r = 0;
                    g_early.lookup(op, a, b, r);
                    u64 bb = is_binary(op) ? b : 0, ex = expect(op, a, bb);
                    n++;
                    if (r % PR != ex)
                    {
                        rep().viol(fmt("C01.wrong.%s.static-init.w%u", opname[op], W), casestr(op, 0, a, bb) + " when=static-init",
                                   fmt("called from the constructor of a namespace-scope object (before main): got %s expected %s; the same call from main() gives %s", hex(r).c_str(), hex(ex).c_str(), hex(run(op, 0, a, bb)).c_str()));
                        break;
                    }
                }
        total_evals += n;
        total_cases += n;
        rep().stat("static_init_evaluations", n);
    }
#endif
#ifndef C01_AS_LIB
    // every operation inlined into a leaf function (leaf_ctx), x and y over all ordered pairs of the same boundary words
    {
        long long n = 0;
        for (int op = 0; op < NOPS; op++)
        {
            if (op == MULSCALAR) continue; // not an inline wrapper
            for (u64 a : g_early.A)
                for (u64 b : g_early.A)
                {
                    std::string f = leaf_check(op, a, b);
                    n++;
                    if (!f.empty()) { rep().viol(fmt("C01.wrong.%s.leaf-context.w%u", opname[op], W), casestr(op, 0, a, b) + " when=leaf", f); break; }
                    bool stop = false;
                    for (int nbk : {4, 8, 12, 15, 16})
                    {
                        std::string g = leaf_block_check(op, nbk, a, b);
                        n++;
                        if (!g.empty()) { rep().viol(fmt("C01.wrong.%s.leaf-context.w%u", opname[op], W), casestr(op, 0, a, b) + " when=leaf" + fmt(" block=%d", nbk), g); stop = true; break; }
                    }
                    if (stop) break;
                }
        }
        // mulScalar with literal scalars
        {
            std::vector<u64> lits;
#define X(L) lits.push_back(L);
            C01_LITERALS(X)
#undef X
            std::vector<u64> bases = g_early.A;
            for (u64 x : {0xFFFFFFFF12345678ULL, 0x5555555555555555ULL, 0x8000000000000001ULL, 0xFFFFFFFEFFFFFFFFULL}) bases.push_back(x);
            for (u64 k : lits)
                for (u64 x : bases)
                    for (int form = 0; form < 2; form++)
                    {
                        u64 got = 0;
                        mulscalar_literal_run(k, x, form, got);
                        n++;
                        if (got % PR != F.mul(x, k))
                        {
                            rep().viol(fmt("C01.wrong.mulScalar.literal.w%u", W), casestr(MULSCALAR, form, x, k) + " when=literal", fmt("scalar written as a literal at the call site: got %s expected %s", hex(got).c_str(), hex(F.mul(x, k)).c_str()));
                            goto literal_done;
                        }
                    }
        literal_done:;
        }
        total_evals += n;
        total_cases += n;
        rep().stat("leaf_context_evaluations", n);
    }
#endif
    // products landing in the non-canonical band [p, 2^64)
    long long gevals = 0;
    for (auto &g : gens)
    {
        check_all_forms(MUL, g.first, g.second, gevals, nullptr);
        check_all_forms(MUL, g.second, g.first, gevals, nullptr);
        check_all_forms(MULSCALAR, g.first, g.second, gevals, nullptr);
        total_cases += 3;
    }
    total_evals += gevals;
    rep().sample("native-pair", fmt("\"op\":\"mul\",\"a\":\"%s\",\"b\":\"%s\",\"note\":\"product = 2^64-1 exactly: raw result non-canonical\"", hex(3).c_str(), hex(0x5555555555555555ULL).c_str()), 1);
    rep().sample("native-alphabet", fmt("\"alphabet_size\":%zu,\"first\":\"%s\",\"last\":\"%s\",\"generators\":%zu", A.size(), hex(A.front()).c_str(), hex(A.back()).c_str(), gens.size()), 1);
    rep().stat("states", (long long)seen.size());
    rep().stat("states_native_values", (long long)seen.size());
    rep().stat("transitions", total_evals);
    rep().stat("evaluations", total_evals);
    rep().stat("native_cases", total_cases);
    rep().stat("distinct_nontrivial", nc_cases);
#endif
    rep().flush();
    return 0;
}
#endif
