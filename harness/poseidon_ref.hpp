// Independent reference for the Poseidon permutation / sponge / Merkle tree, parametrised by
// the modulus (so that it also serves the width-scaled build) and reading the library's
// tables through plain pointers.  All arithmetic is unsigned __int128 here.
#pragma once
#include "vcommon.hpp"
#include <vector>

namespace pref
{
typedef uint64_t u64;
typedef unsigned __int128 u128;

struct Tables
{
    u64 P = 0;            // modulus
    const u64 *C = 0;     // [118]
    const u64 *S = 0;     // [507]
    const u64 *M = 0;     // [12][12] row form
    const u64 *Pm = 0;    // [12][12] row form
    const u64 *M_ = 0;    // [144] flattened form read by the vector code
    const u64 *P_ = 0;    // [144]
};

struct Ref
{
    Tables T;
    explicit Ref(const Tables &t) : T(t) {}
    u64 add(u64 a, u64 b) const { return (u64)(((u128)(a % T.P) + (b % T.P)) % T.P); }
    u64 mul(u64 a, u64 b) const { return (u64)((u128)(a % T.P) * (b % T.P) % T.P); }
    u64 pow7(u64 x) const
    {
        u64 x2 = mul(x, x), x3 = mul(x2, x), x4 = mul(x2, x2);
        return mul(x3, x4);
    }
    void mvp(u64 *st, const u64 *mat) const // new[i] = sum_j mat[j][i] * old[j]
    {
        u64 o[12];
        for (int i = 0; i < 12; i++) o[i] = st[i];
        for (int i = 0; i < 12; i++)
        {
            u64 acc = 0;
            for (int j = 0; j < 12; j++) acc = add(acc, mul(mat[12 * j + i], o[j]));
            st[i] = acc;
        }
    }
    // 4 full + 22 partial + 4 full rounds in the optimised schedule (constants C, S, P, M)
    void permute(u64 *out, const u64 *in) const
    {
        u64 st[12];
        for (int i = 0; i < 12; i++) st[i] = add(in[i], T.C[i]);
        for (int r = 0; r < 3; r++)
        {
            for (int i = 0; i < 12; i++) st[i] = add(pow7(st[i]), T.C[(r + 1) * 12 + i]);
            mvp(st, T.M);
        }
        for (int i = 0; i < 12; i++) st[i] = add(pow7(st[i]), T.C[4 * 12 + i]);
        mvp(st, T.Pm);
        for (int r = 0; r < 22; r++)
        {
            st[0] = add(pow7(st[0]), T.C[5 * 12 + r]);
            const u64 *Sr = T.S + 23 * r;
            u64 s0 = 0;
            for (int i = 0; i < 12; i++) s0 = add(s0, mul(st[i], Sr[i]));
            for (int i = 1; i < 12; i++) st[i] = add(st[i], mul(st[0], Sr[11 + i]));
            st[0] = s0;
        }
        for (int r = 0; r < 3; r++)
        {
            for (int i = 0; i < 12; i++) st[i] = add(pow7(st[i]), T.C[5 * 12 + 22 + 12 * r + i]);
            mvp(st, T.M);
        }
        for (int i = 0; i < 12; i++) st[i] = pow7(st[i]);
        mvp(st, T.M);
        for (int i = 0; i < 12; i++) out[i] = st[i];
    }
    // rate-8 capacity-4 sponge; <=4 elements are passed through zero padded
    void linear_hash(u64 out[4], const u64 *in, size_t n) const
    {
        if (n <= 4)
        {
            for (size_t i = 0; i < 4; i++) out[i] = i < n ? in[i] % T.P : 0;
            return;
        }
        u64 st[12], nx[12];
        u64 cap[4] = {0, 0, 0, 0};
        size_t pos = 0;
        while (pos < n)
        {
            size_t k = std::min<size_t>(8, n - pos);
            for (size_t i = 0; i < 8; i++) st[i] = i < k ? in[pos + i] : 0;
            for (int i = 0; i < 4; i++) st[8 + i] = cap[i];
            permute(nx, st);
            for (int i = 0; i < 4; i++) cap[i] = nx[i];
            pos += k;
        }
        for (int i = 0; i < 4; i++) out[i] = cap[i];
    }
    void hash2(u64 out[4], const u64 l[4], const u64 r[4]) const
    {
        u64 st[12] = {l[0], l[1], l[2], l[3], r[0], r[1], r[2], r[3], 0, 0, 0, 0}, nx[12];
        permute(nx, st);
        for (int i = 0; i < 4; i++) out[i] = nx[i];
    }
    // tree buffer: row digests, then pairwise hashes level by level; size 4*(2*rows-1)
    std::vector<u64> merkle(const u64 *input, size_t cols, size_t rows, size_t dim, size_t batch /*0 = unbatched*/) const
    {
        std::vector<u64> tree(4 * (2 * rows - 1), 0);
        size_t rowlen = cols * dim;
        for (size_t r = 0; r < rows; r++)
        {
            const u64 *row = input + r * rowlen;
            if (batch == 0) linear_hash(&tree[4 * r], row, rowlen);
            else
            {
                size_t nb = cols > 0 ? (cols - 1) / batch + 1 : 1; // ceil(cols / batch) without forming cols + batch (batch may be close to 2^64)
                std::vector<u64> cat(4 * nb);
                for (size_t j = 0; j < nb; j++)
                {
                    size_t nn = (j == nb - 1) ? cols - (nb - 1) * batch : batch;
                    linear_hash(&cat[4 * j], row + j * batch * dim, nn * dim);
                }
                linear_hash(&tree[4 * r], cat.data(), 4 * nb);
            }
        }
        size_t level = 0, n = rows;
        while (n > 1)
        {
            for (size_t i = 0; i < n / 2; i++) hash2(&tree[level + 4 * (n + i)], &tree[level + 8 * i], &tree[level + 8 * i + 4]);
            level += 4 * n;
            n /= 2;
        }
        return tree;
    }
};
} // namespace pref
