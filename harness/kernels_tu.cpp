// Translation unit exposing the library's lane kernels through a plain-array table.
// Compiled several ways (namespace KNS):
//   nat : real <immintrin.h>, /repo/src                     (-mavx2 [-mavx512f -D__AVX512__])
//   mdl : engine/simw/include/immintrin.h + scaled tree     (-DVW=w [-D__AVX512__] [-DGoldilocks=GoldilocksMdl])
// so that one harness can drive the compiled code, the width-scaled source, or both.
#include "goldilocks_base_field.hpp"
#include "ktab.hpp"

#ifndef KNS
#error "KNS required"
#endif

#ifdef SIMW_SIG
namespace simw { thread_local u64 sig[8] = {1, 1, 1, 1, 1, 1, 1, 1}; }
namespace simw_asm { thread_local u64 asig = 1; }
#endif

namespace KNS
{
typedef Goldilocks::Element E;
typedef uint64_t u64;

static inline __m256i ld4(const u64 *p) { __m256i r; Goldilocks::load_avx(r, (const E *)p); return r; }
static inline void st4(u64 *p, const __m256i &v) { Goldilocks::store_avx((E *)p, v); }

#define K4_1(name, call)                                                   \
    static void k_##name(const u64 *a, const u64 *b, u64 *o1, u64 *o2)      \
    {                                                                       \
        __m256i A = ld4(a), C;                                              \
        (void)b; (void)o2;                                                  \
        call;                                                               \
        st4(o1, C);                                                         \
    }
#define K4_2(name, call)                                                   \
    static void k_##name(const u64 *a, const u64 *b, u64 *o1, u64 *o2)      \
    {                                                                       \
        __m256i A = ld4(a), B = ld4(b), C;                                  \
        (void)o2;                                                           \
        call;                                                               \
        st4(o1, C);                                                         \
    }
#define K4_22(name, call)                                                  \
    static void k_##name(const u64 *a, const u64 *b, u64 *o1, u64 *o2)      \
    {                                                                       \
        __m256i A = ld4(a), B = ld4(b), CH, CL;                             \
        call;                                                               \
        st4(o1, CH);                                                        \
        st4(o2, CL);                                                        \
    }

K4_1(shift_avx, Goldilocks::shift_avx(C, A))
K4_1(toCanonical_avx, Goldilocks::toCanonical_avx(C, A))
K4_1(toCanonical_avx_s, Goldilocks::toCanonical_avx_s(C, A))
K4_2(add_avx, Goldilocks::add_avx(C, A, B))
K4_2(add_avx_a_sc, Goldilocks::add_avx_a_sc(C, A, B))
K4_2(add_avx_s_b_small, Goldilocks::add_avx_s_b_small(C, A, B))
K4_2(add_avx_b_small, Goldilocks::add_avx_b_small(C, A, B))
K4_2(sub_avx, Goldilocks::sub_avx(C, A, B))
K4_2(sub_avx_s_b_small, Goldilocks::sub_avx_s_b_small(C, A, B))
K4_2(mult_avx, Goldilocks::mult_avx(C, A, B))
K4_2(mult_avx_8, Goldilocks::mult_avx_8(C, A, B))
K4_22(mult_avx_128, Goldilocks::mult_avx_128(CH, CL, A, B))
K4_22(mult_avx_72, Goldilocks::mult_avx_72(CH, CL, A, B))
K4_2(reduce_avx_128_64, Goldilocks::reduce_avx_128_64(C, A, B))
K4_2(reduce_avx_96_64, Goldilocks::reduce_avx_96_64(C, A, B))
K4_1(square_avx, Goldilocks::square_avx(C, A))
static void k_square_avx_128(const u64 *a, const u64 *b, u64 *o1, u64 *o2)
{
    __m256i A = ld4(a), CH, CL;
    (void)b;
    Goldilocks::square_avx_128(CH, CL, A);
    st4(o1, CH);
    st4(o2, CL);
}
// aliasing forms, systematically: the result register is the same object as operand a (:c=a) or b (:c=b);
// for the two-output kernels c_h aliases a and c_l aliases b.  The documented preconditions are unchanged.
#define K4_2ALIAS(name)                                                                   \
    K4_2(name##_alias_a, { C = A; Goldilocks::name(C, C, B); })                           \
    K4_2(name##_alias_b, { C = B; Goldilocks::name(C, A, C); })
K4_2ALIAS(add_avx)
K4_2ALIAS(add_avx_a_sc)
K4_2ALIAS(add_avx_s_b_small)
K4_2ALIAS(add_avx_b_small)
K4_2ALIAS(sub_avx)
K4_2ALIAS(sub_avx_s_b_small)
K4_2ALIAS(mult_avx)
K4_2ALIAS(mult_avx_8)
K4_2ALIAS(reduce_avx_128_64)
K4_2ALIAS(reduce_avx_96_64)
K4_1(square_avx_alias, { C = A; Goldilocks::square_avx(C, C); })
K4_1(shift_avx_alias, { C = A; Goldilocks::shift_avx(C, C); })
K4_1(toCanonical_avx_alias, { C = A; Goldilocks::toCanonical_avx(C, C); })
K4_1(toCanonical_avx_s_alias, { C = A; Goldilocks::toCanonical_avx_s(C, C); })
K4_22(mult_avx_128_alias, { CH = A; CL = B; Goldilocks::mult_avx_128(CH, CL, CH, CL); })
K4_22(mult_avx_72_alias, { CH = A; CL = B; Goldilocks::mult_avx_72(CH, CL, CH, CL); })

#ifdef __AVX512__
static inline __m512i ld8(const u64 *p) { __m512i r; Goldilocks::load_avx512(r, (const E *)p); return r; }
static inline void st8(u64 *p, const __m512i &v) { Goldilocks::store_avx512((E *)p, v); }
#define K8_1(name, call)                                                   \
    static void k_##name(const u64 *a, const u64 *b, u64 *o1, u64 *o2)      \
    {                                                                       \
        __m512i A = ld8(a), C;                                              \
        (void)b; (void)o2;                                                  \
        call;                                                               \
        st8(o1, C);                                                         \
    }
#define K8_2(name, call)                                                   \
    static void k_##name(const u64 *a, const u64 *b, u64 *o1, u64 *o2)      \
    {                                                                       \
        __m512i A = ld8(a), B = ld8(b), C;                                  \
        (void)o2;                                                           \
        call;                                                               \
        st8(o1, C);                                                         \
    }
#define K8_22(name, call)                                                  \
    static void k_##name(const u64 *a, const u64 *b, u64 *o1, u64 *o2)      \
    {                                                                       \
        __m512i A = ld8(a), B = ld8(b), CH, CL;                             \
        call;                                                               \
        st8(o1, CH);                                                        \
        st8(o2, CL);                                                        \
    }
K8_1(toCanonical_avx512, Goldilocks::toCanonical_avx512(C, A))
K8_2(add_avx512, Goldilocks::add_avx512(C, A, B))
K8_2(add_avx512_b_c, Goldilocks::add_avx512_b_c(C, A, B))
K8_2(sub_avx512, Goldilocks::sub_avx512(C, A, B))
K8_2(sub_avx512_b_c, Goldilocks::sub_avx512_b_c(C, A, B))
K8_2(mult_avx512, Goldilocks::mult_avx512(C, A, B))
K8_2(mult_avx512_8, Goldilocks::mult_avx512_8(C, A, B))
K8_22(mult_avx512_128, Goldilocks::mult_avx512_128(CH, CL, A, B))
K8_22(mult_avx512_72, Goldilocks::mult_avx512_72(CH, CL, A, B))
K8_2(reduce_avx512_128_64, Goldilocks::reduce_avx512_128_64(C, A, B))
K8_2(reduce_avx512_96_64, Goldilocks::reduce_avx512_96_64(C, A, B))
K8_1(square_avx512, Goldilocks::square_avx512(C, A))
static void k_square_avx512_128(const u64 *a, const u64 *b, u64 *o1, u64 *o2)
{
    __m512i A = ld8(a), CH, CL;
    (void)b;
    Goldilocks::square_avx512_128(CH, CL, A);
    st8(o1, CH);
    st8(o2, CL);
}
#define K8_2ALIAS(name)                                                                   \
    K8_2(name##_alias_a, { C = A; Goldilocks::name(C, C, B); })                           \
    K8_2(name##_alias_b, { C = B; Goldilocks::name(C, A, C); })
K8_2ALIAS(add_avx512)
K8_2ALIAS(add_avx512_b_c)
K8_2ALIAS(sub_avx512)
K8_2ALIAS(sub_avx512_b_c)
K8_2ALIAS(mult_avx512)
K8_2ALIAS(mult_avx512_8)
K8_2ALIAS(reduce_avx512_128_64)
K8_2ALIAS(reduce_avx512_96_64)
K8_1(square_avx512_alias, { C = A; Goldilocks::square_avx512(C, C); })
K8_1(toCanonical_avx512_alias, { C = A; Goldilocks::toCanonical_avx512(C, C); })
K8_22(mult_avx512_128_alias, { CH = A; CL = B; Goldilocks::mult_avx512_128(CH, CL, CH, CL); })
K8_22(mult_avx512_72_alias, { CH = A; CL = B; Goldilocks::mult_avx512_72(CH, CL, CH, CL); })
#endif

#define ENT(name, lanes, nin, nout, spec) {#name, lanes, nin, nout, spec, k_##name}
static const KEntry entries[] = {
    ENT(shift_avx, 4, 1, 1, S_SHIFT),
    ENT(toCanonical_avx, 4, 1, 1, S_CANON),
    ENT(toCanonical_avx_s, 4, 1, 1, S_CANON_S),
    ENT(add_avx, 4, 2, 1, S_ADD),
    ENT(add_avx_a_sc, 4, 2, 1, S_ADD_A_SC),
    ENT(add_avx_s_b_small, 4, 2, 1, S_ADD_S_BSMALL),
    ENT(add_avx_b_small, 4, 2, 1, S_ADD_BSMALL),
    ENT(sub_avx, 4, 2, 1, S_SUB),
    ENT(sub_avx_s_b_small, 4, 2, 1, S_SUB_S_BSMALL),
    ENT(mult_avx, 4, 2, 1, S_MUL),
    ENT(mult_avx_8, 4, 2, 1, S_MUL8),
    ENT(mult_avx_128, 4, 2, 2, S_MUL128),
    ENT(mult_avx_72, 4, 2, 2, S_MUL72),
    ENT(reduce_avx_128_64, 4, 2, 1, S_RED128),
    ENT(reduce_avx_96_64, 4, 2, 1, S_RED96),
    ENT(square_avx, 4, 1, 1, S_SQ),
    ENT(square_avx_128, 4, 1, 2, S_SQ128),
#define ENT2(name, lanes, spec) ENT(name##_alias_a, lanes, 2, 1, spec), ENT(name##_alias_b, lanes, 2, 1, spec)
    ENT2(add_avx, 4, S_ADD),
    ENT2(add_avx_a_sc, 4, S_ADD_A_SC),
    ENT2(add_avx_s_b_small, 4, S_ADD_S_BSMALL),
    ENT2(add_avx_b_small, 4, S_ADD_BSMALL),
    ENT2(sub_avx, 4, S_SUB),
    ENT2(sub_avx_s_b_small, 4, S_SUB_S_BSMALL),
    ENT2(mult_avx, 4, S_MUL),
    ENT2(mult_avx_8, 4, S_MUL8),
    ENT2(reduce_avx_128_64, 4, S_RED128),
    ENT2(reduce_avx_96_64, 4, S_RED96),
    ENT(square_avx_alias, 4, 1, 1, S_SQ),
    ENT(shift_avx_alias, 4, 1, 1, S_SHIFT),
    ENT(toCanonical_avx_alias, 4, 1, 1, S_CANON),
    ENT(toCanonical_avx_s_alias, 4, 1, 1, S_CANON_S),
    ENT(mult_avx_128_alias, 4, 2, 2, S_MUL128),
    ENT(mult_avx_72_alias, 4, 2, 2, S_MUL72),
#ifdef __AVX512__
    ENT(toCanonical_avx512, 8, 1, 1, S_CANON),
    ENT(add_avx512, 8, 2, 1, S_ADD),
    ENT(add_avx512_b_c, 8, 2, 1, S_ADD_BSMALL),
    ENT(sub_avx512, 8, 2, 1, S_SUB),
    ENT(sub_avx512_b_c, 8, 2, 1, S_SUB_BC),
    ENT(mult_avx512, 8, 2, 1, S_MUL),
    ENT(mult_avx512_8, 8, 2, 1, S_MUL8),
    ENT(mult_avx512_128, 8, 2, 2, S_MUL128),
    ENT(mult_avx512_72, 8, 2, 2, S_MUL72),
    ENT(reduce_avx512_128_64, 8, 2, 1, S_RED128),
    ENT(reduce_avx512_96_64, 8, 2, 1, S_RED96),
    ENT(square_avx512, 8, 1, 1, S_SQ),
    ENT(square_avx512_128, 8, 1, 2, S_SQ128),
    ENT2(add_avx512, 8, S_ADD),
    ENT2(add_avx512_b_c, 8, S_ADD_BSMALL),
    ENT2(sub_avx512, 8, S_SUB),
    ENT2(sub_avx512_b_c, 8, S_SUB_BC),
    ENT2(mult_avx512, 8, S_MUL),
    ENT2(mult_avx512_8, 8, S_MUL8),
    ENT2(reduce_avx512_128_64, 8, S_RED128),
    ENT2(reduce_avx512_96_64, 8, S_RED96),
    ENT(square_avx512_alias, 8, 1, 1, S_SQ),
    ENT(toCanonical_avx512_alias, 8, 1, 1, S_CANON),
    ENT(mult_avx512_128_alias, 8, 2, 2, S_MUL128),
    ENT(mult_avx512_72_alias, 8, 2, 2, S_MUL72),
#endif
};

static void sig_reset_()
{
#ifdef SIMW_SIG
    simw::sig_reset();
#endif
}
static u64 sig_get_(int lane)
{
#ifdef SIMW_SIG
    return simw::sig[lane];
#else
    (void)lane;
    return 0;
#endif
}
#ifdef VW
static const unsigned width_ = VW;
#else
static const unsigned width_ = 32;
#endif
extern const KTab tab;
const KTab tab = {entries, (int)(sizeof(entries) / sizeof(entries[0])), width_,
#ifdef VW
                  1,
#else
                  0,
#endif
                  sig_reset_, sig_get_};
} // namespace KNS
