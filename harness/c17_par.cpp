// C17 (second part): Goldilocks::parcpy / Goldilocks::parSetZero transfer exactly `size`
// elements for every size and thread-count argument, including zero and non-positive counts.
//
//   size in {0..40, 63, 64, 65, 1000}  x  thread argument in {INT_MIN, -1, 0, 1, 2, 3, 7, 64, size, size+1}
//   destination compared element-wise, sentinels on both sides of the destination untouched,
//   source unchanged.  Built twice: plain (guard zones of GUARD elements) and with ASan
//   (source and destination are exact-size heap blocks, so one element too many faults).
//   One forked process per size: the parent never enters an OpenMP region, a crash is a VIOL.
//
//   <exe> --tier .. --seed .. --jobs ..      |     <exe> --one "fn=parcpy size=17 nt=-1"
#include "vcommon.hpp"
#include "goldilocks_base_field.hpp"
#include <limits.h>
using namespace vc;

#if defined(__SANITIZE_ADDRESS__)
#define EXACT 1
extern "C" const char *__asan_default_options() { return "detect_leaks=0:abort_on_error=0:exitcode=77"; }
#else
#define EXACT 0
#endif

static const size_t GUARD = 1100;
static char *g_cur;

static u64 mix(u64 x)
{
    x += 0x9E3779B97F4A7C15ULL;
    x = (x ^ (x >> 30)) * 0xBF58476D1CE4E5B9ULL;
    x = (x ^ (x >> 27)) * 0x94D049BB133111EBULL;
    return x ^ (x >> 31);
}
static u64 sent(u64 i) { return mix(0xAA00000000ULL + i) | 1; } // never 0
static u64 tagv(u64 i) { return mix(0x5500000000ULL + i) | 1; }

struct Cnt { long long cases = 0, evals = 0, nontriv = 0; std::set<std::pair<u64, u64>> parts; };

// fn: 0 parcpy, 1 parSetZero; +2 = called from inside another parallel region (the runtime then grants the inner
// region a team of ONE thread although more were requested: num_threads is an upper bound, not a promise)
static std::string casestr(int fn, u64 size, int nt) { return fmt("fn=%s size=%llu nt=%d env=%s", (fn & 1) == 0 ? "parcpy" : "parSetZero", (unsigned long long)size, nt, (fn & 2) ? "nested" : "top") + ((fn & 4) ? " mem=shared" : (fn & 8) ? " mem=file" : ""); }

// "" = pass, else "<kind>\t<detail>"
static std::string run_case(int fn, u64 size, int nt, Cnt *cnt)
{
    std::string fail;
    size_t g = EXACT ? 0 : GUARD;
    std::vector<u64> srcplain, dstplain;
    u64 *src, *dst, *srcblk = 0, *dstblk = 0, *sp = 0, *dp = 0;
    void *smap = 0, *dmap = 0;
    size_t maplen = 0;
    if (EXACT)
    {
        srcblk = (u64 *)malloc(size * sizeof(u64));
        dstblk = (u64 *)malloc(size * sizeof(u64));
        src = srcblk;
        dst = dstblk;
    }
    else
    {
        // what backs the caller's buffers: 0 heap, 1 (fn & 4) a shared anonymous mapping, 2 (fn & 8) a private mapping of a file whose
        // contents are what the buffers hold before the call -- memory is memory: the transfer may not depend on it
        const int backing = (fn & 4) ? 1 : (fn & 8) ? 2 : 0;
        const size_t tot = size + 2 * g, bytes = ((tot * sizeof(u64) + 4095) / 4096) * 4096;
        if (backing == 0)
        {
            srcplain.resize(tot);
            dstplain.resize(tot);
            sp = srcplain.data();
            dp = dstplain.data();
        }
        else
        {
            for (int which = 0; which < 2; which++)
            {
                void *m = MAP_FAILED;
                if (backing == 1) m = mmap(0, bytes, PROT_READ | PROT_WRITE, MAP_SHARED | MAP_ANONYMOUS, -1, 0);
                else
                {
                    int fd = memfd_create("c17", 0);
                    if (fd >= 0 && ftruncate(fd, (off_t)bytes) == 0)
                    {
                        std::vector<u64> init(bytes / sizeof(u64));
                        for (size_t i = 0; i < init.size(); i++) init[i] = which ? sent(i) : tagv(i);
                        if (pwrite(fd, init.data(), bytes, 0) == (ssize_t)bytes) m = mmap(0, bytes, PROT_READ | PROT_WRITE, MAP_PRIVATE, fd, 0);
                    }
                    if (fd >= 0) close(fd);
                }
                if (m == MAP_FAILED) return "uncovered\tcould not create the mapping that backs the buffers";
                (which ? dp : sp) = (u64 *)m;
                (which ? dmap : smap) = m;
                maplen = bytes;
            }
        }
        src = sp + g;
        dst = dp + g;
        for (size_t i = 0; i < tot; i++) { sp[i] = tagv(i); dp[i] = sent(i); }
    }
    if (EXACT)
        for (u64 i = 0; i < size; i++) { src[i] = tagv(g + i); dst[i] = sent(g + i); }
    std::vector<u64> srccopy(src - g, src + size + g);

    auto call = [&]() {
        if ((fn & 1) == 0) Goldilocks::parcpy((Goldilocks::Element *)dst, (const Goldilocks::Element *)src, size, nt);
        else Goldilocks::parSetZero((Goldilocks::Element *)dst, size, nt);
    };
    if (fn & 2)
    {
#pragma omp parallel num_threads(2)
        {
#pragma omp single
            call();
        }
    }
    else call();
    const int fn_env = fn;
    fn &= 1;
    (void)fn_env;

    for (u64 i = 0; i < size && fail.empty(); i++)
    {
        u64 want = fn == 0 ? srccopy[g + i] : 0;
        if (cnt) cnt->evals++;
        if (dst[i] != want)
            fail = "wrong\t" + fmt("element %llu of %llu: got ", (unsigned long long)i, (unsigned long long)size) + hex(dst[i]) + (dst[i] == sent(g + i) ? " (sentinel: not transferred)" : "") + ", expected " + hex(want);
    }
    if (!EXACT)
    {
        for (size_t i = 0; i < g && fail.empty(); i++)
            if (dp[i] != sent(i)) fail = "write-outside\t" + fmt("%llu element(s) before the destination was overwritten", (unsigned long long)(g - i));
        for (size_t i = 0; i < g && fail.empty(); i++)
            if (dp[g + size + i] != sent(g + size + i))
                fail = "write-outside\t" + fmt("destination[size+%llu] (size=%llu) was overwritten with ", (unsigned long long)i, (unsigned long long)size) + hex(dp[g + size + i]);
    }
    if (fail.empty() && memcmp(src - g, srccopy.data(), srccopy.size() * sizeof(u64)) != 0) fail = "input-modified\tsource changed";
    if (cnt)
    {
        cnt->cases++;
        u64 eff = nt < 1 ? 1 : (u64)nt;
        if (nt < 1 || eff > size || (size % eff) != 0) cnt->nontriv++;
        cnt->parts.insert({size, (size + eff - 1) / eff});
    }
    free(srcblk);
    free(dstblk);
    if (smap) munmap(smap, maplen);
    if (dmap) munmap(dmap, maplen);
    return fail;
}

struct Iso { int kind, code; std::string err; };
static Iso isolated(const std::function<void()> &fn, int timeout_s)
{
    int pe[2];
    if (pipe(pe)) { perror("pipe"); exit(3); }
    fflush(stdout);
    pid_t pid = fork();
    if (pid == 0)
    {
        close(pe[0]);
        dup2(pe[1], 2);
        alarm(timeout_s);
        fn();
        fflush(stdout);
        _exit(0);
    }
    close(pe[1]);
    Iso r;
    char buf[4096];
    ssize_t n;
    while ((n = read(pe[0], buf, sizeof buf)) > 0)
        if (r.err.size() < 32768) r.err.append(buf, n);
    close(pe[0]);
    int st = 0;
    waitpid(pid, &st, 0);
    if (WIFSIGNALED(st)) { r.kind = 1; r.code = WTERMSIG(st); }
    else if (WEXITSTATUS(st) != 0) { r.kind = 2; r.code = WEXITSTATUS(st); }
    else { r.kind = 0; r.code = 0; }
    return r;
}
static std::string clean(std::string t)
{
    for (char &ch : t)
        if (ch == '\t' || ch == '\n' || ch == '\r') ch = ' ';
    return t;
}
static void report_abnormal(const Iso &r, const std::string &cur)
{
    auto m = parse_case(cur);
    std::string fn = cs(m, "fn", "parcpy");
    size_t a = r.err.find("ERROR: AddressSanitizer");
    if (a != std::string::npos)
    {
        std::string head = r.err.substr(a + 7, r.err.find('\n', a) - a - 7), acc;
        size_t q = r.err.find(" of size ", a);
        if (q != std::string::npos) { size_t b0 = r.err.rfind('\n', q); acc = r.err.substr(b0 + 1, r.err.find('\n', q) - b0 - 1); }
        rep().viol("C17.asan." + fn, cur, clean("goldilocks_base_field.cpp " + fn + ": " + head + " | " + acc).substr(0, 700));
    }
    else if (r.kind == 1 && r.code == SIGALRM) rep().viol("C17.timeout." + fn, cur, "no answer within the time limit");
    else
        rep().viol("C17.crash." + fn, cur, "goldilocks_base_field.cpp " + fn + ": " + (r.kind == 1 ? fmt("killed by signal %d (%s)", r.code, strsignal(r.code)) : fmt("exit code %d", r.code)) + " " + clean(r.err.substr(0, 300)));
}

static void emit(int fn, u64 size, int nt, const std::string &f)
{
    size_t t = f.find('\t');
    if (f.substr(0, t) == "uncovered") { rep().uncovered(casestr(fn, size, nt) + ": " + f.substr(t + 1)); return; }
    rep().viol("C17." + f.substr(0, t) + "." + ((fn & 1) == 0 ? "parcpy" : "parSetZero") + ((fn & 2) ? ".nested" : "") + ((fn & 12) ? ".backing" : ""), casestr(fn, size, nt), std::string("goldilocks_base_field.cpp ") + ((fn & 1) == 0 ? "parcpy: " : "parSetZero: ") + f.substr(t + 1));
}

int main(int argc, char **argv)
{
    Args args = parse_args(argc, argv);
    if (!args.one.empty())
    {
        auto m = parse_case(args.one);
        int fn = (cs(m, "fn") == "parSetZero" ? 1 : 0) + (cs(m, "env") == "nested" ? 2 : 0) + (cs(m, "mem", "") == "shared" ? 4 : cs(m, "mem", "") == "file" ? 8 : 0);
        u64 size = cu(m, "size", 0);
        int nt = (int)strtol(cs(m, "nt", "1").c_str(), 0, 0);
        std::string cur = casestr(fn, size, nt);
        Iso r = isolated([&]() {
            std::string f = run_case(fn, size, nt, 0);
            if (!f.empty()) emit(fn, size, nt, f);
            else printf("INFO replay case passes: %s\n", cur.c_str());
        }, 120);
        if (r.kind != 0) report_abnormal(r, cur);
        return 0;
    }
    std::vector<u64> sizes;
    for (u64 s = 0; s <= 40; s++) sizes.push_back(s);
    for (u64 s : {63, 64, 65, 1000}) sizes.push_back(s);
    if (!EXACT) for (u64 s : {2048, 5000, 16395}) sizes.push_back(s); // several whole pages
    fork_pool((long)sizes.size(), std::min(args.jobs, 4), [&](long j) {
        u64 size = sizes[j];
        static char *mine = 0;
        if (!mine) mine = (char *)mmap(0, 4096, PROT_READ | PROT_WRITE, MAP_SHARED | MAP_ANONYMOUS, -1, 0);
        g_cur = mine;
        // after an abnormal end the remaining (fn, nt) of this size are still run, each in a fresh child
        std::vector<std::pair<int, int>> todo;
        std::vector<int> nts = {INT_MIN, -1, 0, 1, 2, 3, 7, 64, (int)size, (int)size + 1};
        std::sort(nts.begin(), nts.end());
        nts.erase(std::unique(nts.begin(), nts.end()), nts.end());
        for (int fn = 0; fn < 4; fn++)
            for (int nt : nts) todo.push_back({fn, nt});
        if (!EXACT) // other memory behind the buffers (shared anonymous mapping, private file mapping)
            for (int fn : {4, 5, 8, 9})
                for (int nt : {1, 3, 7}) todo.push_back({fn, nt});
        size_t at = 0;
        while (at < todo.size())
        {
            g_cur[0] = 0;
            size_t *progress = (size_t *)(g_cur + 2048);
            *progress = at;
            Iso r = isolated([&]() {
                Cnt cnt;
                for (size_t t = at; t < todo.size(); t++)
                {
                    *progress = t;
                    std::string cur = casestr(todo[t].first, size, todo[t].second);
                    strncpy(g_cur, cur.c_str(), 2000);
                    std::string f = run_case(todo[t].first, size, todo[t].second, &cnt);
                    if (!f.empty()) emit(todo[t].first, size, todo[t].second, f);
                }
                const char *pre = EXACT ? "asan_" : "";
                rep().stat(std::string(pre) + "states", cnt.cases);
                rep().stat(std::string(pre) + "transitions", cnt.cases);
                rep().stat(std::string(pre) + "evaluations", cnt.evals);
                if (!EXACT)
                {
                    rep().stat("distinct_nontrivial", cnt.nontriv);
                    rep().stat("distinct_outcomes", (long long)cnt.parts.size());
                }
                rep().flush();
            }, 300);
            if (r.kind == 0) break;
            report_abnormal(r, g_cur);
            rep().flush(); // before the next child is forked (it would inherit and re-print these counters)
            at = *progress + 1;
        }
    });
    // dense size sweep (chunk arithmetic must transfer exactly `size` elements whatever the split): every size in
    // [41, 18432] and around the integer constants of the library source, team arguments 7 and 13 (plain build only;
    // the ASan twin keeps the listed sizes)
    if (!EXACT)
    {
        std::set<u64> sw;
        for (u64 z = 41; z <= 18432; z++) sw.insert(z);
        for (u64 L : culist(args.kv, "lits"))
            for (u64 m : {1ULL, 2ULL})
                for (long long d = -70; d <= 70; d++) { long long v = (long long)(L * m) + d; if (v > 40 && v <= 2200000) sw.insert((u64)v); }
        std::vector<u64> sv(sw.begin(), sw.end());
        const long NCH = 48;
        fork_pool(NCH, std::min(args.jobs, 4), [&](long ch) {
            static char *mine = 0;
            if (!mine) mine = (char *)mmap(0, 4096, PROT_READ | PROT_WRITE, MAP_SHARED | MAP_ANONYMOUS, -1, 0);
            g_cur = mine;
            g_cur[0] = 0;
            Iso r = isolated([&]() {
                Cnt cnt;
                for (size_t i = (size_t)ch; i < sv.size(); i += NCH)
                    for (int fn = 0; fn < 2; fn++)
                        for (int nt : {7, 13})
                        {
                            std::string cur = casestr(fn, sv[i], nt);
                            strncpy(g_cur, cur.c_str(), 2000);
                            std::string f = run_case(fn, sv[i], nt, &cnt);
                            if (!f.empty()) emit(fn, sv[i], nt, f);
                        }
                const char *pre = EXACT ? "asan_" : "";
                rep().stat(std::string(pre) + "states", cnt.cases);
                rep().stat(std::string(pre) + "transitions", cnt.cases);
                rep().stat(std::string(pre) + "evaluations", cnt.evals);
                if (!EXACT) rep().stat("distinct_nontrivial", cnt.nontriv);
                rep().flush();
            }, 600);
            if (r.kind != 0) { report_abnormal(r, g_cur); rep().flush(); }
        });
    }
    rep().flush();
    return 0;
}
