// C06: Poseidon full-result permutation: scalar == AVX2 == AVX-512 (per interleaved state)
// == independent reference, for every state in any representation; hash = first 4 elements.
//
// Built: native -mavx2 ; native -mavx512f -D__AVX512__ ; scaled -DVW=8 -D__AVX512__ (whole
// permutation recompiled at 16-bit lanes: correction paths and canonical/non-canonical hand-offs
// between kernels fire thousands of times per run).
#include "vcommon.hpp"
#include "poseidon_goldilocks.hpp"
#include "poseidon_ref.hpp"
#include <omp.h>
using namespace vc;
typedef Goldilocks::Element E;

#ifdef VW
static const unsigned W = VW;
#else
static const unsigned W = 32;
#endif
static const u64 PR = pw(W);
static const u64 MASK = (W == 32) ? ~0ULL : ((1ULL << (2 * W)) - 1);

#ifdef SIMW_SIG
namespace simw { thread_local u64 sig[8] = {1, 1, 1, 1, 1, 1, 1, 1}; }
namespace simw_asm { thread_local u64 asig = 1; }
#endif

static pref::Tables tables()
{
    pref::Tables t;
    t.P = PR;
    t.C = (const u64 *)PoseidonGoldilocksConstants::C;
    t.S = (const u64 *)PoseidonGoldilocksConstants::S;
    t.M = (const u64 *)PoseidonGoldilocksConstants::M;
    t.Pm = (const u64 *)PoseidonGoldilocksConstants::P;
    t.M_ = (const u64 *)PoseidonGoldilocksConstants::M_;
    t.P_ = (const u64 *)PoseidonGoldilocksConstants::P_;
    return t;
}

enum Impl { SEQ, AVX, AVX512, HASH_SEQ, HASH_AVX, HASH_AVX512 };
static const char *implname[] = {"hash_full_result_seq", "hash_full_result", "hash_full_result_avx512", "hash_seq", "hash", "hash_avx512"};

static std::string casestr(const char *impl, const u64 *st, int n, int slot)
{
    return fmt("w=%u impl=%s slot=%d state=", W, impl, slot) + joinhex(st, n);
}

struct Cnt { long long evals = 0, states = 0, nontriv = 0; };

// Run all implementations on state s (and, for AVX-512, s2 in the other interleaved slot).
static void check_state(const pref::Ref &R, const u64 *s, const u64 *s2, Cnt &c, const char *part)
{
    u64 ex[12], ex2[12];
    R.permute(ex, s);
    R.permute(ex2, s2);
    E in[12], out[12];
    for (int i = 0; i < 12; i++) in[i].fe = s[i];
    bool noncanon = false;
    for (int i = 0; i < 12; i++) if (s[i] >= PR) noncanon = true;
    // scalar
    PoseidonGoldilocks::hash_full_result_seq(out, in);
    c.evals++;
    for (int i = 0; i < 12; i++)
        if (out[i].fe > MASK || out[i].fe % PR != ex[i])
        {
            rep().viol(fmt("C06.wrong.hash_full_result_seq.w%u", W), casestr("hash_full_result_seq", s, 12, 0), fmt("part=%s element %d got %s expected %s", part, i, hex(out[i].fe).c_str(), hex(ex[i]).c_str()));
            break;
        }
    // in-place form (state == input), as linear_hash uses it
    {
        E io[12];
        for (int i = 0; i < 12; i++) io[i].fe = s[i];
        PoseidonGoldilocks::hash_full_result_seq(io, io);
        c.evals++;
        for (int i = 0; i < 12; i++)
            if (io[i].fe % PR != ex[i]) { rep().viol(fmt("C06.wrong.hash_full_result_seq.inplace.w%u", W), casestr("hash_full_result_seq_inplace", s, 12, 0), fmt("part=%s element %d", part, i)); break; }
    }
    // AVX2
    PoseidonGoldilocks::hash_full_result(out, in);
    c.evals++;
    for (int i = 0; i < 12; i++)
        if (out[i].fe > MASK || out[i].fe % PR != ex[i])
        {
            rep().viol(fmt("C06.wrong.hash_full_result.w%u", W), casestr("hash_full_result", s, 12, 0), fmt("part=%s element %d got %s expected %s", part, i, hex(out[i].fe).c_str(), hex(ex[i]).c_str()));
            break;
        }
    {
        E io[12];
        for (int i = 0; i < 12; i++) io[i].fe = s[i];
        PoseidonGoldilocks::hash_full_result(io, io);
        c.evals++;
        for (int i = 0; i < 12; i++)
            if (io[i].fe % PR != ex[i]) { rep().viol(fmt("C06.wrong.hash_full_result.inplace.w%u", W), casestr("hash_full_result_inplace", s, 12, 0), fmt("part=%s element %d", part, i)); break; }
    }
    // capacity-sized hashes
    {
        E h[4];
        PoseidonGoldilocks::hash_seq((E(&)[4])h, (const E(&)[12])in);
        c.evals++;
        for (int i = 0; i < 4; i++) if (h[i].fe % PR != ex[i]) { rep().viol(fmt("C06.wrong.hash_seq.w%u", W), casestr("hash_seq", s, 12, 0), fmt("part=%s element %d", part, i)); break; }
        PoseidonGoldilocks::hash((E(&)[4])h, (const E(&)[12])in);
        c.evals++;
        for (int i = 0; i < 4; i++) if (h[i].fe % PR != ex[i]) { rep().viol(fmt("C06.wrong.hash.w%u", W), casestr("hash", s, 12, 0), fmt("part=%s element %d", part, i)); break; }
        // digest written over the first four elements of its own input
        {
            E io[12];
            for (int i = 0; i < 12; i++) io[i].fe = s[i];
            PoseidonGoldilocks::hash((E(&)[4])io[0], (const E(&)[12])io);
            c.evals++;
            for (int i = 0; i < 4; i++) if (io[i].fe % PR != ex[i]) { rep().viol(fmt("C06.wrong.hash.alias.w%u", W), casestr("hash_alias", s, 12, 0), fmt("part=%s element %d", part, i)); break; }
            for (int i = 0; i < 12; i++) io[i].fe = s[i];
            PoseidonGoldilocks::hash_seq((E(&)[4])io[0], (const E(&)[12])io);
            c.evals++;
            for (int i = 0; i < 4; i++) if (io[i].fe % PR != ex[i]) { rep().viol(fmt("C06.wrong.hash_seq.alias.w%u", W), casestr("hash_seq_alias", s, 12, 0), fmt("part=%s element %d", part, i)); break; }
        }
    }
#ifdef __AVX512__
    {
        // interleaved layout: [s[0..3] s2[0..3] s[4..7] s2[4..7] s[8..11] s2[8..11]]
        E in2[24], out2[24];
        u64 raw[24];
        for (int j = 0; j < 3; j++)
            for (int i = 0; i < 4; i++) { in2[8 * j + i].fe = s[4 * j + i]; in2[8 * j + 4 + i].fe = s2[4 * j + i]; }
        for (int i = 0; i < 24; i++) raw[i] = in2[i].fe;
        PoseidonGoldilocks::hash_full_result_avx512(out2, in2);
        c.evals++;
        bool bad = false;
        for (int j = 0; j < 3 && !bad; j++)
            for (int i = 0; i < 4; i++)
            {
                u64 a = out2[8 * j + i].fe, b = out2[8 * j + 4 + i].fe;
                if (a > MASK || a % PR != ex[4 * j + i] || b > MASK || b % PR != ex2[4 * j + i])
                {
                    rep().viol(fmt("C06.wrong.hash_full_result_avx512.w%u", W), casestr("hash_full_result_avx512", raw, 24, 0),
                               fmt("part=%s element %d got (%s,%s) expected (%s,%s)", part, 4 * j + i, hex(a).c_str(), hex(b).c_str(), hex(ex[4 * j + i]).c_str(), hex(ex2[4 * j + i]).c_str()));
                    bad = true;
                    break;
                }
            }
        E h8[8];
        PoseidonGoldilocks::hash_avx512((E(&)[8])h8, (const E(&)[24])in2);
        c.evals++;
        for (int i = 0; i < 4; i++)
            if (h8[i].fe % PR != ex[i] || h8[4 + i].fe % PR != ex2[i]) { rep().viol(fmt("C06.wrong.hash_avx512.w%u", W), casestr("hash_avx512", raw, 24, 0), fmt("part=%s element %d", part, i)); break; }
    }
#endif
    c.states++;
    if (noncanon) c.nontriv++;
}

static int run_one(const Args &args, const pref::Ref &R)
{
    auto m = parse_case(args.one);
    if (cu(m, "w", 32) != W) { printf("INFO skip width\n"); return 0; }
    auto st = culist(m, "state");
    u64 s[12], s2[12];
    if (st.size() == 24)
    {
        for (int j = 0; j < 3; j++) for (int i = 0; i < 4; i++) { s[4 * j + i] = st[8 * j + i]; s2[4 * j + i] = st[8 * j + 4 + i]; }
    }
    else
    {
        st.resize(12);
        for (int i = 0; i < 12; i++) s[i] = s2[i] = st[i];
    }
    Cnt c;
    check_state(R, s, s2, c, "replay");
    rep().flush();
    return 0;
}

int main(int argc, char **argv)
{
    Args args = parse_args(argc, argv);
    omp_set_num_threads(args.jobs);
    pref::Tables T = tables();
    pref::Ref R(T);
    rep().max_per_sig = 2;
    if (!args.one.empty()) return run_one(args, R);
    long long obligations = 0;
    // ------------------------------------------------------------ table obligations (exhaustive)
    for (int i = 0; i < 118; i++, obligations++)
        if (T.C[i] > PR - 1) rep().viol("C06.table.C-not-small", fmt("w=%u table=C index=%d", W, i), "round constant exceeds p-1 but is fed to the 'small' adder");
    for (int i = 0; i < 507; i++, obligations++)
        if (T.S[i] > PR - 1) rep().viol("C06.table.S-noncanonical", fmt("w=%u table=S index=%d", W, i), "");
    for (int k = 0; k < 12; k++)
        for (int t = 0; t < 12; t++, obligations += 2)
        {
            if (T.M_[12 * k + t] != T.M[12 * t + k]) rep().viol("C06.table.M_-layout", fmt("w=%u table=M_ index=%d", W, 12 * k + t), "M_[12k+t] != M[t][k]");
            if (T.P_[12 * k + t] != T.Pm[12 * t + k]) rep().viol("C06.table.P_-layout", fmt("w=%u table=P_ index=%d", W, 12 * k + t), "P_[12k+t] != P[t][k]");
        }
    {
        u64 b8 = 256;
        if (W < 32) { u64 lim = ((1ULL << W) - 1) / 3 + 1; if (lim < b8) b8 = lim; }
        for (int i = 0; i < 144; i++, obligations++)
            if (T.M_[i] >= b8) rep().viol("C06.table.M_-not-8bit", fmt("w=%u table=M_ index=%d", W, i), fmt("entry %s >= %llu", hex(T.M_[i]).c_str(), (unsigned long long)b8));
    }
    rep().stat("table_obligations", obligations);

    Cnt tot;
    // ------------------------------------------------------------ known-answer vectors (64-bit only)
    if (W == 32)
    {
        u64 fib[12] = {0, 1}, z[12] = {0};
        for (int i = 2; i < 12; i++) fib[i] = fib[i - 1] + fib[i - 2];
        static const u64 kat_f[12] = {0X3095570037F4605DULL, 0X3D561B5EF1BC8B58ULL, 0X8129DB5EC75C3226ULL, 0X8EC2B67AFB6B87EDULL, 0XFC591F17D0FAB161ULL, 0X1D2B045CC2FEA1ADULL,
                                      0X8A4E3B0CB12D4527ULL, 0XFF217A756AE2211ULL, 0X78F6E79CFC407293ULL, 0X3DE827E086AE61C9ULL, 0X921456F6D2D11E27ULL, 0XF58A41D4028C66A5ULL};
        static const u64 kat_z[12] = {0X3C18A9786CB0B359ULL, 0XC4055E3364A246C3ULL, 0X7953DB0AB48808F4ULL, 0XC71603F33A1144CAULL, 0XD7709673896996DCULL, 0X46A84E87642F44EDULL,
                                      0XD032648251EE0B3CULL, 0X1C687363B207DF62ULL, 0XDF8565563E8045FEULL, 0X40F5B37FF4254DAEULL, 0XD070F637B431067CULL, 0X1792B1C4342109D7ULL};
        u64 o[12];
        R.permute(o, fib);
        for (int i = 0; i < 12; i++) if (o[i] != kat_f[i]) { rep().viol("C06.kat.fibonacci", fmt("w=32 impl=reference kat=fibonacci"), fmt("reference permutation (library tables) differs from the known answer at element %d", i)); break; }
        R.permute(o, z);
        for (int i = 0; i < 12; i++) if (o[i] != kat_z[i]) { rep().viol("C06.kat.zero", fmt("w=32 impl=reference kat=zero"), fmt("reference permutation (library tables) differs from the known answer at element %d", i)); break; }
        check_state(R, fib, z, tot, "kat");
        check_state(R, z, fib, tot, "kat");
        rep().sample("kat", "\"state\":\"fibonacci 0,1,1,2,...\",\"expected0\":\"0x3095570037f4605d\"", 1);
    }
    // ------------------------------------------------------------ related pairs for the two-state (AVX-512) permutation: state B is state A
    // with its three 4-element blocks permuted / its twelve elements rotated -- a shortcut keyed on a relation between the two
    // interleaved states (equal halves of the interleaved buffer, ...) must still treat them as two states
    {
        u64 A[12], B[12];
        for (int base = 0; base < 2; base++)
        {
            for (int i = 0; i < 12; i++) A[i] = base ? ((0x9E3779B97F4A7C15ULL * (u64)(i + 1)) & MASK) % PR : (u64)(i / 4 + 1);
            static const int perm[6][3] = {{0, 1, 2}, {0, 2, 1}, {1, 0, 2}, {1, 2, 0}, {2, 0, 1}, {2, 1, 0}};
            for (int pi = 0; pi < 6; pi++)
            {
                for (int b = 0; b < 3; b++) for (int i = 0; i < 4; i++) B[4 * b + i] = A[4 * perm[pi][b] + i];
                check_state(R, A, B, tot, "pair-blocks");
            }
            for (int rot = 1; rot < 12; rot++)
            {
                for (int i = 0; i < 12; i++) B[i] = A[(i + rot) % 12];
                check_state(R, A, B, tot, "pair-rotation");
            }
        }
    }
    // ------------------------------------------------------------ state enumeration
    std::vector<std::vector<u64>> bases;
    {
        std::vector<u64> z(12, 0), f(12), pm1(12, PR - 1), pp(12, PR & MASK), ff(12, MASK);
        f[0] = 0; f[1] = 1;
        for (int i = 2; i < 12; i++) f[i] = (f[i - 1] + f[i - 2]) % PR;
        bases = {z, f, pm1, pp, ff};
    }
    std::vector<u64> A;
    size_t nbases;
    bool pairs;
    if (W < 32)
    {
        // single deviations: ALL lane values
        for (u64 x = 0; x <= MASK; x++) A.push_back(x);
        nbases = args.thorough() ? 4 : 1;
        pairs = args.thorough();
    }
    else
    {
        A = alphabet(args.thorough()); // A_q / A_t
        auto g = noncanon_generators();
        for (size_t i = 0; i < 8 && i < g.size(); i++) { A.push_back(g[i].first); A.push_back(g[i].second); }
        nbases = 5;
        pairs = true;
    }
    // 1 deviation
    {
        Cnt c;
        const size_t nA = A.size();
#pragma omp parallel
        {
            Cnt lc;
#pragma omp for schedule(dynamic, 64) collapse(2)
            for (size_t b = 0; b < nbases; b++)
                for (size_t v = 0; v < nA; v++)
                {
                    u64 s[12], s2[12];
                    for (int pos = 0; pos < 12; pos++)
                    {
                        for (int i = 0; i < 12; i++) { s[i] = bases[b][i]; s2[i] = bases[(b + 1) % bases.size()][i]; }
                        s[pos] = A[v];
                        s2[(pos + 5) % 12] = A[(v + 1) % nA];
                        check_state(R, s, s2, lc, "dev1");
                    }
                }
#pragma omp critical
            { c.evals += lc.evals; c.states += lc.states; c.nontriv += lc.nontriv; }
        }
        tot.evals += c.evals; tot.states += c.states; tot.nontriv += c.nontriv;
        rep().sample("dev1", fmt("\"w\":%u,\"what\":\"%zu base states, one deviating position (all 12) over %zu values%s\",\"states\":%lld", W, nbases, nA, W < 32 ? " = every lane value" : " (alphabet)", c.states), 1);
    }
    // 2 deviations
    if (pairs)
    {
        std::vector<u64> B;
        if (W < 32)
        {
            u64 c[] = {0, 1, 2, PR - 2, PR - 1, PR, PR + 1, MASK, MASK - 1, (1ULL << W) - 1, 1ULL << W, (1ULL << W) + 1, PR / 2, PR / 2 + 1};
            for (u64 x : c) B.push_back(x & MASK);
            for (u64 x = 3; B.size() < 64; x = (x * 2654435761ULL + 12345) & MASK) B.push_back(x); // fixed deterministic fill (not sampling a larger claim: the set is listed)
            std::sort(B.begin(), B.end());
            B.erase(std::unique(B.begin(), B.end()), B.end());
        }
        else
        {
            B = small_alphabet();
            { u64 c[] = {GP + 2, 0xFFFFFFFFFFFFFFFEULL, 0xFFFFFFFF80000000ULL, 3, 0x7FFFFFFFFFFFFFFFULL, (GP - 1) / 2, 0xFFFFFFFEFFFFFFFFULL, 0xFFFF, 0x10000, 0xAAAAAAAAAAAAAAAAULL}; for (u64 x : c) B.push_back(x); }
        }
        const size_t nB = B.size();
        size_t nb2 = (W < 32) ? 1 : (args.thorough() ? 5 : 2);
        Cnt c;
#pragma omp parallel
        {
            Cnt lc;
#pragma omp for schedule(dynamic, 1) collapse(2)
            for (size_t b = 0; b < nb2; b++)
                for (int p0 = 0; p0 < 12; p0++)
                {
                    u64 s[12], s2[12];
                    for (int p1 = p0 + 1; p1 < 12; p1++)
                        for (size_t v0 = 0; v0 < nB; v0++)
                            for (size_t v1 = 0; v1 < nB; v1++)
                            {
                                for (int i = 0; i < 12; i++) { s[i] = bases[b][i]; s2[i] = bases[(b + 2) % bases.size()][i]; }
                                s[p0] = B[v0]; s[p1] = B[v1];
                                s2[p1] = B[v0]; s2[p0] = B[v1];
                                check_state(R, s, s2, lc, "dev2");
                            }
                }
#pragma omp critical
            { c.evals += lc.evals; c.states += lc.states; c.nontriv += lc.nontriv; }
        }
        tot.evals += c.evals; tot.states += c.states; tot.nontriv += c.nontriv;
        rep().sample("dev2", fmt("\"w\":%u,\"what\":\"%zu base state(s), all position pairs, values over %zu-element set\",\"states\":%lld", W, nb2, nB, c.states), 1);
    }
    // chaining: outputs fed back (non-initial states), raw library representations kept
    {
        int depth = args.thorough() ? 64 : 16;
        Cnt c;
        for (size_t b = 0; b < bases.size(); b++)
        {
            E cur[12], nxt[12];
            for (int i = 0; i < 12; i++) cur[i].fe = bases[b][i];
            for (int d = 0; d < depth; d++)
            {
                u64 s[12], s2[12];
                for (int i = 0; i < 12; i++) { s[i] = cur[i].fe; s2[i] = cur[(i + 1) % 12].fe; }
                check_state(R, s, s2, c, "chain");
                PoseidonGoldilocks::hash_full_result(nxt, cur); // keep whatever representation the vector code emits
                for (int i = 0; i < 12; i++) cur[i] = nxt[i];
            }
        }
        tot.evals += c.evals; tot.states += c.states; tot.nontriv += c.nontriv;
    }
    rep().stat("states", tot.states);
    rep().stat(fmt("states_w%u", W), tot.states);
    rep().stat("transitions", tot.evals);
    rep().stat("evaluations", tot.evals);
    rep().stat("distinct_nontrivial", tot.nontriv);
    rep().flush();
    return 0;
}
