// C02 / C11: AVX2 and AVX-512 lane kernels equal the scalar field operation in every lane
// for every input allowed by the kernel's documented operand assumption.
//
// Linked against one or two kernel tables (kernels_tu.cpp):
//   -DHAVE_MDL (width w<32) : exhaustive over ALL operand pairs of the width-scaled source
//   -DHAVE_NAT              : compiled kernels on all ordered alphabet pairs (64-bit)
//   both (mdl at w=32)      : kernel conformance model==hardware bit for bit, 64-bit path
//                             signatures, and lifting of every small-width signature to a
//                             64-bit input that is then run on the compiled kernel.
#include "vcommon.hpp"
#include "ktab.hpp"
#include <omp.h>
#include <fstream>
#include <sstream>

using namespace vc;
#ifdef HAVE_NAT
namespace nat { extern const KTab tab; }
#endif
#ifdef HAVE_MDL
namespace mdl { extern const KTab tab; }
#endif

struct Field
{
    unsigned W;
    u64 P, M, MSB, HM;
    explicit Field(unsigned w) : W(w)
    {
        P = pw(w);
        M = (w == 32) ? ~0ULL : ((1ULL << (2 * w)) - 1);
        MSB = 1ULL << (2 * w - 1);
        HM = (w == 32) ? 0xFFFFFFFFULL : ((1ULL << w) - 1);
    }
    u64 b8() const { return W >= 8 ? 256 : (1ULL << W); }
};

static bool shifted_a(KSpec s) { return s == S_CANON_S || s == S_ADD_A_SC || s == S_ADD_S_BSMALL || s == S_SUB_S_BSMALL; }

static bool pre(const Field &F, KSpec s, u64 a, u64 b)
{
    switch (s)
    {
    case S_ADD_A_SC: return a < F.P;
    case S_ADD_S_BSMALL: case S_ADD_BSMALL: case S_SUB_S_BSMALL: case S_SUB_BC: return b <= F.P - 1;
    case S_MUL8: case S_MUL72: return b < F.b8();
    case S_RED96: return a < (F.HM + 1);
    default: return true;
    }
}
// a, b are the mathematical operands (unshifted); o1/o2 raw outputs
static bool post(const Field &F, KSpec s, u64 a, u64 b, u64 o1, u64 o2, std::string *why)
{
    const u64 P = F.P;
    auto modp = [&](u128 x) { return (u64)(x % P); };
    if (o1 > F.M || o2 > F.M) { if (why) *why = "output exceeds lane width"; return false; }
    u64 ex;
    switch (s)
    {
    case S_SHIFT: ex = a ^ F.MSB; if (o1 != ex) { if (why) *why = "expected " + hex(ex); return false; } return true;
    case S_CANON: ex = a % P; if (o1 != ex) { if (why) *why = "expected canonical " + hex(ex); return false; } return true;
    case S_CANON_S: ex = a % P; if ((o1 ^ F.MSB) != ex) { if (why) *why = "expected shifted canonical of " + hex(ex); return false; } return true;
    case S_ADD: case S_ADD_A_SC: case S_ADD_BSMALL: ex = modp((u128)a + b); if (o1 % P != ex) { if (why) *why = "expected " + hex(ex); return false; } return true;
    case S_ADD_S_BSMALL: ex = modp((u128)a + b); if ((o1 ^ F.MSB) % P != ex) { if (why) *why = "expected (shifted) " + hex(ex); return false; } return true;
    case S_SUB: case S_SUB_BC: ex = modp((u128)(a % P) + P - (b % P)); if (o1 % P != ex) { if (why) *why = "expected " + hex(ex); return false; } return true;
    case S_SUB_S_BSMALL: ex = modp((u128)(a % P) + P - (b % P)); if ((o1 ^ F.MSB) % P != ex) { if (why) *why = "expected (shifted) " + hex(ex); return false; } return true;
    case S_MUL: case S_MUL8: ex = modp((u128)(a % P) * (b % P)); if (o1 % P != ex) { if (why) *why = "expected " + hex(ex); return false; } return true;
    case S_SQ: ex = modp((u128)(a % P) * (a % P)); if (o1 % P != ex) { if (why) *why = "expected " + hex(ex); return false; } return true;
    case S_MUL128: case S_MUL72: case S_SQ128:
    {
        u128 prod = (u128)a * (s == S_SQ128 ? a : b);
        u64 eh = (F.W == 32) ? (u64)(prod >> 64) : (u64)(prod >> (2 * F.W));
        u64 el = (u64)prod & F.M;
        if (o1 != eh || o2 != el) { if (why) *why = "expected hi " + hex(eh) + " lo " + hex(el); return false; }
        return true;
    }
    case S_RED128: case S_RED96:
    {
        // value = a * 2^2w + b ; 2^2w mod p = 2^w - 1
        u64 t = modp((u128)(a % P) * (F.HM % P));
        ex = modp((u128)t + (b % P));
        if (o1 % P != ex) { if (why) *why = "expected " + hex(ex); return false; }
        return true;
    }
    }
    return false;
}

struct SigAcc
{
    // small per-thread table sig -> count, witness
    struct Ent { u64 sig; long long n; u64 a, b; };
    std::vector<Ent> v;
    void add(u64 sig, u64 a, u64 b)
    {
        for (auto &e : v) if (e.sig == sig) { e.n++; return; }
        v.push_back({sig, 1, a, b});
    }
    void merge(const SigAcc &o)
    {
        for (auto &e : o.v)
        {
            bool f = false;
            for (auto &m : v) if (m.sig == e.sig) { m.n += e.n; f = true; break; }
            if (!f) v.push_back(e);
        }
    }
};

static std::string casestr(const Field &F, const KEntry &k, const char *side, int lane, u64 a, u64 b)
{
    return fmt("w=%u kernel=%s side=%s lane=%d a=%s b=%s", F.W, k.name, side, lane, hex(a).c_str(), hex(b).c_str());
}

// run one vector: lanes get (av[j], bv[j]); lanes with pre==false are replaced by (0,0) and not checked
static inline void run_vec(const Field &F, const KTab &T, const KEntry &k, const char *side, const u64 *av, const u64 *bv,
                           long long &evals, long long &viol, SigAcc *sa, u64 *out1 = nullptr, u64 *out2 = nullptr)
{
    alignas(64) u64 ia[8], ib[8], o1[8] = {0}, o2[8] = {0};
    bool ok[8];
    bool sh = shifted_a(k.spec);
    for (int j = 0; j < k.lanes; j++)
    {
        ok[j] = pre(F, k.spec, av[j], bv[j]);
        u64 a = ok[j] ? av[j] : 0, b = ok[j] ? bv[j] : 0;
        ia[j] = sh ? (a ^ F.MSB) : a;
        ib[j] = b;
    }
    if (sa) T.sig_reset();
    k.fn(ia, ib, o1, o2);
    for (int j = 0; j < k.lanes; j++)
    {
        if (out1) out1[j] = o1[j];
        if (out2) out2[j] = o2[j];
        if (!ok[j]) continue;
        evals++;
        if (sa) sa->add(T.sig_get(j), av[j], bv[j]);
        if (!post(F, k.spec, av[j], bv[j], o1[j], o2[j], nullptr))
        {
            std::string why;
            post(F, k.spec, av[j], bv[j], o1[j], o2[j], &why);
            viol++;
            // does the failing pair fail on its own (the same pair in every lane)?  If not, the lane depends on what the OTHER
            // lanes hold: the case is then the whole register, and the replay loads the whole register
            alignas(64) u64 pa[8], pb[8], p1[8] = {0}, p2[8] = {0};
            for (int t = 0; t < k.lanes; t++) { pa[t] = sh ? (av[j] ^ F.MSB) : av[j]; pb[t] = bv[j]; }
            k.fn(pa, pb, p1, p2);
            bool alone = !post(F, k.spec, av[j], bv[j], p1[j], p2[j], nullptr);
            if (alone)
                rep().viol(fmt("%s.wrong.%s.w%u", k.lanes == 8 ? "C11" : "C02", k.name, F.W), casestr(F, k, side, j, av[j], bv[j]),
                           fmt("got o1=%s o2=%s; %s", hex(o1[j]).c_str(), hex(o2[j]).c_str(), why.c_str()));
            else
            {
                std::string la, lb;
                for (int t = 0; t < k.lanes; t++) { la += (t ? "," : "") + hex(ok[t] ? av[t] : 0); lb += (t ? "," : "") + hex(ok[t] ? bv[t] : 0); }
                rep().viol(fmt("%s.wrong.%s.cross-lane.w%u", k.lanes == 8 ? "C11" : "C02", k.name, F.W), fmt("w=%u kernel=%s side=%s av=%s bv=%s", F.W, k.name, side, la.c_str(), lb.c_str()),
                           fmt("lane %d (a=%s b=%s) got o1=%s o2=%s; %s -- the same pair in every lane is computed correctly: the lane's result depends on the other lanes", j, hex(av[j]).c_str(), hex(bv[j]).c_str(), hex(o1[j]).c_str(), hex(o2[j]).c_str(), why.c_str()));
                if (sa) T.sig_reset();
                return;
            }
        }
    }
}

static bool want_kernel(const Args &args, const KEntry &k)
{
    std::string fam = cs(args.kv, "family", "all");
    if (fam == "avx2" && k.lanes != 4) return false;
    if (fam == "avx512" && k.lanes != 8) return false;
    if (!args.part.empty() && args.part != k.name) return false;
    return true;
}

// ------------------------------------------------------------------ exhaustive (scaled model)
#ifdef HAVE_MDL
static void exhaustive(const Args &args)
{
    const KTab &T = mdl::tab;
    Field F(T.width);
    const u64 N = F.M + 1;
    long long tot_evals = 0, tot_cases = 0, nontrivial = 0, outcomes = 0;
    const int nrot_max = (F.W <= 4) ? 8 : 1;
    for (int ki = 0; ki < T.n; ki++)
    {
        const KEntry &k = T.e[ki];
        if (!want_kernel(args, k)) continue;
        long long evals = 0, viol = 0, cases = 0;
        SigAcc total;
        const int L = k.lanes;
        const int nrot = std::min(nrot_max, L);
        const bool alias_entry = strstr(k.name, "alias") != nullptr;
        if (alias_entry && F.W > 4) continue; // aliasing forms: full enumeration at w<=4 only (same kernel body)
#pragma omp parallel reduction(+ : evals, viol, cases)
        {
            SigAcc sa;
            if (k.nin == 2)
            {
#pragma omp for schedule(dynamic, 8)
                for (u64 a = 0; a < N; a++)
                {
                    u64 av[8], bv[8];
                    for (u64 b0 = 0; b0 < N; b0 += L)
                    {
                        for (int r = 0; r < nrot; r++)
                        {
                            for (int j = 0; j < L; j++) { av[j] = a; bv[j] = (b0 + ((j + r) % L)) & F.M; }
                            run_vec(F, T, k, "mdl", av, bv, evals, viol, &sa);
                        }
                    }
                }
            }
            else
            {
#pragma omp for schedule(dynamic, 64)
                for (u64 a0 = 0; a0 < N; a0 += L)
                {
                    u64 av[8], bv[8] = {0};
                    for (int r = 0; r < nrot; r++)
                    {
                        for (int j = 0; j < L; j++) av[j] = (a0 + ((j + r) % L)) & F.M;
                        run_vec(F, T, k, "mdl", av, bv, evals, viol, &sa);
                    }
                }
            }
#pragma omp critical
            total.merge(sa);
        }
        cases = evals / nrot; // distinct (kernel, operand tuple) cases admitted by the precondition
        tot_evals += evals;
        tot_cases += cases;
        outcomes += (long long)total.v.size();
        for (auto &e : total.v)
        {
            printf("INFO sig w=%u kernel=%s sig=%s count=%lld a=%s b=%s\n", F.W, k.name, hex(e.sig).c_str(), e.n, hex(e.a).c_str(), hex(e.b).c_str());
            // non-trivial: any compare bit set (signature differs from the all-zero-bits one of the same length)
            u64 s = e.sig;
            int len = 63 - __builtin_clzll(s | 1);
            if (s != (1ULL << len)) nontrivial++;
        }
        rep().sample(fmt("scaled-%s", k.name), fmt("\"w\":%u,\"kernel\":\"%s\",\"cases\":%lld,\"lane_evaluations\":%lld,\"path_signatures\":%zu,\"what\":\"all operand %s allowed by the precondition, every lane position\"",
                                                    F.W, k.name, cases, evals, total.v.size(), k.nin == 2 ? "pairs" : "values"), 1);
    }
    rep().stat("states", tot_cases);
    rep().stat(fmt("states_w%u", F.W), tot_cases);
    rep().stat("transitions", tot_evals);
    rep().stat("evaluations", tot_evals);
    rep().stat("distinct_outcomes", outcomes);
    rep().stat("distinct_nontrivial", nontrivial);
}
#endif

// ------------------------------------------------------------------ native alphabet run
#ifdef HAVE_NAT
static void native_alphabet(const Args &args)
{
    const KTab &T = nat::tab;
    Field F(32);
    std::vector<u64> A = alphabet(args.thorough());
    if (args.seed) std::rotate(A.begin(), A.begin() + (args.seed % A.size()), A.end());
    auto gens = noncanon_generators();
    long long tot_evals = 0, tot_cases = 0;
    for (int ki = 0; ki < T.n; ki++)
    {
        const KEntry &k = T.e[ki];
        if (!want_kernel(args, k)) continue;
        long long evals = 0, viol = 0;
        const int L = k.lanes;
        size_t n = A.size();
#pragma omp parallel for schedule(dynamic, 4) reduction(+ : evals, viol)
        for (size_t i = 0; i < n; i++)
        {
            u64 av[8], bv[8] = {0};
            if (k.nin == 2)
            {
                for (size_t j0 = 0; j0 < n; j0 += L)
                {
                    for (int j = 0; j < L; j++) { av[j] = A[i]; bv[j] = A[(j0 + j + (args.seed % L)) % n]; }
                    run_vec(F, T, k, "nat", av, bv, evals, viol, nullptr);
                }
            }
            else if (i % L == 0)
            {
                for (int j = 0; j < L; j++) av[j] = A[(i + j) % n];
                run_vec(F, T, k, "nat", av, bv, evals, viol, nullptr);
            }
        }
        if (k.spec == S_MUL || k.spec == S_MUL128)
        {
            for (size_t g0 = 0; g0 < gens.size(); g0 += L)
            {
                u64 av[8], bv[8];
                for (int j = 0; j < L; j++) { av[j] = gens[(g0 + j) % gens.size()].first; bv[j] = gens[(g0 + j) % gens.size()].second; }
                run_vec(F, T, k, "nat", av, bv, evals, viol, nullptr);
                run_vec(F, T, k, "nat", bv, av, evals, viol, nullptr);
            }
        }
        tot_evals += evals;
        tot_cases += evals;
    }
    rep().sample("native-alphabet", fmt("\"alphabet_size\":%zu,\"pairs_per_kernel\":%zu,\"generators\":%zu,\"example\":{\"kernel\":\"mult_avx\",\"a\":\"0x3\",\"b\":\"0x5555555555555555\"}", A.size(), A.size() * A.size(), gens.size()), 1);
    rep().stat("states", tot_cases);
    rep().stat("states_native", tot_cases);
    rep().stat("transitions", tot_evals);
    rep().stat("evaluations", tot_evals);
}
#endif

// ------------------------------------------------------------------ conformance + lifting
#if defined(HAVE_NAT) && defined(HAVE_MDL)
static const KEntry *find(const KTab &T, const char *name)
{
    for (int i = 0; i < T.n; i++) if (!strcmp(T.e[i].name, name)) return &T.e[i];
    return nullptr;
}
static std::vector<u64> lift_half(u64 h, unsigned w)
{
    // candidates for mapping a w-bit half to 32 bits
    std::vector<u64> c;
    u64 hm = (1ULL << w) - 1;
    h &= hm;
    c.push_back(h);                                                    // zero-extend
    c.push_back((h >> (w - 1)) ? (0xFFFFFFFFULL & ~hm) | h : h);       // sign-extend
    c.push_back((h << (32 - w)) & 0xFFFFFFFFULL);                      // left-justify, zero fill
    c.push_back(((h << (32 - w)) | ((1ULL << (32 - w)) - 1)) & 0xFFFFFFFFULL); // left-justify, ones fill
    u64 rep_ = 0;
    for (unsigned s = 0; s < 32; s += w) rep_ |= h << s;
    c.push_back(rep_ & 0xFFFFFFFFULL);                                 // replicate
    std::sort(c.begin(), c.end());
    c.erase(std::unique(c.begin(), c.end()), c.end());
    return c;
}
static void conformance(const Args &args)
{
    const KTab &TN = nat::tab, &TM = mdl::tab;
    if (TM.width != 32) { fprintf(stderr, "conformance needs the model at w=32\n"); exit(2); }
    Field F(32);
    std::vector<u64> A = alphabet(args.thorough());
    long long validated = 0, evals = 0, viol = 0, mism = 0;
    std::map<std::string, std::map<u64, std::pair<u64, u64>>> sig32; // kernel -> sig -> witness
    for (int ki = 0; ki < TN.n; ki++)
    {
        const KEntry &kn = TN.e[ki];
        if (!want_kernel(args, kn)) continue;
        const KEntry *km = find(TM, kn.name);
        if (!km) { rep().uncovered(fmt("kernel %s missing in model table", kn.name)); continue; }
        const int L = kn.lanes;
        size_t n = A.size();
        SigAcc sa;
        for (size_t i = 0; i < n; i++)
        {
            for (size_t j0 = 0; j0 < (kn.nin == 2 ? n : 1); j0 += L)
            {
                u64 av[8], bv[8] = {0}, n1[8], n2[8], m1[8], m2[8];
                for (int j = 0; j < L; j++)
                {
                    if (kn.nin == 2) { av[j] = A[i]; bv[j] = A[(j0 + j) % n]; }
                    else av[j] = A[(i + j) % n];
                }
                run_vec(F, TN, kn, "nat", av, bv, evals, viol, nullptr, n1, n2);
                run_vec(F, TM, *km, "mdl32", av, bv, evals, viol, &sa, m1, m2);
                for (int j = 0; j < L; j++)
                {
                    if (n1[j] != m1[j] || (kn.nout == 2 && n2[j] != m2[j]))
                    {
                        mism++;
                        rep().viol(fmt("CONF.kernel-model-mismatch.%s", kn.name), casestr(F, kn, "both", j, av[j], bv[j]),
                                   fmt("native o1=%s o2=%s model o1=%s o2=%s", hex(n1[j]).c_str(), hex(n2[j]).c_str(), hex(m1[j]).c_str(), hex(m2[j]).c_str()));
                    }
                    else validated++;
                }
            }
        }
        for (auto &e : sa.v) sig32[kn.name][e.sig] = {e.a, e.b};
    }
    rep().stat("traces_validated_against_impl", validated);
    rep().stat("conformance_lane_evaluations", validated + mism);
    // lifting of small-width signatures
    std::string sf = cs(args.kv, "sigfile");
    long long lifted = 0, direct = 0, unl = 0;
    if (!sf.empty())
    {
        std::ifstream in(sf);
        std::string line;
        while (std::getline(in, line))
        {
            // "w=4 kernel=add_avx sig=0x.. count=.. a=0x.. b=0x.."
            auto m = parse_case(line);
            std::string kname = cs(m, "kernel");
            unsigned w = (unsigned)cu(m, "w");
            u64 sig = cu(m, "sig");
            if (kname.empty() || !w) continue;
            const KEntry *kn = find(TN, kname.c_str());
            const KEntry *km = find(TM, kname.c_str());
            if (!kn || !km) continue;
            if (!want_kernel(args, *kn)) continue;
            if (sig32[kname].count(sig)) { direct++; continue; }
            u64 a = cu(m, "a"), b = cu(m, "b");
            auto ah = lift_half(a >> w, w), al = lift_half(a, w), bh = lift_half(b >> w, w), bl = lift_half(b, w);
            bool done = false;
            const int L = kn->lanes;
            for (u64 x1 : ah) { for (u64 x0 : al) { for (u64 y1 : bh) { for (u64 y0 : bl)
            {
                u64 A64 = (x1 << 32) | x0, B64 = (y1 << 32) | y0;
                if (!pre(F, kn->spec, A64, B64)) continue;
                u64 av[8], bv[8], o1[8], o2[8];
                for (int j = 0; j < L; j++) { av[j] = A64; bv[j] = B64; }
                long long e2 = 0, v2 = 0;
                SigAcc sa;
                run_vec(F, TM, *km, "mdl32", av, bv, e2, v2, &sa, o1, o2);
                if (sa.v.size() == 1 && sa.v[0].sig == sig)
                {
                    // replay on the compiled kernel, checked against the oracle inside run_vec
                    u64 n1[8], n2[8];
                    run_vec(F, TN, *kn, "nat", av, bv, evals, viol, nullptr, n1, n2);
                    if (n1[0] != o1[0] || (kn->nout == 2 && n2[0] != o2[0]))
                        rep().viol(fmt("CONF.kernel-model-mismatch.%s", kn->name), casestr(F, *kn, "both", 0, A64, B64), "lifted trace: native and model differ");
                    sig32[kname][sig] = {A64, B64};
                    lifted++;
                    done = true;
                    printf("INFO lifted kernel=%s sig=%s from w=%u (a=%s b=%s) to a=%s b=%s\n", kname.c_str(), hex(sig).c_str(), w, hex(a).c_str(), hex(b).c_str(), hex(A64).c_str(), hex(B64).c_str());
                }
                if (done) break;
            } if (done) break; } if (done) break; } if (done) break; }
            if (!done)
            {
                unl++;
                rep().uncovered(fmt("path signature not lifted to 64 bits: kernel=%s sig=%s (w=%u witness a=%s b=%s)", kname.c_str(), hex(sig).c_str(), w, hex(a).c_str(), hex(b).c_str()));
            }
        }
    }
    long long nsig = 0;
    for (auto &kv : sig32) nsig += (long long)kv.second.size();
    rep().stat("sig64_classes", nsig);
    rep().stat("sig_lifted", lifted);
    rep().stat("sig_direct", direct);
    rep().stat("sig_unlifted", unl);
    rep().stat("traces_validated_against_impl", lifted);
    rep().stat("evaluations", evals);
    rep().stat("transitions", evals);
}
#endif

static int run_one(const Args &args)
{
    auto m = parse_case(args.one);
    unsigned w = (unsigned)cu(m, "w", 32);
    std::string side = cs(m, "side");
    const KTab *T = nullptr;
#ifdef HAVE_MDL
    if (side == "mdl" || side == "mdl32" || side == "both") T = &mdl::tab;
#endif
#ifdef HAVE_NAT
    if (side == "nat") T = &nat::tab;
#endif
    if (!T || T->width != w) { printf("INFO skip side/width not in this binary\n"); return 0; }
    Field F(w);
    for (int i = 0; i < T->n; i++)
    {
        if (cs(m, "kernel") != T->e[i].name) continue;
        u64 av[8], bv[8];
        for (int j = 0; j < 8; j++) { av[j] = cu(m, "a"); bv[j] = cu(m, "b"); }
        if (m.count("av"))
        {
            std::vector<u64> la = culist(m, "av"), lb = culist(m, "bv");
            for (int j = 0; j < 8; j++) { av[j] = j < (int)la.size() ? la[j] : 0; bv[j] = j < (int)lb.size() ? lb[j] : 0; }
        }
        long long e = 0, v = 0;
#if defined(HAVE_NAT) && defined(HAVE_MDL)
        if (side == "both")
        {
            u64 n1[8], n2[8], m1[8], m2[8];
            const KEntry *kn = find(nat::tab, T->e[i].name);
            run_vec(F, nat::tab, *kn, "nat", av, bv, e, v, nullptr, n1, n2);
            run_vec(F, *T, T->e[i], "mdl32", av, bv, e, v, nullptr, m1, m2);
            if (n1[0] != m1[0] || n2[0] != m2[0]) rep().viol(fmt("CONF.kernel-model-mismatch.%s", kn->name), args.one, "native and model differ");
            rep().flush();
            return 0;
        }
#endif
        run_vec(F, *T, T->e[i], side.c_str(), av, bv, e, v, nullptr);
    }
    rep().flush();
    return 0;
}

int main(int argc, char **argv)
{
    Args args = parse_args(argc, argv);
    omp_set_num_threads(args.jobs);
    if (!args.one.empty()) return run_one(args);
#if defined(HAVE_NAT) && defined(HAVE_MDL)
    conformance(args);
#elif defined(HAVE_MDL)
    exhaustive(args);
#elif defined(HAVE_NAT)
    native_alphabet(args);
#endif
    rep().flush();
    return 0;
}
