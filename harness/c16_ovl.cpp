// C16: every batched / AVX2 / AVX-512 cubic-extension overload (class Goldilocks3) equals the
// scalar extension operation on the k-th designated operands, and touches only designated positions.
// The whole harness is generic (engine/ovl/ovl_rt.hpp); the overload table and the wrappers are
// generated from the headers of the tree under test on every run (engine/ovl/decls.py, gen.py).
#include "ovl_rt.hpp"
int main(int argc, char **argv) { return ovl::ovl_main(argc, argv); }
