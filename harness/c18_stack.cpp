// C18 (stack part): the stack a call needs does not grow with the NUMBER of rows / elements it processes.
//
// The library keeps row temporaries and per-row digest buffers in variable-length arrays on the stack.  That is bounded by
// the size of ONE row as long as the array lives inside the loop body; an array whose length is the element count of the
// call, or memory that is only released when the whole loop returns, makes the stack depth proportional to the input and
// writes beyond the thread's stack once the input is large enough -- outside every declared scratch extent.
//
// Exploration: every operation of the table below x its configurations is executed on a thread whose stack is a fresh
// anonymous mapping owned by the harness (team of one, so that the parallel regions run on this very stack).  The
// high-water mark is read back from the kernel (lowest resident page of the mapping) for the count c and for 4c.
//   growth < 8 KiB           -> the stack does not depend on the count: nothing to report
//   growth >= 8 KiB          -> suspicion only.  It becomes a violation when it is CONFIRMED on the real code: the
//                               growth per unit is extrapolated to the smallest power-of-two count that exceeds the
//                               default 8 MiB stack by a factor 1.5, and exactly that call is executed on a thread with
//                               an 8 MiB stack in a child process.  Killed by SIGSEGV/SIGBUS = violation (replayable
//                               by op and count); survives, or too large to run here = reported as uncovered.
#include "vcommon.hpp"
#include "goldilocks_base_field.hpp"
#include "goldilocks_cubic_extension.hpp"
#include "poseidon_goldilocks.hpp"
#include "merklehash_goldilocks.hpp"
#include "ntt_goldilocks.hpp"
#include <pthread.h>
#include <sys/mman.h>
#include <sys/wait.h>
#include <functional>
using namespace vc;
typedef Goldilocks::Element E;

static const size_t DEFAULT_STACK = 8u << 20;
static const size_t PROBE_STACK = 64u << 20;
static const size_t PAGE = 4096;

struct Op
{
    std::string name;
    u64 c0;                                  // base count (measured at c0 and 4*c0)
    std::function<size_t(u64)> elems;        // heap elements the call needs for this count (feasibility of the confirmation)
    std::function<void(u64)> call;
};

struct ThreadArg { const std::function<void()> *fn; };
static void *tramp(void *p) { (*((ThreadArg *)p)->fn)(); return 0; }

// runs fn on a thread whose stack is [base, base+size); returns false when the thread could not be created
static bool run_on_stack(void *base, size_t size, const std::function<void()> &fn)
{
    pthread_attr_t at;
    pthread_attr_init(&at);
    if (pthread_attr_setstack(&at, base, size) != 0) return false;
    pthread_t th;
    ThreadArg a{&fn};
    if (pthread_create(&th, &at, tramp, &a) != 0) return false;
    pthread_join(th, 0);
    pthread_attr_destroy(&at);
    return true;
}
// high-water mark in bytes of fn's stack (page granularity)
static long long highwater(const std::function<void()> &fn)
{
    char *m = (char *)mmap(0, PROBE_STACK + PAGE, PROT_READ | PROT_WRITE, MAP_PRIVATE | MAP_ANONYMOUS | MAP_NORESERVE, -1, 0);
    if (m == MAP_FAILED) return -1;
    mprotect(m, PAGE, PROT_NONE);
    char *base = m + PAGE;
    long long hw = -1;
    if (run_on_stack(base, PROBE_STACK, fn))
    {
        std::vector<unsigned char> res(PROBE_STACK / PAGE);
        if (mincore(base, PROBE_STACK, res.data()) == 0)
        {
            size_t lowest = res.size();
            for (size_t i = 0; i < res.size(); i++) if (res[i] & 1) { lowest = i; break; }
            hw = (long long)(PROBE_STACK - lowest * PAGE);
        }
    }
    munmap(m, PROBE_STACK + PAGE);
    return hw;
}

static void fill(E *p, size_t n, u64 salt) { for (size_t i = 0; i < n; i++) p[i].fe = ((i + 1) * 0x9E3779B97F4A7C15ULL + salt) % GP; }

static std::vector<Op> table()
{
    std::vector<Op> ops;
    // transforms: rows is the count; 8 columns; every permutation branch (in place with even phase count, in place with
    // odd phase count, other destination), one and two blocks
    static const char *mn[] = {"NTT", "INTT", "extendPol"};
    for (int mode = 0; mode < 3; mode++)
        for (u64 ph : {1ULL, 2ULL, 3ULL, 4ULL})
            for (u64 bl : {1ULL, 2ULL})
                for (int inplace = 0; inplace < 2; inplace++)
                    for (int buf = 0; buf < 2; buf++)
                    {
                        if (buf && !(ph == 3 && bl == 1)) continue;
                        const u64 nc = 8;
                        Op o;
                        o.name = fmt("%s.ph%llu.bl%llu.%s.%s", mn[mode], (unsigned long long)ph, (unsigned long long)bl, inplace ? "inplace" : "dst", buf ? "buf" : "nobuf");
                        o.c0 = 512;
                        o.elems = [=](u64 n) { return (size_t)(n * nc * (mode == 2 ? 2 : 1) * 3); };
                        o.call = [=](u64 n) {
                            u64 nout = mode == 2 ? 2 * n : n;
                            std::vector<E> src(nout * nc), dst(nout * nc), bf(buf ? nout * nc : 1);
                            fill(src.data(), n * nc, 7);
                            NTT_Goldilocks ntt(n, 1);
                            E *d = inplace ? src.data() : dst.data();
                            E *b = buf ? bf.data() : nullptr;
                            if (mode == 0) ntt.NTT(d, src.data(), n, nc, b, ph, bl);
                            else if (mode == 1) ntt.INTT(d, src.data(), n, nc, b, ph, bl);
                            else ntt.extendPol(d, src.data(), nout, n, nc, b, ph, bl);
                        };
                        ops.push_back(o);
                    }
    // Merkle builders: rows is the count; 24 columns, batches of 3, one thread
    struct MB { const char *name; int kind; };
    std::vector<MB> mbs = {{"merkletree_seq", 0}, {"merkletree_avx", 1}, {"merkletree", 3}, {"merkletree_batch_seq", 4}, {"merkletree_batch_avx", 5}, {"merkletree_batch", 7}};
#ifdef __AVX512__
    mbs.push_back({"merkletree_avx512", 2});
    mbs.push_back({"merkletree_batch_avx512", 6});
#endif
    for (auto &mb : mbs)
        for (u64 dim : {1ULL, 3ULL})
        {
            const u64 cols = 24, batch = 3;
            int kind = mb.kind;
            Op o;
            o.name = fmt("%s.dim%llu", mb.name, (unsigned long long)dim);
            o.c0 = 64;
            o.elems = [=](u64 rows) { return (size_t)(rows * cols * dim + 8 * rows); };
            o.call = [=](u64 rows) {
                std::vector<E> in(rows * cols * dim), tree(MerklehashGoldilocks::getTreeNumElements(rows));
                fill(in.data(), in.size(), 11);
                switch (kind)
                {
                case 0: PoseidonGoldilocks::merkletree_seq(tree.data(), in.data(), cols, rows, 1, dim); break;
                case 1: PoseidonGoldilocks::merkletree_avx(tree.data(), in.data(), cols, rows, 1, dim); break;
                case 3: PoseidonGoldilocks::merkletree(tree.data(), in.data(), cols, rows, 1, dim); break;
                case 4: PoseidonGoldilocks::merkletree_batch_seq(tree.data(), in.data(), cols, rows, batch, 1, dim); break;
                case 5: PoseidonGoldilocks::merkletree_batch_avx(tree.data(), in.data(), cols, rows, batch, 1, dim); break;
                case 7: PoseidonGoldilocks::merkletree_batch(tree.data(), in.data(), cols, rows, batch, 1, dim); break;
#ifdef __AVX512__
                case 2: PoseidonGoldilocks::merkletree_avx512(tree.data(), in.data(), cols, rows, 1, dim); break;
                case 6: PoseidonGoldilocks::merkletree_batch_avx512(tree.data(), in.data(), cols, rows, batch, 1, dim); break;
#endif
                }
            };
            ops.push_back(o);
        }
    // sponge: the input length is the count
    {
        std::vector<std::pair<const char *, int>> lh = {{"linear_hash_seq", 0}, {"linear_hash", 1}};
#ifdef __AVX512__
        lh.push_back({"linear_hash_avx512", 2});
#endif
        for (auto &v : lh)
        {
            int kind = v.second;
            Op o;
            o.name = v.first;
            o.c0 = 1024;
            o.elems = [=](u64 n) { return (size_t)(2 * n + 16); };
            o.call = [=](u64 n) {
                std::vector<E> in(2 * n), out(8);
                fill(in.data(), in.size(), 13);
                if (kind == 0) PoseidonGoldilocks::linear_hash_seq(out.data(), in.data(), n);
                else if (kind == 1) PoseidonGoldilocks::linear_hash(out.data(), in.data(), n);
#ifdef __AVX512__
                else PoseidonGoldilocks::linear_hash_avx512(out.data(), in.data(), n);
#endif
            };
            ops.push_back(o);
        }
    }
    // cubic extension: simultaneous inversion of `count` elements
    {
        Op o;
        o.name = "Goldilocks3_batchInverse";
        o.c0 = 512;
        o.elems = [](u64 n) { return (size_t)(6 * n); };
        o.call = [](u64 n) {
            std::vector<E> src(3 * n), res(3 * n);
            fill(src.data(), src.size(), 17);
            Goldilocks3::batchInverse((Goldilocks3::Element *)res.data(), (Goldilocks3::Element *)src.data(), n);
        };
        ops.push_back(o);
    }
    return ops;
}

static const size_t MAX_ELEMS = (size_t)1 << 27; // 1 GiB of field elements: larger confirmations are not run here

// executes op(count) on an 8 MiB stack in a child; 1 = killed by a memory fault, 0 = completed, -1 = other
static int confirm(const Op &o, u64 count, std::string &how)
{
    fflush(stdout);
    pid_t pid = fork();
    if (pid == 0)
    {
        char *m = (char *)mmap(0, DEFAULT_STACK + PAGE, PROT_READ | PROT_WRITE, MAP_PRIVATE | MAP_ANONYMOUS | MAP_NORESERVE, -1, 0);
        if (m == MAP_FAILED) _exit(3);
        mprotect(m, PAGE, PROT_NONE); // the guard page every thread stack has
        bool ok = run_on_stack(m + PAGE, DEFAULT_STACK, [&]() { o.call(count); });
        _exit(ok ? 0 : 3);
    }
    int st = 0;
    waitpid(pid, &st, 0);
    if (WIFSIGNALED(st) && (WTERMSIG(st) == SIGSEGV || WTERMSIG(st) == SIGBUS)) { how = fmt("killed by signal %d", WTERMSIG(st)); return 1; }
    if (WIFEXITED(st) && WEXITSTATUS(st) == 0) { how = "completed"; return 0; }
    how = fmt("wait status %d", st);
    return -1;
}

static std::string casestr(const Op &o, u64 count) { return fmt("op=%s count=%llu stack=%zu", o.name.c_str(), (unsigned long long)count, DEFAULT_STACK); }

int main(int argc, char **argv)
{
    Args args = parse_args(argc, argv);
    omp_set_num_threads(1);
    std::vector<Op> ops = table();
    if (!args.one.empty())
    {
        auto m = parse_case(args.one);
        std::string name = cs(m, "op");
        u64 count = cu(m, "count");
        for (auto &o : ops)
            if (o.name == name)
            {
                std::string how;
                int r = confirm(o, count, how);
                if (r == 1) rep().viol("C18.stack-overflow." + o.name, casestr(o, count), "the call overruns a default 8 MiB thread stack: " + how);
                else printf("INFO replay: %s\n", how.c_str());
            }
        rep().flush();
        return 0;
    }
    long long meas = 0, grow = 0;
    std::set<long long> outcomes;
    for (auto &o : ops)
    {
        long long h1 = highwater([&]() { o.call(o.c0); }), h4 = highwater([&]() { o.call(4 * o.c0); });
        meas += 2;
        rep().stat("transitions", 2);
        rep().stat("evaluations", 2);
        if (h1 < 0 || h4 < 0) { rep().uncovered("stack high-water of " + o.name + " could not be measured"); continue; }
        long long d = h4 - h1;
        outcomes.insert(d / (long long)PAGE);
        if (d < 8192) continue;
        grow++;
        double per = (double)d / (3.0 * (double)o.c0);
        u64 need = (u64)(1.5 * (double)DEFAULT_STACK / per), count = 1;
        while (count < need) count *= 2;
        printf("INFO %s: stack %lld bytes at count %llu, %lld at %llu (%.1f bytes per unit): confirming at count %llu\n", o.name.c_str(), h1, (unsigned long long)o.c0, h4, (unsigned long long)(4 * o.c0), per, (unsigned long long)count);
        if (o.elems(count) > MAX_ELEMS) { rep().uncovered(fmt("%s: stack grows by %.1f bytes per unit; the confirming count %llu needs more than 1 GiB and is not run", o.name.c_str(), per, (unsigned long long)count)); continue; }
        std::string how;
        int r = confirm(o, count, how);
        rep().stat("transitions", 1);
        if (r == 1) rep().viol("C18.stack-overflow." + o.name, casestr(o, count), fmt("stack depth grows with the count (%lld bytes at %llu, %lld at %llu); at count %llu the call overruns a default 8 MiB thread stack: %s", h1, (unsigned long long)o.c0, h4, (unsigned long long)(4 * o.c0), (unsigned long long)count, how.c_str()));
        else rep().uncovered(fmt("%s: stack grows by %.1f bytes per unit but the call at count %llu %s on an 8 MiB stack", o.name.c_str(), per, (unsigned long long)count, how.c_str()));
    }
    rep().stat("states", (long long)ops.size());
    rep().stat("distinct_nontrivial", (long long)ops.size());
    rep().stat("stack_measurements", meas);
    rep().stat("stack_growth_suspects", grow);
    rep().stat("distinct_outcomes", (long long)outcomes.size());
    rep().sample("stack", fmt("\"operations\":%zu,\"counts\":\"c0 and 4*c0 (rows 512/2048, Merkle rows 64/256, sponge length 1024/4096, batchInverse 512/2048)\",\"probe_stack\":%zu,\"confirm_stack\":%zu", ops.size(), PROBE_STACK, DEFAULT_STACK), 1);
    rep().flush();
    return 0;
}
