// Matrix-kernel table shared between mat_tu.cpp and c13_matrix.cpp
#pragma once
#include <stdint.h>
enum MKind { MK_SPMV, MK_DOT, MK_MMULT4x12, MK_MMULT };
struct MEntry
{
    const char *name;
    int nstates;     // 1 (AVX2) or 2 (AVX-512, interleaved)
    MKind kind;
    int small8;      // 1: coefficients must be "8-bit" (scaled: < B_w)
    int alias;       // 1: the result register is the same object as one of the state registers (only the cheap parts are run)
    // state: nstates*12 values (state-major), coef: 12 / 12 / 48 / 144 values
    // out: SPMV nstates*4, DOT nstates, MMULT4x12 nstates*4, MMULT nstates*12
    void (*fn)(const uint64_t *state, const uint64_t *coef, uint64_t *out);
};
struct MTab
{
    const MEntry *e;
    int n;
    unsigned width;
    int is_model;
    void (*set_place)(int); // coefficient arrays of the unaligned kernels start at word offset (p & 7) from a 64-byte boundary
};
