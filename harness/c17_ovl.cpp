// C17 (first part): every strided / indexed / broadcast / register overload of the base-field
// copy/add/sub/mul helpers (class Goldilocks, "implementations for expressions") moves the right
// data: lane k of the result = field operation on the k-th designated operands, nothing else is
// read for the result or written.  Generic harness engine/ovl/ovl_rt.hpp + generated table.
#include "ovl_rt.hpp"
int main(int argc, char **argv) { return ovl::ovl_main(argc, argv); }
