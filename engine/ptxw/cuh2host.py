#!/usr/bin/env python3
"""cuh2host.py <gl64_t.cuh> <out.hpp>      (engine E6 'ptxw')

Turns the CUDA header into a host-compilable C++ header *from its text* (run on every check):

  * every  asm("...ptx..." : outputs : inputs);  statement becomes one C++ block calling the
    instruction semantics in ptxw.hpp: each asm operand is a virtual register (inputs read on
    entry, "+"/"=" written back on exit), CC.CF and the named predicates declared with
    .reg.pred live in the per-thread ptx::State and persist across statements;
  * integer types become width-parametric, by rule:
      uint64_t                 -> ptxw_u64  (2w bits)
      uint32_t                 -> ptxw_u32  (w bits, the machine word) EXCEPT
                                  (a) the induction variable of a for(...) statement,
                                  (b) a declaration whose (first) declared name never occurs in any
                                      asm operand expression of the file (exponents, counters);
                                  those stay the built-in 32-bit type;
      hex literals >= 0x10000  -> PTXW_C32()/PTXW_C64()   (half-word rule, ptxw.hpp)
      literal shift counts     -> PTXW_SH()               (32 -> w, 63 -> 2w-1)
      x[expr], switch (expr)   -> ptx::idx(expr)          (built-in value of a scaled integer)
      static const <scaled>    -> static constexpr
    With -DPTXW_W=32 the types are the built-in ones and all rules are identities.
  * `# define asm ...` / `# undef asm` lines are dropped (no asm statement survives).

Anything not recognised (opcode, modifier, constraint, operand form, size mismatch, undeclared
register, unbalanced PTX scope) -> message on stderr and exit status 3: the caller reports the
check as unavailable instead of guessing.  stdout carries NOTE lines for the evidence file.
"""
import re, sys


class Unsupported(Exception):
    pass


NOTES = []


def note(s):
    NOTES.append(s)


# ----------------------------------------------------------------------------- text helpers
def splice_lines(s):
    """translation phase 2: a backslash immediately followed by a newline (gcc also accepts blanks in between) joins the two
    physical lines BEFORE comments are recognised -- so a // comment that ends in a backslash swallows the next line.  The removed
    newlines are re-inserted after the joined line so that line numbers stay the same."""
    out = []
    pending = 0
    i, n = 0, len(s)
    while i < n:
        c = s[i]
        if c == '\\':
            j = i + 1
            while j < n and s[j] in ' \t\r':
                j += 1
            if j < n and s[j] == '\n':
                pending += 1
                i = j + 1
                continue
        if c == '\n' and pending:
            out.append('\n' * (1 + pending))
            pending = 0
        else:
            out.append(c)
        i += 1
    return ''.join(out)


def blank_comments(s):
    """replace comments by spaces (newlines kept) outside string/char literals"""
    out = []
    i, n = 0, len(s)
    while i < n:
        c = s[i]
        if c == '"' or c == "'":
            q = c
            j = i + 1
            while j < n and s[j] != q:
                if s[j] == '\\':
                    j += 1
                if s[j] == '\n' and q == "'":
                    break
                j += 1
            out.append(s[i:j + 1])
            i = j + 1
        elif s.startswith('//', i):
            j = s.find('\n', i)
            if j < 0:
                j = n
            out.append(' ' * (j - i))
            i = j
        elif s.startswith('/*', i):
            j = s.find('*/', i + 2)
            if j < 0:
                raise Unsupported('unterminated comment')
            out.append(''.join(ch if ch == '\n' else ' ' for ch in s[i:j + 2]))
            i = j + 2
        else:
            out.append(c)
            i += 1
    return ''.join(out)


def match_paren(s, i):
    """s[i] == '(' -> index of the matching ')', string-literal aware"""
    depth = 0
    n = len(s)
    while i < n:
        c = s[i]
        if c == '"':
            i += 1
            while i < n and s[i] != '"':
                if s[i] == '\\':
                    i += 1
                i += 1
        elif c in '([{':
            depth += 1
        elif c in ')]}':
            depth -= 1
            if depth == 0:
                return i
        i += 1
    raise Unsupported('unbalanced parenthesis in asm statement')


def split_top(s, sep):
    out, cur, depth, i, n = [], '', 0, 0, len(s)
    while i < n:
        c = s[i]
        if c == '"':
            j = i + 1
            while j < n and s[j] != '"':
                if s[j] == '\\':
                    j += 1
                j += 1
            cur += s[i:j + 1]
            i = j + 1
            continue
        if c in '([{':
            depth += 1
        elif c in ')]}':
            depth -= 1
        if c == sep and depth == 0:
            out.append(cur)
            cur = ''
        else:
            cur += c
        i += 1
    out.append(cur)
    return out


def lineno(text, pos):
    return text.count('\n', 0, pos) + 1


# ----------------------------------------------------------------------------- C++ text rules
def wrap_indices(s):
    """x[expr] -> x[ptx::idx(expr)]  (empty brackets, i.e. operator[] / T a[], are left alone)"""
    out = []
    i, n = 0, len(s)
    while i < n:
        c = s[i]
        if c == '[':
            depth, j = 0, i
            while j < n:
                if s[j] == '[':
                    depth += 1
                elif s[j] == ']':
                    depth -= 1
                    if depth == 0:
                        break
                j += 1
            if j >= n:
                raise Unsupported('unbalanced [ ]')
            inner = s[i + 1:j]
            if inner.strip() == '':
                out.append(s[i:j + 1])
            else:
                out.append('[ptx::idx(' + wrap_indices(inner) + ')]')
            i = j + 1
        else:
            out.append(c)
            i += 1
    return ''.join(out)


def hexrule(m):
    lit = m.group(0)
    digits = m.group(1)
    v = int(digits, 16)
    if v < 0x10000:
        return lit
    body = '0x' + digits + 'ULL'
    if len(digits.lstrip('0')) <= 8:
        return 'PTXW_C32(%s)' % body
    if len(digits.lstrip('0')) <= 16:
        return 'PTXW_C64(%s)' % body
    raise Unsupported('hex literal wider than 64 bits: ' + lit)


def cxx_rules(s, bound_names, classify_log=None):
    """apply the type/constant/shift/index rules to a piece of C++ text (no string literals inside)"""
    if '"' in s:
        raise Unsupported('string literal in C++ text that the rules would rewrite: ' + s.strip()[:60])

    # uint32_t classification
    def u32(m):
        before = s[:m.start()]
        after = s[m.end():]
        if re.search(r'\bfor\s*\(\s*(const\s+)?$', before):
            if classify_log is not None:
                classify_log.append('for-loop counter stays 32-bit: ' + (re.match(r'\s*(\w+)', after).group(1) if re.match(r'\s*(\w+)', after) else '?'))
            return 'uint32_t'
        ma = re.match(r'\s*(?:const\s+)?[&*\s]*([A-Za-z_]\w*)', after)
        if ma and not re.match(r'\s*[)>]', after):
            name = ma.group(1)
            if name not in bound_names:
                if classify_log is not None:
                    classify_log.append('uint32_t %s: never bound to an asm operand -> stays 32-bit (count/exponent)' % name)
                return 'uint32_t'
        return 'ptxw_u32'

    s = re.sub(r'\buint32_t\b', u32, s)
    s = re.sub(r'\buint64_t\b', 'ptxw_u64', s)
    s = re.sub(r'\bstatic\s+const\s+(ptxw_u(?:32|64))\b', r'static constexpr \1', s)
    s = re.sub(r'\b0[xX]([0-9a-fA-F]+)[uUlL]*', hexrule, s)
    s = re.sub(r'(<<|>>)(=?)\s*(\d+)\b', lambda m: '%s%s PTXW_SH(%s)' % (m.group(1), m.group(2), m.group(3)), s)
    s = wrap_indices(s)
    out, i = '', 0
    for m in re.finditer(r'\bswitch\s*\(', s):
        lp = m.end() - 1
        rp = match_paren(s, lp)
        out += s[i:lp] + '(ptx::idx(' + s[lp + 1:rp] + '))'
        i = rp + 1
    s = out + s[i:]
    return s


# ----------------------------------------------------------------------------- asm statement parsing
CONSTR = {'l': 64, 'r': 32}


class Operand:
    def __init__(self, constraint, expr, line):
        self.raw = constraint
        c = constraint
        self.rw = 'in'
        if c.startswith('+'):
            self.rw = 'inout'
            c = c[1:]
        elif c.startswith('='):
            self.rw = 'out'
            c = c[1:]
        c = c.lstrip('&')
        if c not in CONSTR:
            raise Unsupported('line %d: asm constraint "%s" not modelled' % (line, constraint))
        self.k = CONSTR[c]
        self.expr = expr.strip()


def parse_operands(sec, line, is_output):
    """'"=l"(tmp), "+r"(carry)' -> [Operand]; tolerates (and reports) a missing comma"""
    ops = []
    s = sec.strip()
    i, n = 0, len(s)
    first = True
    while i < n:
        while i < n and s[i].isspace():
            i += 1
        if i >= n:
            break
        if not first:
            if s[i] == ',':
                i += 1
                while i < n and s[i].isspace():
                    i += 1
            else:
                note('SYNTAX line %d: asm operand list has no comma before operand %d (g++ rejects this with "expected \')\' before string constant"; '
                     'read as two operands, which is what the instruction text needs)' % (line, len(ops)))
        first = False
        if i < n and s[i] == '[':
            raise Unsupported('line %d: symbolic asm operand names not modelled' % line)
        if i >= n or s[i] != '"':
            raise Unsupported('line %d: cannot parse asm operand list: %s' % (line, s[i:i + 40]))
        j = s.index('"', i + 1)
        cons = s[i + 1:j]
        i = j + 1
        while i < n and s[i].isspace():
            i += 1
        if i >= n or s[i] != '(':
            raise Unsupported('line %d: asm operand without (expression)' % line)
        e = match_paren(s, i)
        op = Operand(cons, s[i + 1:e], line)
        if is_output and op.rw == 'in':
            raise Unsupported('line %d: output operand without = or +' % line)
        if not is_output and op.rw != 'in':
            raise Unsupported('line %d: input operand with = or +' % line)
        ops.append(op)
        i = e + 1
    return ops


class AsmStmt:
    pass


def parse_asm(body, line):
    """body = text between the outer parentheses of asm( ... )"""
    secs = split_top(body, ':')
    if len(secs) > 4:
        raise Unsupported('line %d: asm goto / too many sections' % line)
    tmpl = ''
    t = secs[0].strip()
    pos = 0
    while pos < len(t):
        if t[pos].isspace():
            pos += 1
            continue
        if t[pos] != '"':
            raise Unsupported('line %d: asm template is not a string literal' % line)
        j = pos + 1
        lit = ''
        while t[j] != '"':
            if t[j] == '\\':
                nx = t[j + 1]
                lit += {'n': '\n', 't': ' ', '"': '"', '\\': '\\'}.get(nx, None) or ''
                if nx not in 'nt"\\':
                    raise Unsupported('line %d: escape \\%s in asm template' % (line, nx))
                j += 2
            else:
                lit += t[j]
                j += 1
        tmpl += lit
        pos = j + 1
    st = AsmStmt()
    st.line = line
    st.template = tmpl
    st.outs = parse_operands(secs[1], line, True) if len(secs) > 1 else []
    st.ins = parse_operands(secs[2], line, False) if len(secs) > 2 else []
    if len(secs) > 3 and secs[3].strip():
        for cl in split_top(secs[3], ','):
            if cl.strip() not in ('"memory"', '"cc"'):
                raise Unsupported('line %d: clobber %s not modelled' % (line, cl.strip()))
    st.operands = st.outs + st.ins
    return st


# ----------------------------------------------------------------------------- PTX -> C++
TYPES = {'u32': (32, False), 's32': (32, True), 'b32': (32, False), 'u64': (64, False), 's64': (64, True), 'b64': (64, False)}
CMPS = {'eq': ('EQ', None), 'ne': ('NE', None), 'lt': ('LT', None), 'le': ('LE', None), 'gt': ('GT', None), 'ge': ('GE', None),
        'lo': ('LT', False), 'ls': ('LE', False), 'hi': ('GT', False), 'hs': ('GE', False)}


class Gen:
    def __init__(self):
        self.pred_ids = {}
        self.reg_ids = {}       # name -> (id, K)
        self.scopes = []        # list of dict name->kind
        self.opcodes = {}
        self.ninstr = 0

    def lookup(self, name, line):
        for sc in reversed(self.scopes):
            if name in sc:
                return sc[name]
        raise Unsupported('line %d: register %%%s used outside the scope of its .reg declaration (ptxas would reject it)' % (line, name))

    def count(self, op):
        self.opcodes[op] = self.opcodes.get(op, 0) + 1
        self.ninstr += 1

    # operand text -> ('reg', cxx_lvalue, K) | ('imm', value) | ('pred', id) | ('nreg', id, K) | ('vec', [..])
    def operand(self, tok, st):
        tok = tok.strip()
        if tok.startswith('{') and tok.endswith('}'):
            return ('vec', [self.operand(x, st) for x in split_top(tok[1:-1], ',')])
        m = re.fullmatch(r'%(\d+)', tok)
        if m:
            k = int(m.group(1))
            if k >= len(st.operands):
                raise Unsupported('line %d: %%%d has no operand' % (st.line, k))
            return ('reg', '_r%d' % k, st.operands[k].k, k)
        m = re.fullmatch(r'%%?([A-Za-z_]\w*)', tok)
        if m:
            kind = self.lookup(m.group(1), st.line)
            return kind
        m = re.fullmatch(r'(-?)(0[xX][0-9a-fA-F]+|\d+)[uU]?', tok)
        if m:
            t = m.group(2)
            if re.fullmatch(r'0[0-9]+', t):
                if not re.fullmatch(r'0[0-7]+', t):
                    raise Unsupported('line %d: not a PTX integer literal: %s' % (st.line, tok))
                v = int(t, 8) # PTX, like C, reads a leading 0 as octal
            else:
                v = int(t, 0)
            return ('imm', -v if m.group(1) else v)
        raise Unsupported('line %d: operand form not modelled: %s' % (st.line, tok))

    def rd(self, o, K, st, what):
        """C++ expression of type ptx::R<K> reading operand o"""
        if o[0] == 'reg':
            if o[2] != K:
                raise Unsupported('line %d: %s: %d-bit instruction type with a %d-bit register operand (ptxas would reject it)' % (st.line, what, K, o[2]))
            return o[1]
        if o[0] == 'nreg':
            if o[2] != K:
                raise Unsupported('line %d: %s: operand size mismatch on named register' % (st.line, what))
            return 'ptx::rd_reg<%d>(%d)' % (K, o[1])
        if o[0] == 'imm':
            v = o[1]
            if abs(v) >= 0x10000:
                f = 'ptx::c64' if K == 64 else 'ptx::c32'
                if v < 0:
                    raise Unsupported('line %d: large negative immediate' % st.line)
                return 'ptx::imm<%d>(ptx::forced<%s(%dULL)>())' % (K, f, v)
            return 'ptx::imm<%d>(%d)' % (K, v)
        raise Unsupported('line %d: %s: operand kind %s not valid here' % (st.line, what, o[0]))

    def wr(self, o, K, st, what, fn_call):
        """statement writing destination o through fn_call(dst_lvalue)"""
        if o[0] == 'reg':
            if o[2] != K:
                raise Unsupported('line %d: %s: %d-bit instruction type with a %d-bit destination register (ptxas would reject it)' % (st.line, what, K, o[2]))
            if st.operands[o[3]].rw == 'in':
                raise Unsupported('line %d: %s writes the input operand %%%d' % (st.line, what, o[3]))
            return fn_call(o[1])
        if o[0] == 'nreg':
            if o[2] != K:
                raise Unsupported('line %d: %s: operand size mismatch on named register' % (st.line, what))
            return '{ ptx::R<%d> _t; %s ptx::wr_reg<%d>(%d,_t); }' % (K, fn_call('_t'), K, o[1])
        raise Unsupported('line %d: %s: destination must be a register' % (st.line, what))

    def instr(self, text, st):
        """one PTX instruction (no trailing ';') -> C++ statement(s)"""
        text = text.strip()
        if not text:
            return ''
        guard = ''
        m = re.match(r'@(!?)%%?([A-Za-z_]\w*)\s+', text)
        if m:
            p = self.lookup(m.group(2), st.line)
            if p[0] != 'pred':
                raise Unsupported('line %d: guard is not a predicate' % st.line)
            guard = 'if (ptx::guard(%d,%s)) ' % (p[1], 'true' if m.group(1) else 'false')
            text = text[m.end():]
        elif text.startswith('@'):
            raise Unsupported('line %d: guard form not modelled: %s' % (st.line, text))
        m = re.match(r'([A-Za-z_.][\w.]*)\s*(.*)$', text, re.S)
        if not m:
            raise Unsupported('line %d: cannot parse instruction: %s' % (st.line, text))
        opc, rest = m.group(1), m.group(2).strip()
        parts = opc.split('.')
        base, mods = parts[0], parts[1:]
        # ---- declarations
        if opc.startswith('.reg'):
            if guard:
                raise Unsupported('line %d: guarded declaration' % st.line)
            toks = (opc[4:] + ' ' + rest).replace(',', ' ').split()
            if not toks:
                raise Unsupported('line %d: empty .reg' % st.line)
            ty = toks[0].lstrip('.')
            names = toks[1:]
            if not names or not self.scopes:
                raise Unsupported('line %d: .reg outside a { } scope or without names' % st.line)
            code = ''
            for nm in names:
                mm = re.fullmatch(r'%%?([A-Za-z_]\w*)', nm)
                if not mm:
                    raise Unsupported('line %d: .reg name form not modelled: %s' % (st.line, nm))
                nm = mm.group(1)
                if ty == 'pred':
                    if nm not in self.pred_ids:
                        if len(self.pred_ids) >= 30:
                            raise Unsupported('too many predicate names')
                        self.pred_ids[nm] = len(self.pred_ids)
                    self.scopes[-1][nm] = ('pred', self.pred_ids[nm])
                    code += 'ptx::decl_pred(%d); ' % self.pred_ids[nm]
                elif ty in TYPES:
                    if nm not in self.reg_ids:
                        if len(self.reg_ids) >= 8:
                            raise Unsupported('too many named registers')
                        self.reg_ids[nm] = len(self.reg_ids)
                    self.scopes[-1][nm] = ('nreg', self.reg_ids[nm], TYPES[ty][0])
                    code += 'ptx::decl_reg(%d); ' % self.reg_ids[nm]
                else:
                    raise Unsupported('line %d: .reg type .%s not modelled' % (st.line, ty))
            self.count('.reg.' + ty)
            return code
        ops = [self.operand(x, st) for x in split_top(rest, ',')] if rest else []
        what = opc

        def need(n):
            if len(ops) != n:
                raise Unsupported('line %d: %s expects %d operands, has %d' % (st.line, opc, n, len(ops)))

        def typ(allowed_extra=()):
            ts = [x for x in mods if x in TYPES]
            others = [x for x in mods if x not in TYPES and x not in allowed_extra]
            if len(ts) != 1 or others:
                raise Unsupported('line %d: modifiers of %s not modelled' % (st.line, opc))
            return TYPES[ts[0]]

        code = None
        if base in ('add', 'sub', 'addc', 'subc'):
            K, signed = typ(('cc',))
            need(3)
            usec = base.endswith('c')
            setc = 'cc' in mods
            fn = 'add' if base.startswith('add') else 'sub'
            a, b = self.rd(ops[1], K, st, what), self.rd(ops[2], K, st, what)
            code = self.wr(ops[0], K, st, what, lambda d: 'ptx::%s<%d,%s,%s>(%s,%s,%s);' % (fn, K, str(usec).lower(), str(setc).lower(), d, a, b))
            self.count(base + ('.cc' if setc else ''))
        elif base == 'mul':
            sel = [x for x in mods if x in ('lo', 'hi', 'wide')]
            if len(sel) != 1:
                raise Unsupported('line %d: mul needs .lo/.hi/.wide' % st.line)
            K, signed = typ(('lo', 'hi', 'wide'))
            need(3)
            if signed and sel[0] != 'lo':
                raise Unsupported('line %d: signed %s not modelled' % (st.line, opc))
            if sel[0] == 'wide':
                if K != 32:
                    raise Unsupported('line %d: mul.wide only for 32-bit sources' % st.line)
                a, b = self.rd(ops[1], 32, st, what), self.rd(ops[2], 32, st, what)
                code = self.wr(ops[0], 64, st, what, lambda d: 'ptx::mulwide(%s,%s,%s);' % (d, a, b))
            else:
                a, b = self.rd(ops[1], K, st, what), self.rd(ops[2], K, st, what)
                code = self.wr(ops[0], K, st, what, lambda d: 'ptx::mul<%d,%s>(%s,%s,%s);' % (K, 'true' if sel[0] == 'hi' else 'false', d, a, b))
            self.count('mul.' + sel[0])
        elif base in ('mad', 'madc'):
            sel = [x for x in mods if x in ('lo', 'hi', 'wide')]
            if len(sel) != 1:
                raise Unsupported('line %d: mad needs .lo/.hi/.wide' % st.line)
            K, signed = typ(('lo', 'hi', 'wide', 'cc'))
            need(4)
            usec = base == 'madc'
            setc = 'cc' in mods
            if signed and sel[0] != 'lo':
                raise Unsupported('line %d: signed %s not modelled' % (st.line, opc))
            if sel[0] == 'wide':
                if usec or setc or K != 32:
                    raise Unsupported('line %d: %s not modelled' % (st.line, opc))
                a, b, c = self.rd(ops[1], 32, st, what), self.rd(ops[2], 32, st, what), self.rd(ops[3], 64, st, what)
                code = self.wr(ops[0], 64, st, what, lambda d: 'ptx::madwide(%s,%s,%s,%s);' % (d, a, b, c))
            else:
                a, b, c = self.rd(ops[1], K, st, what), self.rd(ops[2], K, st, what), self.rd(ops[3], K, st, what)
                code = self.wr(ops[0], K, st, what, lambda d: 'ptx::mad<%d,%s,%s,%s>(%s,%s,%s,%s);' % (
                    K, 'true' if sel[0] == 'hi' else 'false', str(usec).lower(), str(setc).lower(), d, a, b, c))
            self.count(base + '.' + sel[0] + ('.cc' if setc else ''))
        elif base == 'mov':
            K, signed = typ()
            need(2)
            if ops[1][0] == 'vec':
                if K != 64 or len(ops[1][1]) != 2:
                    raise Unsupported('line %d: only mov.b64 d,{lo,hi} packing is modelled' % st.line)
                lo, hi = self.rd(ops[1][1][0], 32, st, what), self.rd(ops[1][1][1], 32, st, what)
                code = self.wr(ops[0], 64, st, what, lambda d: 'ptx::mov_pack(%s,%s,%s);' % (d, lo, hi))
                self.count('mov.b64{pack}')
            elif ops[0][0] == 'vec':
                if K != 64 or len(ops[0][1]) != 2:
                    raise Unsupported('line %d: only mov.b64 {lo,hi},a unpacking is modelled' % st.line)
                a = self.rd(ops[1], 64, st, what)
                d0, d1 = ops[0][1]
                for d in (d0, d1):
                    if d[0] != 'reg' or d[2] != 32 or st.operands[d[3]].rw == 'in':
                        raise Unsupported('line %d: mov unpack destinations must be 32-bit output operands' % st.line)
                code = 'ptx::mov_unpack(%s,%s,%s);' % (d0[1], d1[1], a)
                self.count('mov.b64{unpack}')
            else:
                a = self.rd(ops[1], K, st, what)
                code = self.wr(ops[0], K, st, what, lambda d: 'ptx::mov<%d>(%s,%s);' % (K, d, a))
                self.count('mov')
        elif base == 'setp':
            cm = [x for x in mods if x in CMPS]
            if len(cm) != 1:
                raise Unsupported('line %d: setp comparison not modelled: %s' % (st.line, opc))
            K, signed = typ(tuple(CMPS))
            need(3)
            name, force = CMPS[cm[0]]
            if force is not None:
                signed = force
            if ops[0][0] != 'pred':
                raise Unsupported('line %d: setp destination must be a declared predicate' % st.line)
            a, b = self.rd(ops[1], K, st, what), self.rd(ops[2], K, st, what)
            code = 'ptx::setp<%d,ptx::%s,%s>(%d,%s,%s);' % (K, name, str(bool(signed)).lower(), ops[0][1], a, b)
            self.count('setp.' + cm[0])
        elif base == 'selp':
            K, signed = typ()
            need(4)
            if ops[3][0] != 'pred':
                raise Unsupported('line %d: selp selector must be a declared predicate' % st.line)
            a, b = self.rd(ops[1], K, st, what), self.rd(ops[2], K, st, what)
            code = self.wr(ops[0], K, st, what, lambda d: 'ptx::selp<%d>(%s,%s,%s,%d);' % (K, d, a, b, ops[3][1]))
            self.count('selp')
        elif base in ('and', 'or', 'xor'):
            K, signed = typ()
            need(3)
            a, b = self.rd(ops[1], K, st, what), self.rd(ops[2], K, st, what)
            code = self.wr(ops[0], K, st, what, lambda d: 'ptx::%s_<%d>(%s,%s,%s);' % (base, K, d, a, b))
            self.count(base)
        elif base == 'not':
            K, signed = typ()
            need(2)
            a = self.rd(ops[1], K, st, what)
            code = self.wr(ops[0], K, st, what, lambda d: 'ptx::not_<%d>(%s,%s);' % (K, d, a))
            self.count('not')
        elif base in ('shl', 'shr'):
            K, signed = typ()
            need(3)
            if signed:
                raise Unsupported('line %d: arithmetic shift not modelled' % st.line)
            a = self.rd(ops[1], K, st, what)
            if ops[2][0] == 'imm':
                c = 'ptx::imm<32>(PTXW_SH(%d))' % ops[2][1]
            else:
                c = self.rd(ops[2], 32, st, what)
            code = self.wr(ops[0], K, st, what, lambda d: 'ptx::%s<%d>(%s,%s,%s);' % (base, K, d, a, c))
            self.count(base)
        elif opc == 'trap':
            need(0)
            code = 'ptx::trap();'
            self.count('trap')
        else:
            raise Unsupported('line %d: PTX opcode not modelled: %s' % (st.line, opc))
        return guard + '{ ' + code + ' } '

    def statement(self, st):
        """whole asm statement -> one C++ compound statement"""
        body = ''
        for piece in st.template.replace('\n', ';').split(';'):
            piece = piece.strip()
            while piece.startswith('{'):
                self.scopes.append({})
                body += 'ptx::scope_open(); '
                piece = piece[1:].strip()
            closes = 0
            while piece.endswith('}') and piece.count('}') > piece.count('{'):
                closes += 1
                piece = piece[:-1].strip()
            if piece:
                body += self.instr(piece, st)
            for _ in range(closes):
                if not self.scopes:
                    raise Unsupported('line %d: "}" without open PTX scope' % st.line)
                self.scopes.pop()
                body += 'ptx::scope_close(); '
        pre, post = '', ''
        for k, o in enumerate(st.operands):
            if o.rw == 'in':
                pre += 'const ptx::R<%d> _r%d(%s); ' % (o.k, k, o.cxx)
            elif o.rw == 'inout':
                pre += 'ptx::R<%d> _r%d(%s); ' % (o.k, k, o.cxx)
                post += 'ptx::wb(%s,_r%d); ' % (o.cxx, k)
            else:
                pre += 'ptx::R<%d> _r%d; ' % (o.k, k)
                post += 'ptx::wb(%s,_r%d); ' % (o.cxx, k)
        return '{ /*ptx@%d*/ %s%s%s}' % (st.line, pre, body, post)


# ----------------------------------------------------------------------------- driver
def convert(text):
    text = blank_comments(splice_lines(text))
    # the file's own asm/inline re-definitions: asm lines dropped (nothing is left for them to apply to)
    text = re.sub(r'^[ \t]*#[ \t]*(define|undef)[ \t]+asm\b[^\n]*', '', text, flags=re.M)
    # locate asm statements
    stmts = []
    for m in re.finditer(r'\b(asm|__asm__)\b(\s*(volatile|__volatile__)\b)?\s*\(', text):
        start = m.start()
        lp = m.end() - 1
        rp = match_paren(text, lp)
        k = rp + 1
        while k < len(text) and text[k].isspace():
            k += 1
        if k >= len(text) or text[k] != ';':
            raise Unsupported('line %d: asm statement not followed by ;' % lineno(text, start))
        st = parse_asm(text[lp + 1:rp], lineno(text, start))
        st.span = (start, k + 1)
        stmts.append(st)
    if not stmts:
        raise Unsupported('no asm statements found (file layout changed?)')
    for a, b in zip(stmts, stmts[1:]):
        if b.span[0] < a.span[1]:
            raise Unsupported('nested asm statements')
    bound = set()
    for st in stmts:
        for o in st.operands:
            bound.update(re.findall(r'[A-Za-z_]\w*', o.expr))
    g = Gen()
    out = []
    pos = 0
    log = []
    for st in stmts:
        out.append(cxx_rules(text[pos:st.span[0]], bound, log))
        for o in st.operands:
            o.cxx = '(' + cxx_rules(o.expr, bound) + ')'
        code = g.statement(st)
        out.append(code + '\n' * text.count('\n', st.span[0], st.span[1]))
        pos = st.span[1]
    out.append(cxx_rules(text[pos:], bound, log))
    if g.scopes:
        raise Unsupported('PTX scope "{" left open at end of file')
    res = ''.join(out)
    if re.search(r'\b(asm|__asm__)\b', res):
        raise Unsupported('an asm token survived the conversion')
    for l in sorted(set(log)):
        note('RULE ' + l)
    note('STATS asm_statements=%d instructions=%d predicates=%s opcodes=%s' % (
        len(stmts), g.ninstr, ','.join(sorted(g.pred_ids)), ' '.join('%s:%d' % kv for kv in sorted(g.opcodes.items()))))
    return res


def main():
    if len(sys.argv) != 3:
        sys.stderr.write(__doc__)
        return 2
    try:
        res = convert(open(sys.argv[1]).read())
    except Unsupported as e:
        sys.stderr.write('cuh2host: unsupported: %s\n' % e)
        return 3
    with open(sys.argv[2], 'w') as f:
        f.write('// generated by engine/ptxw/cuh2host.py from %s -- do not edit\n' % sys.argv[1])
        f.write('#include "ptxw.hpp"\n')
        f.write(res)
    for n in NOTES:
        print('NOTE ' + n)
    return 0


if __name__ == '__main__':
    sys.exit(main())
