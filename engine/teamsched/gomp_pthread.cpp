// Free-running OpenMP stand-in for the ThreadSanitizer pass: every parallel region creates real
// threads (pthread_create / pthread_join are happens-before edges TSan understands; libgomp's own
// futex barriers are not), members really run concurrently.
#include <pthread.h>
#include <vector>
static thread_local int t_id = 0;
static thread_local int t_team = 1;
static int g_default = 4;
struct Arg { void (*fn)(void *); void *data; int id, team; };
static void *tramp(void *p)
{
    Arg *a = (Arg *)p;
    t_id = a->id;
    t_team = a->team;
    a->fn(a->data);
    return nullptr;
}
extern "C"
{
int omp_get_thread_num(void) { return t_id; }
int omp_get_num_threads(void) { return t_team; }
int omp_get_max_threads(void) { return g_default; }
void omp_set_num_threads(int n) { if (n > 0) g_default = n; }
void omp_set_dynamic(int) {}
void GOMP_parallel(void (*fn)(void *), void *data, unsigned num_threads, unsigned)
{
    int T = num_threads ? (int)num_threads : g_default;
    if (T < 1) T = 1;
    if (T > 64) T = 64;
    if (t_team > 1) { fn(data); return; }
    std::vector<pthread_t> th(T);
    std::vector<Arg> args(T);
    for (int i = 1; i < T; i++) { args[i] = {fn, data, i, T}; pthread_create(&th[i], nullptr, tramp, &args[i]); }
    int save_id = t_id, save_team = t_team;
    t_id = 0; t_team = T;
    fn(data);
    t_id = save_id; t_team = save_team;
    for (int i = 1; i < T; i++) pthread_join(th[i], nullptr);
}
}
