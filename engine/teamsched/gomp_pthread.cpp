// Free-running OpenMP stand-in for the ThreadSanitizer pass: every parallel region creates real
// threads (pthread_create / pthread_join are happens-before edges TSan understands; libgomp's own
// futex barriers are not), members really run concurrently.
//
// The library only uses `parallel for schedule(static)`, which gcc expands to GOMP_parallel plus
// omp_get_thread_num / omp_get_num_threads.  The remaining entry points (barrier, critical, atomic,
// single, dynamically scheduled loops, undeferred tasks) are implemented with pthread primitives so
// that an edited library which uses them still links and keeps its meaning.
#include <pthread.h>
#include <stdio.h>
#include <stdlib.h>
#include <stdint.h>
#include <vector>
struct WorkShare { unsigned long long start, end, incr, chunk, next; long base; };
struct Region
{
    int T = 1;
    pthread_barrier_t bar;
    pthread_mutex_t mu = PTHREAD_MUTEX_INITIALIZER;
    std::vector<WorkShare> ws;
    size_t singles_done = 0;
};
static thread_local int t_id = 0;
static thread_local int t_team = 1;
static thread_local Region *t_reg = nullptr;
static thread_local size_t t_ws = 0, t_single = 0;
static int g_default = 4;
static pthread_mutex_t g_crit = PTHREAD_MUTEX_INITIALIZER, g_atomic = PTHREAD_MUTEX_INITIALIZER;
static Region g_solo; // constructs reached outside any team: a team of one
struct Arg { void (*fn)(void *); void *data; int id, team; Region *reg; };
static void *tramp(void *p)
{
    Arg *a = (Arg *)p;
    t_id = a->id;
    t_team = a->team;
    t_reg = a->reg;
    t_ws = t_single = 0;
    a->fn(a->data);
    return nullptr;
}
static Region *reg() { return t_reg ? t_reg : &g_solo; }
static bool ws_next(unsigned long long *is, unsigned long long *ie)
{
    Region *r = reg();
    pthread_mutex_lock(&r->mu);
    bool ok = false;
    if (t_ws < r->ws.size())
    {
        WorkShare &w = r->ws[t_ws];
        unsigned long long step = w.chunk * w.incr;
        if (step && w.next < w.end)
        {
            *is = w.next;
            *ie = (w.end - w.next < step) ? w.end : w.next + step;
            w.next = *ie;
            ok = true;
        }
    }
    pthread_mutex_unlock(&r->mu);
    return ok;
}
static bool ws_start(bool up, unsigned long long st, unsigned long long en, unsigned long long inc, unsigned long long ch, long base, unsigned long long *is, unsigned long long *ie)
{
    if (!up) { fprintf(stderr, "gomp_pthread: downward work-sharing loop is not supported\n"); abort(); }
    Region *r = reg();
    pthread_mutex_lock(&r->mu);
    if (t_ws >= r->ws.size()) r->ws.push_back({st, en, inc, ch ? ch : 1, st, base});
    pthread_mutex_unlock(&r->mu);
    return ws_next(is, ie);
}
static bool l_start(long st, long en, long inc, long ch, long *is, long *ie)
{
    if (inc <= 0) return ws_start(false, 0, 0, 0, 0, 0, 0, 0);
    unsigned long long a, b;
    bool r = ws_start(true, 0, en > st ? (unsigned long long)(en - st) : 0, (unsigned long long)inc, (unsigned long long)(ch > 0 ? ch : 1), st, &a, &b);
    if (r) { *is = st + (long)a; *ie = st + (long)b; }
    return r;
}
static bool l_next(long *is, long *ie)
{
    Region *r = reg();
    unsigned long long a, b;
    bool ok = ws_next(&a, &b);
    if (ok) { long base = r->ws[t_ws].base; *is = base + (long)a; *ie = base + (long)b; }
    return ok;
}
extern "C"
{
int omp_get_thread_num(void) { return t_id; }
int omp_get_num_threads(void) { return t_team; }
int omp_get_max_threads(void) { return g_default; }
void omp_set_num_threads(int n) { if (n > 0) g_default = n; }
void omp_set_dynamic(int) {}
int omp_in_parallel(void) { return t_team > 1; }
int omp_get_num_procs(void) { return 16; }
static void run_region(void (*fn)(void *), void *data, unsigned num_threads, Region &R)
{
    int T = num_threads ? (int)num_threads : g_default;
    if (T < 1) T = 1;
    if (T > 64) T = 64;
    R.T = T;
    pthread_barrier_init(&R.bar, nullptr, (unsigned)T);
    std::vector<pthread_t> th(T);
    std::vector<Arg> args(T);
    for (int i = 1; i < T; i++) { args[i] = {fn, data, i, T, &R}; pthread_create(&th[i], nullptr, tramp, &args[i]); }
    int save_id = t_id, save_team = t_team;
    Region *save_reg = t_reg;
    size_t save_ws = t_ws, save_single = t_single;
    t_id = 0; t_team = T; t_reg = &R; t_ws = t_single = 0;
    fn(data);
    t_id = save_id; t_team = save_team; t_reg = save_reg; t_ws = save_ws; t_single = save_single;
    for (int i = 1; i < T; i++) pthread_join(th[i], nullptr);
    pthread_barrier_destroy(&R.bar);
}
void GOMP_parallel(void (*fn)(void *), void *data, unsigned num_threads, unsigned)
{
    if (t_team > 1) { Region R; Region *sv = t_reg; int st = t_team, si = t_id; size_t w = t_ws, g = t_single; t_reg = &R; t_team = 1; t_id = 0; t_ws = t_single = 0; fn(data); t_reg = sv; t_team = st; t_id = si; t_ws = w; t_single = g; return; } // nested: one member
    Region R;
    run_region(fn, data, num_threads, R);
}
static void par_loop(void (*fn)(void *), void *d, unsigned nt, long st, long en, long inc, long ch)
{
    if (inc <= 0) { fprintf(stderr, "gomp_pthread: downward work-sharing loop is not supported\n"); abort(); }
    Region R;
    R.ws.push_back({0, en > st ? (unsigned long long)(en - st) : 0, (unsigned long long)inc, (unsigned long long)(ch > 0 ? ch : 1), 0, st});
    if (t_team > 1) { Region *sv = t_reg; int s2 = t_team, si = t_id; size_t w = t_ws, g = t_single; t_reg = &R; t_team = 1; t_id = 0; t_ws = t_single = 0; fn(d); t_reg = sv; t_team = s2; t_id = si; t_ws = w; t_single = g; return; }
    run_region(fn, d, nt, R);
}
void GOMP_parallel_loop_dynamic(void (*fn)(void *), void *d, unsigned nt, long st, long en, long inc, long ch, unsigned) { par_loop(fn, d, nt, st, en, inc, ch); }
void GOMP_parallel_loop_nonmonotonic_dynamic(void (*fn)(void *), void *d, unsigned nt, long st, long en, long inc, long ch, unsigned) { par_loop(fn, d, nt, st, en, inc, ch); }
void GOMP_parallel_loop_guided(void (*fn)(void *), void *d, unsigned nt, long st, long en, long inc, long ch, unsigned) { par_loop(fn, d, nt, st, en, inc, ch); }
void GOMP_parallel_loop_nonmonotonic_guided(void (*fn)(void *), void *d, unsigned nt, long st, long en, long inc, long ch, unsigned) { par_loop(fn, d, nt, st, en, inc, ch); }
void GOMP_parallel_loop_runtime(void (*fn)(void *), void *d, unsigned nt, long st, long en, long inc, unsigned) { par_loop(fn, d, nt, st, en, inc, 1); }
void GOMP_parallel_loop_maybe_nonmonotonic_runtime(void (*fn)(void *), void *d, unsigned nt, long st, long en, long inc, unsigned) { par_loop(fn, d, nt, st, en, inc, 1); }
#define PT_LOOP_ULL(name) \
    bool GOMP_loop_ull_##name##_start(bool up, unsigned long long st, unsigned long long en, unsigned long long inc, unsigned long long ch, unsigned long long *is, unsigned long long *ie) { return ws_start(up, st, en, inc, ch, 0, is, ie); } \
    bool GOMP_loop_ull_##name##_next(unsigned long long *is, unsigned long long *ie) { return ws_next(is, ie); }
PT_LOOP_ULL(dynamic)
PT_LOOP_ULL(nonmonotonic_dynamic)
PT_LOOP_ULL(guided)
PT_LOOP_ULL(nonmonotonic_guided)
bool GOMP_loop_ull_runtime_start(bool up, unsigned long long st, unsigned long long en, unsigned long long inc, unsigned long long *is, unsigned long long *ie) { return ws_start(up, st, en, inc, 1, 0, is, ie); }
bool GOMP_loop_ull_runtime_next(unsigned long long *is, unsigned long long *ie) { return ws_next(is, ie); }
bool GOMP_loop_ull_maybe_nonmonotonic_runtime_start(bool up, unsigned long long st, unsigned long long en, unsigned long long inc, unsigned long long *is, unsigned long long *ie) { return ws_start(up, st, en, inc, 1, 0, is, ie); }
bool GOMP_loop_ull_maybe_nonmonotonic_runtime_next(unsigned long long *is, unsigned long long *ie) { return ws_next(is, ie); }
bool GOMP_loop_dynamic_start(long st, long en, long inc, long ch, long *is, long *ie) { return l_start(st, en, inc, ch, is, ie); }
bool GOMP_loop_dynamic_next(long *is, long *ie) { return l_next(is, ie); }
bool GOMP_loop_nonmonotonic_dynamic_start(long st, long en, long inc, long ch, long *is, long *ie) { return l_start(st, en, inc, ch, is, ie); }
bool GOMP_loop_nonmonotonic_dynamic_next(long *is, long *ie) { return l_next(is, ie); }
bool GOMP_loop_guided_start(long st, long en, long inc, long ch, long *is, long *ie) { return l_start(st, en, inc, ch, is, ie); }
bool GOMP_loop_guided_next(long *is, long *ie) { return l_next(is, ie); }
bool GOMP_loop_nonmonotonic_guided_start(long st, long en, long inc, long ch, long *is, long *ie) { return l_start(st, en, inc, ch, is, ie); }
bool GOMP_loop_nonmonotonic_guided_next(long *is, long *ie) { return l_next(is, ie); }
bool GOMP_loop_runtime_start(long st, long en, long inc, long *is, long *ie) { return l_start(st, en, inc, 1, is, ie); }
bool GOMP_loop_runtime_next(long *is, long *ie) { return l_next(is, ie); }
bool GOMP_loop_maybe_nonmonotonic_runtime_start(long st, long en, long inc, long *is, long *ie) { return l_start(st, en, inc, 1, is, ie); }
bool GOMP_loop_maybe_nonmonotonic_runtime_next(long *is, long *ie) { return l_next(is, ie); }
void GOMP_barrier(void) { if (t_reg && t_team > 1) pthread_barrier_wait(&t_reg->bar); }
bool GOMP_barrier_cancel(void) { GOMP_barrier(); return false; }
void GOMP_loop_end(void) { t_ws++; GOMP_barrier(); }
void GOMP_loop_end_nowait(void) { t_ws++; }
bool GOMP_loop_end_cancel(void) { GOMP_loop_end(); return false; }
void GOMP_critical_start(void) { pthread_mutex_lock(&g_crit); }
void GOMP_critical_end(void) { pthread_mutex_unlock(&g_crit); }
void GOMP_critical_name_start(void **) { pthread_mutex_lock(&g_crit); }
void GOMP_critical_name_end(void **) { pthread_mutex_unlock(&g_crit); }
void GOMP_atomic_start(void) { pthread_mutex_lock(&g_atomic); }
void GOMP_atomic_end(void) { pthread_mutex_unlock(&g_atomic); }
bool GOMP_single_start(void)
{
    Region *r = reg();
    if (t_team < 2) return true;
    pthread_mutex_lock(&r->mu);
    size_t mine = ++t_single;
    bool first = mine > r->singles_done;
    if (first) r->singles_done = mine;
    pthread_mutex_unlock(&r->mu);
    return first;
}
void GOMP_task(void (*fn)(void *), void *data, void (*cpyfn)(void *, void *), long arg_size, long arg_align, bool, unsigned, void **, int, void *)
{
    if (cpyfn)
    {
        char *buf = (char *)malloc((size_t)arg_size + (size_t)arg_align);
        char *arg = (char *)(((uintptr_t)buf + (uintptr_t)arg_align - 1) & ~((uintptr_t)arg_align - 1));
        cpyfn(arg, data);
        fn(arg);
        free(buf);
    }
    else fn(data);
}
void GOMP_taskwait(void) {}
void GOMP_taskgroup_start(void) {}
void GOMP_taskgroup_end(void) {}
}
