// teamsched: stand-in for the OpenMP runtime surface the library uses (GOMP_parallel + omp_*),
// exact per-member access recorder (fed by the compiler's -fsanitize=thread instrumentation of
// the library objects and by wrapped memcpy/memset/memmove), and a controlled scheduler:
//   SERIAL : members of a region run to completion one after another in a chosen order
//   COOP   : members are coroutines; at every scheduling point (region start, member end, first
//            touch of a new 64-byte line of shared memory, every mem* call) the explorer chooses
//            who runs next -> preemption-bounded exhaustive exploration of interleavings
// No libgomp, no libtsan are linked.
#pragma once
#include <stdint.h>
#include <stddef.h>
#include <string>
#include <vector>
#include <functional>

namespace ts
{
enum Mode { SERIAL, COOP };

struct Interval { uintptr_t lo, hi; }; // [lo, hi)
struct Conflict
{
    int region;       // index of the parallel region within this execution
    int team;
    int a, b;         // members
    uintptr_t lo, hi; // overlapping bytes
    bool a_writes, b_writes;
    std::string where; // "<extent>+off" if inside a registered extent
};
struct RegionInfo
{
    int team;
    size_t accesses;              // recorded shared accesses
    std::vector<size_t> points;   // scheduling points per member (COOP)
};
struct ChoicePoint
{
    std::vector<int> enabled; // canonical order: running member first if still enabled, then ascending ids
    bool running_enabled;
    int chosen;               // index into enabled
};

// configuration of one execution
void set_mode(Mode m);
void set_default_team(int n);                 // value returned by omp_get_max_threads until omp_set_num_threads
void set_team_cap(int n);                     // upper bound on a team (requests above are clamped; recorded)
// SERIAL: order of members for region r with team T (must be a permutation of 0..T-1)
void set_order_fn(std::function<std::vector<int>(int region, int T)> f);
// COOP: chooser gets the choice point (enabled list) and returns an index; called at every point
void set_chooser(std::function<int(const ChoicePoint &)> f);

void set_granularity(size_t bytes);           // COOP: a scheduling point at the first touch of each new block of this size (default 64)
void set_region_end_fn(std::function<void(int region)> f); // called after the join of every region (members all finished)
void track_heap(bool on);                     // while on, blocks malloc'ed by instrumented code are zero-filled and registered as extents heap#k
std::vector<std::pair<const void *, size_t>> live_heap();
void register_extent(const char *name, const void *base, size_t len);
void clear_extents();

void begin_execution();                       // reset logs
const std::vector<Conflict> &conflicts();
const std::vector<RegionInfo> &regions();
const std::vector<ChoicePoint> &trace();      // COOP: all choice points of the execution, in order
long total_accesses();
bool deadlock();                              // COOP: no enabled member before the join (cannot happen without blocking ops; checked anyway)
} // namespace ts
