// see teamsched.hpp.  This translation unit is NOT instrumented.
#include "teamsched.hpp"
#include <ucontext.h>
#include <sys/mman.h>
#include <stdio.h>
#include <stdlib.h>
#include <string.h>
#include <algorithm>
#include <unordered_set>

namespace
{
using namespace ts;
struct Member
{
    int id = 0;
    std::vector<Interval> R, W;
    ucontext_t ctx;
    char *stack = nullptr;
    size_t stacksz = 0;
    bool started = false, finished = false;
    std::unordered_set<uintptr_t> lines;
    size_t points = 0;
};
struct Extent { std::string name; uintptr_t lo, hi; };
struct State
{
    Mode mode = SERIAL;
    int default_team = 4, cur_default = 4, cap = 128;
    bool in_region = false;
    bool busy = false; // inside the runtime itself: its own mem* calls are not member accesses
    int cur = -1;
    std::vector<Member> team;
    uintptr_t serial_marker = 0;
    ucontext_t main_ctx;
    void (*fn)(void *) = nullptr;
    void *data = nullptr;
    std::function<std::vector<int>(int, int)> order_fn;
    std::function<int(const ChoicePoint &)> chooser;
    std::function<void(int)> region_end_fn;
    size_t gran_shift = 6;
    bool track = false;
    std::vector<std::pair<void *, size_t>> heap;
    std::vector<Extent> extents;
    std::vector<Conflict> conflicts;
    std::vector<RegionInfo> regions;
    std::vector<ChoicePoint> trace;
    long accesses = 0;
    bool deadlock = false;
    int region_index = 0;
};
State *S()
{
    static State *s = new State();
    return s;
}

inline bool is_private(State *s, uintptr_t a)
{
    if (s->mode == SERIAL) return a < s->serial_marker && a + (16u << 20) > s->serial_marker; // frames created below the region entry
    const Member &m = s->team[s->cur];
    return a >= (uintptr_t)m.stack && a < (uintptr_t)m.stack + m.stacksz;
}
void sched_point(State *s, bool member_finished);

inline void add_iv(std::vector<Interval> &v, uintptr_t lo, uintptr_t hi)
{
    if (!v.empty() && v.back().hi == lo) { v.back().hi = hi; return; }
    if (!v.empty() && v.back().lo == lo && v.back().hi == hi) return;
    v.push_back({lo, hi});
}
// scheduling-point key of an address: only the caller's buffers (registered extents) and heap
// blocks allocated by the library during the call are scheduling-relevant; read-only tables and
// globals are not (their accesses are still recorded for the conflict check).  0 = not relevant.
inline uintptr_t line_key(State *s, uintptr_t a)
{
    for (size_t i = 0; i < s->extents.size(); i++)
        if (a >= s->extents[i].lo && a < s->extents[i].hi) return ((uintptr_t)(i + 1) << 48) | ((a - s->extents[i].lo) >> s->gran_shift);
    for (size_t i = 0; i < s->heap.size(); i++)
        if (a >= (uintptr_t)s->heap[i].first && a < (uintptr_t)s->heap[i].first + s->heap[i].second) return ((uintptr_t)(0x8000 + i) << 48) | ((a - (uintptr_t)s->heap[i].first) >> s->gran_shift);
    return 0;
}
inline void record(uintptr_t a, size_t n, bool wr, bool always_point = false)
{
    State *s = S();
    if (!s->in_region || s->cur < 0 || n == 0 || s->busy) return;
    if (is_private(s, a)) return;
    s->busy = true;
    if (s->mode == COOP)
    {
        Member &m = s->team[s->cur];
        bool pt = false;
        const uintptr_t g = (uintptr_t)1 << s->gran_shift;
        for (uintptr_t x = a & ~(g - 1); x < a + n; x += g)
        {
            uintptr_t k = line_key(s, x);
            if (k && (m.lines.insert(k).second || always_point)) pt = true;
        }
        if (pt) { m.points++; sched_point(s, false); }
    }
    Member &m = s->team[s->cur];
    add_iv(wr ? m.W : m.R, a, a + n);
    s->accesses++;
    s->busy = false;
}

void merge(std::vector<Interval> &v)
{
    std::sort(v.begin(), v.end(), [](const Interval &x, const Interval &y) { return x.lo < y.lo; });
    std::vector<Interval> o;
    for (auto &i : v)
    {
        if (!o.empty() && i.lo <= o.back().hi) o.back().hi = std::max(o.back().hi, i.hi);
        else o.push_back(i);
    }
    v.swap(o);
}
bool intersect(const std::vector<Interval> &a, const std::vector<Interval> &b, Interval &out)
{
    size_t i = 0, j = 0;
    while (i < a.size() && j < b.size())
    {
        uintptr_t lo = std::max(a[i].lo, b[j].lo), hi = std::min(a[i].hi, b[j].hi);
        if (lo < hi) { out = {lo, hi}; return true; }
        if (a[i].hi < b[j].hi) i++; else j++;
    }
    return false;
}
std::string where_of(State *s, uintptr_t a)
{
    for (auto &e : s->extents)
        if (a >= e.lo && a < e.hi)
        {
            char b[128];
            snprintf(b, sizeof b, "%s+%zu", e.name.c_str(), (size_t)(a - e.lo));
            return b;
        }
    char b[64];
    snprintf(b, sizeof b, "unregistered:%p", (void *)a);
    return b;
}
void end_region(State *s)
{
    RegionInfo ri;
    ri.team = (int)s->team.size();
    ri.accesses = 0;
    for (auto &m : s->team) { ri.accesses += m.R.size() + m.W.size(); ri.points.push_back(m.points); merge(m.R); merge(m.W); }
    const int T = (int)s->team.size();
    for (int i = 0; i < T && s->conflicts.size() < 16; i++)
        for (int j = i + 1; j < T && s->conflicts.size() < 16; j++)
        {
            Interval iv;
            const Member &a = s->team[i], &b = s->team[j];
            if (intersect(a.W, b.W, iv)) s->conflicts.push_back({s->region_index, T, i, j, iv.lo, iv.hi, true, true, where_of(s, iv.lo)});
            else if (intersect(a.W, b.R, iv)) s->conflicts.push_back({s->region_index, T, i, j, iv.lo, iv.hi, true, false, where_of(s, iv.lo)});
            else if (intersect(a.R, b.W, iv)) s->conflicts.push_back({s->region_index, T, i, j, iv.lo, iv.hi, false, true, where_of(s, iv.lo)});
        }
    s->regions.push_back(ri);
    if (s->region_end_fn) { bool b = s->busy; s->busy = true; s->region_end_fn(s->region_index); s->busy = b; }
    s->region_index++;
}

// ---------------------------------------------------------------- COOP scheduler
void trampoline()
{
    State *s = S();
    int me = s->cur;
    s->fn(s->data);
    s->team[me].finished = true;
    s->busy = true;
    sched_point(s, true);
    // not reached: a finished member is never resumed
    abort();
}
void switch_to(State *s, int target)
{
    int from = s->cur;
    s->cur = target;
    Member &t = s->team[target];
    ucontext_t *fromctx = from >= 0 ? &s->team[from].ctx : &s->main_ctx;
    if (!t.started)
    {
        t.started = true;
        getcontext(&t.ctx);
        t.ctx.uc_stack.ss_sp = t.stack;
        t.ctx.uc_stack.ss_size = t.stacksz;
        t.ctx.uc_link = nullptr;
        makecontext(&t.ctx, (void (*)())trampoline, 0);
    }
    s->busy = false;
    swapcontext(fromctx, &t.ctx);
    s->busy = true; // resumed inside the runtime
}
void sched_point(State *s, bool member_finished)
{
    ChoicePoint cp;
    int cur = s->cur;
    cp.running_enabled = (cur >= 0 && !member_finished && !s->team[cur].finished);
    if (cp.running_enabled) cp.enabled.push_back(cur);
    for (auto &m : s->team) if (!m.finished && m.id != (cp.running_enabled ? cur : -1)) cp.enabled.push_back(m.id);
    if (cp.enabled.empty())
    {
        // all members done: back to the region entry
        int from = s->cur;
        s->cur = -1;
        s->busy = false;
        swapcontext(&s->team[from].ctx, &s->main_ctx);
        abort();
    }
    int idx = 0;
    if (cp.enabled.size() > 1 && s->chooser) idx = s->chooser(cp);
    else if (cp.enabled.size() > 1) idx = 0;
    if (idx < 0 || idx >= (int)cp.enabled.size())
    {
        fprintf(stderr, "teamsched: chooser returned out-of-range index %d of %zu (replay divergence)\n", idx, cp.enabled.size());
        _Exit(97);
    }
    cp.chosen = idx;
    if (cp.enabled.size() > 1) s->trace.push_back(cp);
    int target = cp.enabled[idx];
    if (target != cur || member_finished) switch_to(s, target);
}
} // namespace

// ---------------------------------------------------------------- public control API
namespace ts
{
void set_mode(Mode m) { S()->mode = m; }
void set_default_team(int n) { S()->default_team = n; S()->cur_default = n; }
void set_team_cap(int n) { S()->cap = n; }
void set_order_fn(std::function<std::vector<int>(int, int)> f) { S()->order_fn = f; }
void set_chooser(std::function<int(const ChoicePoint &)> f) { S()->chooser = f; }
void set_granularity(size_t bytes) { size_t sh = 0; while (((size_t)1 << sh) < bytes) sh++; S()->gran_shift = sh; }
void set_region_end_fn(std::function<void(int)> f) { S()->region_end_fn = f; }
void track_heap(bool on) { S()->track = on; if (on) S()->heap.clear(); }
std::vector<std::pair<const void *, size_t>> live_heap() { std::vector<std::pair<const void *, size_t>> v; for (auto &h : S()->heap) v.push_back({h.first, h.second}); return v; }
void register_extent(const char *name, const void *base, size_t len) { S()->extents.push_back({name, (uintptr_t)base, (uintptr_t)base + len}); }
void clear_extents() { S()->extents.clear(); }
void begin_execution()
{
    State *s = S();
    s->conflicts.clear();
    s->regions.clear();
    s->trace.clear();
    s->accesses = 0;
    s->deadlock = false;
    s->region_index = 0;
    s->cur_default = s->default_team;
    s->in_region = false;
    s->cur = -1;
}
const std::vector<Conflict> &conflicts() { return S()->conflicts; }
const std::vector<RegionInfo> &regions() { return S()->regions; }
const std::vector<ChoicePoint> &trace() { return S()->trace; }
long total_accesses() { return S()->accesses; }
bool deadlock() { return S()->deadlock; }
} // namespace ts

// ---------------------------------------------------------------- OpenMP surface
extern "C"
{
static bool g_ws_preset = false;
static int g_single_region = -1;
static void ws_reset();
int omp_get_thread_num(void) { State *s = S(); return (s->in_region && s->cur >= 0) ? s->cur : 0; }
int omp_get_num_threads(void) { State *s = S(); return s->in_region ? (int)s->team.size() : 1; }
int omp_get_max_threads(void) { return S()->cur_default; }
void omp_set_num_threads(int n) { if (n > 0) S()->cur_default = n; }
void omp_set_dynamic(int) {}
int omp_get_num_procs(void) { return 16; }
int omp_in_parallel(void) { return S()->in_region ? 1 : 0; }

void GOMP_parallel(void (*fn)(void *), void *data, unsigned num_threads, unsigned /*flags*/)
{
    State *s = S();
    if (s->in_region) { fn(data); return; } // nested region: one member, inline
    int T = num_threads ? (int)num_threads : s->cur_default;
    if (T < 1) T = 1;
    if (T > s->cap) T = s->cap;
    s->team.clear();
    s->team.resize(T);
    for (int i = 0; i < T; i++) s->team[i].id = i;
    s->fn = fn;
    s->data = data;
    s->in_region = true;
    if (!g_ws_preset) ws_reset();
    g_ws_preset = false;
    if (s->mode == ts::SERIAL)
    {
        std::vector<int> order;
        if (s->order_fn) order = s->order_fn(s->region_index, T);
        if ((int)order.size() != T) { order.resize(T); for (int i = 0; i < T; i++) order[i] = i; }
        volatile char marker;
        s->serial_marker = (uintptr_t)&marker;
        for (int k = 0; k < T; k++)
        {
            s->cur = order[k];
            fn(data);
            s->team[order[k]].finished = true;
        }
        s->cur = -1;
    }
    else
    {
        for (int i = 0; i < T; i++)
        {
            s->team[i].stacksz = 1u << 20;
            s->team[i].stack = (char *)mmap(nullptr, s->team[i].stacksz, PROT_READ | PROT_WRITE, MAP_PRIVATE | MAP_ANONYMOUS, -1, 0);
            if (s->team[i].stack == MAP_FAILED) { perror("mmap"); abort(); }
        }
        s->cur = -1;
        s->busy = true;
        sched_point(s, true); // initial choice: who starts; returns here when every member has finished
        s->busy = false;
        for (int i = 0; i < T; i++)
        {
            if (!s->team[i].finished) s->deadlock = true;
            munmap(s->team[i].stack, s->team[i].stacksz);
        }
    }
    end_region(s);
    s->in_region = false;
    s->cur = -1;
}

// ---- other OpenMP constructs.  The library uses none of them; they exist so that an edited library that does still links
// and runs under this runtime.  Outside a team (orphaned construct reached from serial code) their meaning is exact: the
// encountering thread is a team of one.  Inside a team of several members the model is simplified (stated once as UNCOVERED):
// loop chunks of dynamic / guided / runtime schedules are dealt cyclically (chunk k to member k mod T, one of the outcomes a
// dynamic schedule may produce), critical / atomic sections are not interleaved, barriers do not hold members back.
static void simplified(const char *what)
{
    static std::unordered_set<std::string> said;
    State *s = S();
    bool was = s->busy;
    s->busy = true;
    struct Restore { State *s; bool was; ~Restore() { s->busy = was; } } restore_{s, was};
    if (!s->in_region || s->team.size() < 2) return;
    if (said.insert(what).second) { printf("UNCOVERED teamsched: %s inside a team of %zu members runs under a simplified model\n", what, s->team.size()); fflush(stdout); }
}
struct WorkShare { unsigned long long start, end, incr, chunk; };
static std::vector<WorkShare> g_ws;          // work-sharing loops of the current region, in encounter order
static std::vector<size_t> g_ws_idx, g_ws_k; // per member: loop it is in, chunks it has taken from that loop
static int ws_me() { State *s = S(); return (s->in_region && s->cur >= 0) ? s->cur : 0; }
static int ws_T() { State *s = S(); return s->in_region ? (int)s->team.size() : 1; }
static void ws_reset() { g_ws.clear(); g_ws_idx.clear(); g_ws_k.clear(); }
struct Busy { bool was; Busy() { State *s = S(); was = s->busy; s->busy = true; } ~Busy() { S()->busy = was; } }; // the runtime's own memory traffic is not a member access
static bool ws_next(unsigned long long *is, unsigned long long *ie)
{
    Busy busy_;
    int me = ws_me(), T = ws_T();
    if ((int)g_ws_idx.size() < T) { g_ws_idx.resize(T, 0); g_ws_k.resize(T, 0); }
    if (g_ws_idx[me] >= g_ws.size()) return false;
    WorkShare &w = g_ws[g_ws_idx[me]];
    unsigned long long step = w.chunk * w.incr, c = g_ws_k[me]++ * (unsigned long long)T + (unsigned long long)me, lo = w.start + c * step;
    if (step == 0 || lo >= w.end || lo < w.start) return false;
    *is = lo;
    *ie = (w.end - lo < step) ? w.end : lo + step;
    return true;
}
static bool ws_start(bool up, unsigned long long start, unsigned long long end, unsigned long long incr, unsigned long long chunk, unsigned long long *is, unsigned long long *ie)
{
    Busy busy_;
    if (!up) { printf("UNCOVERED teamsched: downward work-sharing loop is not modelled\n"); fflush(stdout); abort(); }
    simplified("a dynamically scheduled loop");
    int me = ws_me(), T = ws_T();
    if ((int)g_ws_idx.size() < T) { g_ws_idx.resize(T, 0); g_ws_k.resize(T, 0); }
    if (g_ws_idx[me] >= g_ws.size()) g_ws.push_back({start, end, incr, chunk ? chunk : 1});
    g_ws_k[me] = 0;
    return ws_next(is, ie);
}
static void ws_end() { Busy busy_; int me = ws_me(); if ((int)g_ws_idx.size() > me) { g_ws_idx[me]++; g_ws_k[me] = 0; } }
#define TS_LOOP_ULL(name) \
    bool GOMP_loop_ull_##name##_start(bool up, unsigned long long st, unsigned long long en, unsigned long long inc, unsigned long long ch, unsigned long long *is, unsigned long long *ie) { return ws_start(up, st, en, inc, ch, is, ie); } \
    bool GOMP_loop_ull_##name##_next(unsigned long long *is, unsigned long long *ie) { return ws_next(is, ie); }
static long g_ws_base_l = 0;
TS_LOOP_ULL(dynamic)
TS_LOOP_ULL(nonmonotonic_dynamic)
TS_LOOP_ULL(guided)
TS_LOOP_ULL(nonmonotonic_guided)
bool GOMP_loop_ull_runtime_start(bool up, unsigned long long st, unsigned long long en, unsigned long long inc, unsigned long long *is, unsigned long long *ie) { return ws_start(up, st, en, inc, 1, is, ie); }
bool GOMP_loop_ull_runtime_next(unsigned long long *is, unsigned long long *ie) { return ws_next(is, ie); }
bool GOMP_loop_ull_maybe_nonmonotonic_runtime_start(bool up, unsigned long long st, unsigned long long en, unsigned long long inc, unsigned long long *is, unsigned long long *ie) { return ws_start(up, st, en, inc, 1, is, ie); }
bool GOMP_loop_ull_maybe_nonmonotonic_runtime_next(unsigned long long *is, unsigned long long *ie) { return ws_next(is, ie); }
static bool l_start(long st, long en, long inc, long ch, long *is, long *ie)
{
    if (inc <= 0) return ws_start(false, 0, 0, 0, 0, 0, 0);
    if (en <= st) { unsigned long long a, b; ws_start(true, 0, 0, 1, 1, &a, &b); return false; }
    g_ws_base_l = st;
    unsigned long long a, b;
    bool r = ws_start(true, 0, (unsigned long long)(en - st), (unsigned long long)inc, (unsigned long long)(ch > 0 ? ch : 1), &a, &b);
    if (r) { *is = st + (long)a; *ie = st + (long)b; }
    return r;
}
static bool l_next(long *is, long *ie)
{
    unsigned long long a, b;
    bool r = ws_next(&a, &b);
    if (r) { *is = g_ws_base_l + (long)a; *ie = g_ws_base_l + (long)b; }
    return r;
}
bool GOMP_loop_dynamic_start(long st, long en, long inc, long ch, long *is, long *ie) { return l_start(st, en, inc, ch, is, ie); }
bool GOMP_loop_dynamic_next(long *is, long *ie) { return l_next(is, ie); }
bool GOMP_loop_nonmonotonic_dynamic_start(long st, long en, long inc, long ch, long *is, long *ie) { return l_start(st, en, inc, ch, is, ie); }
bool GOMP_loop_nonmonotonic_dynamic_next(long *is, long *ie) { return l_next(is, ie); }
bool GOMP_loop_guided_start(long st, long en, long inc, long ch, long *is, long *ie) { return l_start(st, en, inc, ch, is, ie); }
bool GOMP_loop_guided_next(long *is, long *ie) { return l_next(is, ie); }
bool GOMP_loop_nonmonotonic_guided_start(long st, long en, long inc, long ch, long *is, long *ie) { return l_start(st, en, inc, ch, is, ie); }
bool GOMP_loop_nonmonotonic_guided_next(long *is, long *ie) { return l_next(is, ie); }
bool GOMP_loop_runtime_start(long st, long en, long inc, long *is, long *ie) { return l_start(st, en, inc, 1, is, ie); }
bool GOMP_loop_runtime_next(long *is, long *ie) { return l_next(is, ie); }
bool GOMP_loop_maybe_nonmonotonic_runtime_start(long st, long en, long inc, long *is, long *ie) { return l_start(st, en, inc, 1, is, ie); }
bool GOMP_loop_maybe_nonmonotonic_runtime_next(long *is, long *ie) { return l_next(is, ie); }
void GOMP_loop_end(void) { ws_end(); }
void GOMP_loop_end_nowait(void) { ws_end(); }
bool GOMP_loop_end_cancel(void) { ws_end(); return false; }
// combined parallel + loop: the loop is work share 0 of the new region
static void par_loop(void (*fn)(void *), void *data, unsigned nt, long st, long en, long inc, long ch, unsigned flags)
{
    State *s = S();
    if (s->in_region) { printf("UNCOVERED teamsched: combined parallel loop inside a region is not modelled\n"); fflush(stdout); abort(); }
    if (inc <= 0) { printf("UNCOVERED teamsched: downward work-sharing loop is not modelled\n"); fflush(stdout); abort(); }
    ws_reset();
    g_ws_base_l = st;
    { Busy busy_; g_ws.push_back({0, en > st ? (unsigned long long)(en - st) : 0, (unsigned long long)inc, (unsigned long long)(ch > 0 ? ch : 1)}); }
    g_ws_preset = true;
    GOMP_parallel(fn, data, nt, flags);
}
void GOMP_parallel_loop_dynamic(void (*fn)(void *), void *d, unsigned nt, long st, long en, long inc, long ch, unsigned fl) { par_loop(fn, d, nt, st, en, inc, ch, fl); }
void GOMP_parallel_loop_nonmonotonic_dynamic(void (*fn)(void *), void *d, unsigned nt, long st, long en, long inc, long ch, unsigned fl) { par_loop(fn, d, nt, st, en, inc, ch, fl); }
void GOMP_parallel_loop_guided(void (*fn)(void *), void *d, unsigned nt, long st, long en, long inc, long ch, unsigned fl) { par_loop(fn, d, nt, st, en, inc, ch, fl); }
void GOMP_parallel_loop_nonmonotonic_guided(void (*fn)(void *), void *d, unsigned nt, long st, long en, long inc, long ch, unsigned fl) { par_loop(fn, d, nt, st, en, inc, ch, fl); }
void GOMP_parallel_loop_runtime(void (*fn)(void *), void *d, unsigned nt, long st, long en, long inc, unsigned fl) { par_loop(fn, d, nt, st, en, inc, 1, fl); }
void GOMP_parallel_loop_maybe_nonmonotonic_runtime(void (*fn)(void *), void *d, unsigned nt, long st, long en, long inc, unsigned fl) { par_loop(fn, d, nt, st, en, inc, 1, fl); }
void GOMP_barrier(void) { simplified("a barrier"); }
bool GOMP_barrier_cancel(void) { simplified("a barrier"); return false; }
void GOMP_critical_start(void) { simplified("a critical section"); }
void GOMP_critical_end(void) {}
void GOMP_critical_name_start(void **) { simplified("a critical section"); }
void GOMP_critical_name_end(void **) {}
void GOMP_atomic_start(void) { simplified("an atomic section"); }
void GOMP_atomic_end(void) {}
bool GOMP_single_start(void)
{
    static std::vector<size_t> seen; // per member: single constructs encountered in this region
    static size_t done = 0;
    State *s = S();
    if (!s->in_region || s->team.size() < 2) return true;
    Busy busy_;
    simplified("a single construct");
    if (g_single_region != s->region_index) { g_single_region = s->region_index; seen.assign(s->team.size(), 0); done = 0; }
    size_t mine = ++seen[s->cur];
    if (mine > done) { done = mine; return true; }
    return false;
}
void GOMP_task(void (*fn)(void *), void *data, void (*cpyfn)(void *, void *), long arg_size, long arg_align, bool, unsigned, void **, int, void *)
{
    // undeferred execution by the encountering member (always permitted)
    if (cpyfn)
    {
        char *buf = (char *)malloc((size_t)arg_size + (size_t)arg_align);
        char *arg = (char *)(((uintptr_t)buf + (uintptr_t)arg_align - 1) & ~((uintptr_t)arg_align - 1));
        cpyfn(arg, data);
        fn(arg);
        free(buf);
    }
    else fn(data);
}
void GOMP_taskwait(void) {}
void GOMP_taskgroup_start(void) {}
void GOMP_taskgroup_end(void) {}

// ---- compiler instrumentation (-fsanitize=thread) lands here
void __tsan_init(void) {}
void __tsan_func_entry(void *) {}
void __tsan_func_exit(void) {}
void __tsan_read1(void *a) { record((uintptr_t)a, 1, false); }
void __tsan_read2(void *a) { record((uintptr_t)a, 2, false); }
void __tsan_read4(void *a) { record((uintptr_t)a, 4, false); }
void __tsan_read8(void *a) { record((uintptr_t)a, 8, false); }
void __tsan_read16(void *a) { record((uintptr_t)a, 16, false); }
void __tsan_write1(void *a) { record((uintptr_t)a, 1, true); }
void __tsan_write2(void *a) { record((uintptr_t)a, 2, true); }
void __tsan_write4(void *a) { record((uintptr_t)a, 4, true); }
void __tsan_write8(void *a) { record((uintptr_t)a, 8, true); }
void __tsan_write16(void *a) { record((uintptr_t)a, 16, true); }
void __tsan_unaligned_read2(void *a) { record((uintptr_t)a, 2, false); }
void __tsan_unaligned_read4(void *a) { record((uintptr_t)a, 4, false); }
void __tsan_unaligned_read8(void *a) { record((uintptr_t)a, 8, false); }
void __tsan_unaligned_read16(void *a) { record((uintptr_t)a, 16, false); }
void __tsan_unaligned_write2(void *a) { record((uintptr_t)a, 2, true); }
void __tsan_unaligned_write4(void *a) { record((uintptr_t)a, 4, true); }
void __tsan_unaligned_write8(void *a) { record((uintptr_t)a, 8, true); }
void __tsan_unaligned_write16(void *a) { record((uintptr_t)a, 16, true); }
void __tsan_read_range(void *a, unsigned long n) { record((uintptr_t)a, n, false); }
void __tsan_write_range(void *a, unsigned long n) { record((uintptr_t)a, n, true); }
void __tsan_vptr_update(void **, void *) {}
void __tsan_vptr_read(void **) {}
// atomics emitted for static-local guards etc. in instrumented harness code (single OS thread here)
unsigned char __tsan_atomic8_load(const volatile unsigned char *a, int) { return *a; }
void __tsan_atomic8_store(volatile unsigned char *a, unsigned char v, int) { *a = v; }
unsigned int __tsan_atomic32_load(const volatile unsigned int *a, int) { return *a; }
void __tsan_atomic32_store(volatile unsigned int *a, unsigned int v, int) { *a = v; }
unsigned long __tsan_atomic64_load(const volatile unsigned long *a, int) { return *a; }
void __tsan_atomic64_store(volatile unsigned long *a, unsigned long v, int) { *a = v; }
unsigned int __tsan_atomic32_fetch_add(volatile unsigned int *a, unsigned int v, int) { unsigned int o = *a; *a = o + v; return o; }
unsigned long __tsan_atomic64_fetch_add(volatile unsigned long *a, unsigned long v, int) { unsigned long o = *a; *a = o + v; return o; }
unsigned int __tsan_atomic32_fetch_sub(volatile unsigned int *a, unsigned int v, int) { unsigned int o = *a; *a = o - v; return o; }
unsigned int __tsan_atomic32_exchange(volatile unsigned int *a, unsigned int v, int) { unsigned int o = *a; *a = v; return o; }
int __tsan_atomic32_compare_exchange_strong(volatile unsigned int *a, unsigned int *c, unsigned int v, int, int) { if (*a == *c) { *a = v; return 1; } *c = *a; return 0; }
int __tsan_atomic64_compare_exchange_strong(volatile unsigned long *a, unsigned long *c, unsigned long v, int, int) { if (*a == *c) { *a = v; return 1; } *c = *a; return 0; }
void __tsan_atomic_thread_fence(int) {}
void __tsan_atomic_signal_fence(int) {}

// ---- heap blocks allocated by the instrumented objects while tracking is on
void *__real_memset(void *, int, size_t);
void *__real_malloc(size_t);
void __real_free(void *);
void *__wrap_malloc(size_t n)
{
    void *p = __real_malloc(n);
    State *s = S();
    if (p && s->track && !s->busy && !s->in_region)
    {
        s->busy = true;
        __real_memset(p, 0, n);
        s->heap.push_back({p, n});
        s->busy = false;
    }
    return p;
}
void __wrap_free(void *p)
{
    State *s = S();
    if (p && s->track && !s->busy)
    {
        s->busy = true;
        for (size_t i = 0; i < s->heap.size(); i++) if (s->heap[i].first == p) { s->heap.erase(s->heap.begin() + i); break; }
        s->busy = false;
    }
    __real_free(p);
}

// ---- mem* calls of the instrumented objects (linked with -Wl,--wrap=memcpy,--wrap=memset,--wrap=memmove)
void *__real_memcpy(void *, const void *, size_t);
void *__real_memset(void *, int, size_t);
void *__real_memmove(void *, const void *, size_t);
void *__wrap_memcpy(void *d, const void *sr, size_t n)
{
    record((uintptr_t)sr, n, false, true);
    record((uintptr_t)d, n, true);
    return __real_memcpy(d, sr, n);
}
void *__wrap_memmove(void *d, const void *sr, size_t n)
{
    record((uintptr_t)sr, n, false, true);
    record((uintptr_t)d, n, true);
    return __real_memmove(d, sr, n);
}
void *__wrap_memset(void *d, int c, size_t n)
{
    record((uintptr_t)d, n, true, true);
    return __real_memset(d, c, n);
}
}
