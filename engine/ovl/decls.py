#!/usr/bin/env python3
"""ovl/decls.py -- catalogue of the batched / AVX2 / AVX-512 helper overloads.

Reads the headers of the tree under test on every run (comments removed first, so
commented-out declarations and definitions do not exist for it) and lists every overload of
  C16: class Goldilocks3 (goldilocks_cubic_extension.hpp, definitions inline in the class)
       families copy|add|sub|mul, infix 13|31|33c|1c3c|13c|31c, suffix _batch|_avx|_avx512
  C17: class Goldilocks (declared in goldilocks_base_field.hpp, defined in
       goldilocks_base_field_{batch,avx,avx512}.hpp): copy|add|sub|mul _batch|_avx|_avx512,
       minus the pure lane kernels (add/sub whose three parameters are all registers)
with a *spec* derived by rule from the name and the parameter list (never from the body):

  family          add | sub | mul | copy                       (name prefix)
  lanes           _batch,_avx -> 4     _avx512 -> 8            (name suffix)
  operand kinds   digits of the infix: 1 = base element per lane, 3 = extension element per
                  lane, a 'c' after a digit = that operand is ONE constant for all lanes;
                  no infix = 3,3 (class Goldilocks3) or 1,1 (class Goldilocks)
  parameters      first parameter(s) = result, then operand a, then operand b (copy: one operand)
  carriers        Element* without bound stride      -> arr_unit   element k at k*dim+i
                  Element* + scalar stride/offset    -> arr_stride element k at k*s+i
                  Element* + uint64_t array          -> arr_idx    element k at idx[k]+i
                  Element* for a 'c' operand         -> const_ptr  b[0..dim-1] for every lane
                  Element by value / reference,
                  Goldilocks3::Element&              -> const_val  broadcast
                  __m256i/__m512i (1 for kind 1, 3 consecutive for kind 3),
                  Element_avx / Element_avx512       -> reg        planar registers, lane k
  stride binding  integer parameter named (stride|offset|offsets)_?X : X in {c,dst}->result,
                  a->a, b->b, digit d->the operand whose own name ends in d (in1/in2);
                  without a suffix -> the pointer parameter immediately before it
  stride meaning  scalar s: element k at k*s (every definition multiplies; checked below and
                  recorded as evidence `uses`), array idx: element k at idx[k]

Everything the rule cannot classify is status=uncovered with a reason; the deviations from
the rule that were decided by reading the definitions are in exceptions.tsv (matched by
class, name and normalised signature; the line given there is the justification on the
pinned tree).  Output: list of dict (JSON with --json)."""
import os, re, sys, json

HERE = os.path.dirname(os.path.abspath(__file__))
NAME_RE = re.compile(r'^(copy|add|sub|mul)(13c|31c|33c|1c3c|13|31|33)?_(batch|avx|avx512)$')


# ------------------------------------------------------------------ text utilities
def strip_comments(text):
    """replace // and /* */ comments by blanks, keep newlines and string literals"""
    out = []
    i, n = 0, len(text)
    while i < n:
        c = text[i]
        if c == '/' and i + 1 < n and text[i + 1] == '/':
            j = text.find('\n', i)
            if j < 0:
                j = n
            out.append(' ' * (j - i))
            i = j
        elif c == '/' and i + 1 < n and text[i + 1] == '*':
            j = text.find('*/', i + 2)
            j = n if j < 0 else j + 2
            out.append(''.join(ch if ch == '\n' else ' ' for ch in text[i:j]))
            i = j
        elif c == '"' or c == "'":
            j = i + 1
            while j < n and text[j] != c:
                if text[j] == '\\':
                    j += 1
                j += 1
            out.append(text[i:j + 1])
            i = j + 1
        else:
            out.append(c)
            i += 1
    return ''.join(out)


def line_of(text, pos):
    return text.count('\n', 0, pos) + 1


def avx512_regions(text):
    """set of line numbers inside '#ifdef __AVX512__' (nesting tracked for #if/#ifdef/#ifndef)"""
    inside = set()
    stack = []
    for ln, line in enumerate(text.split('\n'), 1):
        s = line.strip()
        if s.startswith('#'):
            d = s[1:].strip()
            if re.match(r'if(def|ndef)?\b', d):
                stack.append(bool(re.match(r'ifdef\s+__AVX512__\b', d)))
            elif d.startswith('endif'):
                if stack:
                    stack.pop()
            continue
        if any(stack):
            inside.add(ln)
    return inside


def match_brace(text, i):
    """text[i] == '{' -> index just after the matching '}'"""
    depth = 0
    n = len(text)
    while i < n:
        c = text[i]
        if c == '{':
            depth += 1
        elif c == '}':
            depth -= 1
            if depth == 0:
                return i + 1
        i += 1
    return n


# ------------------------------------------------------------------ parameters
def parse_params(ptext, cls):
    """-> list of dict(text, name, ctype (C++ type without the name, class-qualified), pt, norm, isconst, isref)"""
    res = []
    ptext = ptext.strip()
    if not ptext or ptext == 'void':
        return res
    for raw in ptext.split(','):
        raw = ' '.join(raw.split())
        m = re.match(r'^(?P<type>.*?[\s\*&])(?P<name>[A-Za-z_]\w*)\s*(?P<arr>\[[^\]]*\])?$', raw)
        if not m:
            res.append(dict(text=raw, name='?', ctype=raw, pt='unknown', norm=raw, isconst=False, isref=False, arr=None))
            continue
        ty = m.group('type').strip()
        arr = m.group('arr')
        name = m.group('name')
        # qualify the bare class-local type name
        q = 'Goldilocks3::Element' if cls == 'Goldilocks3' else 'Goldilocks::Element'
        tyq = re.sub(r'(?<![:\w])Element\b(?!_)', q, ty)
        isconst = bool(re.search(r'\bconst\b', tyq))
        core = re.sub(r'\bconst\b', '', tyq)
        core = core.replace(' ', '')
        isref = core.endswith('&')
        isptr = core.endswith('*')
        base = core.rstrip('&*')
        pt = 'unknown'
        if base == 'Goldilocks::Element':
            if isptr and not arr:
                pt = 'eptr'
            elif not isptr and arr:
                pt = 'earr'            # Goldilocks::Element x[3]
            elif not isptr and not arr:
                pt = 'eval'
        elif base == 'Goldilocks3::Element':
            if isref and not arr:
                pt = 'e3ref'
        elif base in ('__m256i', '__m512i'):
            if not isptr and not arr:
                pt = 'reg'
        elif base in ('Goldilocks3::Element_avx', 'Goldilocks3::Element_avx512'):
            if not isptr and not arr:
                pt = 'reg3'
        elif base in ('uint64_t', 'uint32_t', 'u_int64_t'):
            if not isptr and not isref:
                pt = 'uarr' if arr else 'u'
        short = {'Goldilocks::Element': 'E', 'Goldilocks3::Element': 'E3', '__m256i': 'V', '__m512i': 'W',
                 'Goldilocks3::Element_avx': 'V3', 'Goldilocks3::Element_avx512': 'W3', 'uint64_t': 'u64', 'uint32_t': 'u32'}.get(base, base)
        norm = short + ('*' if isptr else '') + ('&' if isref else '') + ('[]' if arr else '')
        ctype = tyq + (' ' + arr if arr else '')
        res.append(dict(text=raw, name=name, ctype=ctype, pt=pt, norm=norm, isconst=isconst, isref=isref, arr=arr,
                        wide=base in ('__m512i', 'Goldilocks3::Element_avx512')))
    return res


def sig_of(params):
    return '(' + ','.join(p['norm'] for p in params) + ')'


# ------------------------------------------------------------------ extraction
def extract_cubic(src):
    path = os.path.join(src, 'goldilocks_cubic_extension.hpp')
    text = strip_comments(open(path).read())
    reg512 = avx512_regions(text)
    out = []
    for m in re.finditer(r'\bstatic\s+(?:inline\s+)?void\s+(\w+)\s*\(([^()]*)\)\s*\{', text):
        name = m.group(1)
        if not NAME_RE.match(name):
            continue
        end = match_brace(text, m.end() - 1)
        ln = line_of(text, m.start())
        out.append(dict(cls='Goldilocks3', name=name, file='goldilocks_cubic_extension.hpp', line=ln, def_file='goldilocks_cubic_extension.hpp',
                        def_line=ln, params=parse_params(m.group(2), 'Goldilocks3'), body=text[m.end() - 1:end], in512=ln in reg512))
    return out


def extract_base(src):
    hp = os.path.join(src, 'goldilocks_base_field.hpp')
    text = strip_comments(open(hp).read())
    reg512 = avx512_regions(text)
    # class body
    m0 = re.search(r'\bclass\s+Goldilocks\b[^;{]*\{', text)
    cend = match_brace(text, m0.end() - 1)
    decls = []
    for m in re.finditer(r'\bstatic\s+(?:inline\s+)?void\s+(\w+)\s*\(([^()]*)\)\s*;', text[:cend]):
        if m.start() < m0.end():
            continue
        name = m.group(1)
        if not NAME_RE.match(name) or NAME_RE.match(name).group(2):
            continue
        ln = line_of(text, m.start())
        decls.append(dict(cls='Goldilocks', name=name, file='goldilocks_base_field.hpp', line=ln, params=parse_params(m.group(2), 'Goldilocks'),
                          in512=ln in reg512, body=None, def_file=None, def_line=None))
    # definitions
    defs = {}
    for fn in ('goldilocks_base_field_batch.hpp', 'goldilocks_base_field_avx.hpp', 'goldilocks_base_field_avx512.hpp', 'goldilocks_base_field_scalar.hpp',
               'goldilocks_base_field_tools.hpp', 'goldilocks_base_field.cpp'):
        p = os.path.join(src, fn)
        if not os.path.exists(p):
            continue
        t = strip_comments(open(p).read())
        for m in re.finditer(r'\bvoid\s+Goldilocks::(\w+)\s*\(([^()]*)\)\s*\{', t):
            name = m.group(1)
            if not NAME_RE.match(name):
                continue
            ps = parse_params(m.group(2), 'Goldilocks')
            end = match_brace(t, m.end() - 1)
            defs.setdefault((name, sig_of(ps)), []).append(dict(file=fn, line=line_of(t, m.start()), params=ps, body=t[m.end() - 1:end]))
    used = set()
    for d in decls:
        k = (d['name'], sig_of(d['params']))
        if k in defs:
            dd = defs[k][0]
            used.add(k)
            d['def_file'], d['def_line'], d['body'], d['def_params'] = dd['file'], dd['line'], dd['body'], dd['params']
    orphans = [dict(name=k[0], sig=k[1], file=v[0]['file'], line=v[0]['line']) for k, v in defs.items() if k not in used]
    return decls, orphans


# ------------------------------------------------------------------ exceptions
def load_exceptions():
    ex = {}
    p = os.path.join(HERE, 'exceptions.tsv')
    for ln, line in enumerate(open(p), 1):
        line = line.rstrip('\n')
        if not line.strip() or line.startswith('#'):
            continue
        f = line.split('\t')
        if len(f) < 6:
            raise SystemExit('exceptions.tsv:%d: need 6 tab-separated fields' % ln)
        cls, name, sig, override, where, why = f[:6]
        ov = {}
        for kv in override.split(';'):
            kv = kv.strip()
            if kv and kv != '-':
                k, v = kv.split('=', 1)
                ov[k.strip()] = v.strip()
        ex[(cls, name, sig)] = dict(override=ov, where=where, why=why, line=ln, used=False)
    return ex


# ------------------------------------------------------------------ the rule
def kinds_from_name(cls, name):
    m = NAME_RE.match(name)
    fam, infix, suf = m.group(1), m.group(2), m.group(3)
    lanes = 8 if suf == 'avx512' else 4
    dflt = 3 if cls == 'Goldilocks3' else 1
    if fam == 'copy':
        ops = [(dflt, False)]
    elif not infix:
        ops = [(dflt, False), (dflt, False)]
    else:
        ops = [(int(d), bool(c)) for d, c in re.findall(r'([13])(c?)', infix)]
    return fam, lanes, ops, suf


def derive(o, exceptions):
    """fills o['spec'] or o['status']='uncovered'"""
    cls, name, P = o['cls'], o['name'], o['params']
    fam, lanes, ops, suf = kinds_from_name(cls, name)
    rk = 3 if cls == 'Goldilocks3' else 1
    o.update(family=fam, lanes=lanes, isa='avx512' if (suf == 'avx512' or o['in512']) else 'avx2', sig=sig_of(P))
    exc = exceptions.get((cls, name, o['sig']))
    ov = {}
    if exc:
        exc['used'] = True
        ov = exc['override']
        o['exception'] = dict(where=exc['where'], why=exc['why'], override=ov)
    if ov.get('status') == 'uncovered':
        return unc(o, 'exceptions.tsv: ' + exc['why'])
    if o.get('body') is None:
        return unc(o, 'declared at %s:%d but no definition found in the tree (calling it cannot link)' % (o['file'], o['line']))
    if any(p['pt'] == 'unknown' for p in P):
        return unc(o, 'parameter type not classifiable: ' + '; '.join(p['text'] for p in P if p['pt'] == 'unknown'))
    want_wide = suf == 'avx512'
    for p in P:
        if p['pt'] in ('reg', 'reg3') and p['wide'] != want_wide:
            return unc(o, 'register width of %s does not match suffix _%s' % (p['text'], suf))

    roles = [None] * len(P)      # per parameter: (slot, what)  slot 0=result 1=a 2=b
    spec = {'r': None, 'a': None, 'b': None, 'aux': 'none'}
    i = 0
    n = len(P)

    def take_regs(i, k, need_out):
        """k consecutive single registers starting at i"""
        if i + k > n:
            return False
        for j in range(i, i + k):
            if P[j]['pt'] != 'reg':
                return False
            if need_out and (not P[j]['isref'] or P[j]['isconst']):
                return False
        return True

    # ---- result
    if P[0]['pt'] == 'eptr' and not P[0]['isconst']:
        spec['r'] = dict(kind=rk, carrier='arr_unit', form='ptr', pname=P[0]['name'])
        roles[0] = (0, 'ptr')
        i = 1
    elif P[0]['pt'] == 'reg3' and rk == 3 and not P[0]['isconst']:
        spec['r'] = dict(kind=3, carrier='reg', form='arrref' if P[0]['isref'] else 'arr', pname=P[0]['name'], obj=True)
        roles[0] = (0, 'reg3')
        i = 1
    elif rk == 3 and take_regs(0, 3, True):
        spec['r'] = dict(kind=3, carrier='reg', form='sep', pname=P[0]['name'], obj=True)
        for j in range(3):
            roles[j] = (0, 'reg%d' % j)
        i = 3
    elif rk == 1 and take_regs(0, 1, True):
        spec['r'] = dict(kind=1, carrier='reg', form='one', pname=P[0]['name'], obj=True)
        roles[0] = (0, 'reg0')
        i = 1
    else:
        return unc(o, 'first parameter(s) are not a recognisable result carrier')

    # ---- operands, in order; integer parameters are skipped here and bound afterwards
    slots = ['a', 'b']
    for oi, (kind, isc) in enumerate(ops):
        while i < n and P[i]['pt'] in ('u', 'uarr'):
            i += 1
        if i >= n:
            return unc(o, 'operand %s promised by the name has no parameter' % slots[oi])
        p = P[i]
        s = slots[oi]
        slot = oi + 1
        if p['pt'] == 'eptr':
            spec[s] = dict(kind=kind, carrier='const_ptr' if isc else 'arr_unit', form='ptr', pname=p['name'])
            roles[i] = (slot, 'ptr')
            i += 1
        elif p['pt'] == 'eval':
            if kind != 1:
                return unc(o, 'operand %s: name says extension element but the parameter is one base element (%s)' % (s, p['text']))
            if cls == 'Goldilocks3' and not isc:
                return unc(o, 'operand %s: a single Element value, but the name does not mark it constant' % s)
            spec[s] = dict(kind=1, carrier='const_val', form='val', pname=p['name'])
            roles[i] = (slot, 'val')
            i += 1
        elif p['pt'] == 'e3ref':
            if kind != 3 or not isc:
                return unc(o, 'operand %s: Goldilocks3::Element& but the name promises kind %d%s' % (s, kind, 'c' if isc else ''))
            spec[s] = dict(kind=3, carrier='const_val', form='e3ref', pname=p['name'])
            roles[i] = (slot, 'e3')
            i += 1
        elif p['pt'] == 'reg3':
            if kind != 3:
                return unc(o, 'operand %s: three registers but the name promises a base element' % s)
            spec[s] = dict(kind=3, carrier='regc' if isc else 'reg', form='arrref' if p['isref'] else 'arr', pname=p['name'], obj=True)
            roles[i] = (slot, 'reg3')
            i += 1
        elif p['pt'] == 'reg':
            if kind == 1:
                if isc:
                    return unc(o, 'operand %s: constant promised but a lane register is passed' % s)
                spec[s] = dict(kind=1, carrier='reg', form='one', pname=p['name'], obj=p['isref'])
                roles[i] = (slot, 'reg0')
                i += 1
            else:
                if not take_regs(i, 3, False):
                    return unc(o, 'operand %s: extension element promised but fewer than three registers follow' % s)
                spec[s] = dict(kind=3, carrier='regc' if isc else 'reg', form='sep', pname=p['name'], obj=all(P[i + j]['isref'] for j in range(3)))
                for j in range(3):
                    roles[i + j] = (slot, 'reg%d' % j)
                i += 3
        else:
            return unc(o, 'operand %s: parameter %s is not an operand carrier' % (s, p['text']))

    # ---- leftovers that are not integers: only through an exception (aux = precomputed sums)
    left = [j for j in range(n) if roles[j] is None and P[j]['pt'] not in ('u', 'uarr')]
    if left:
        if ov.get('aux') == 'ptr' and len(left) == 1 and P[left[0]]['pt'] == 'earr':
            roles[left[0]] = (3, 'auxptr')
            spec['aux'] = 'ptr'
        elif ov.get('aux') == 'regs' and len(left) == 3 and all(P[j]['pt'] == 'reg' for j in left):
            for t, j in enumerate(left):
                roles[j] = (3, 'auxreg%d' % t)
            spec['aux'] = 'regs'
        else:
            return unc(o, 'extra parameter(s) with no role under the rule: ' + ', '.join(P[j]['text'] for j in left))
    elif 'aux' in ov:
        return unc(o, 'exceptions.tsv promises aux parameters that are not there')

    # ---- explicit carrier overrides from exceptions.tsv (before strides are bound)
    for s in ('a', 'b'):
        if (s + '.carrier') in ov and spec[s]:
            spec[s]['carrier'] = ov[s + '.carrier']

    # ---- integer parameters -> strides / index arrays
    byname = {'c': 'r', 'dst': 'r', 'a': 'a', 'b': 'b'}
    for j in range(n):
        p = P[j]
        if p['pt'] not in ('u', 'uarr'):
            continue
        m = re.match(r'^(?:strides?|offsets?)_?(\w*)$', p['name'])
        if not m:
            return unc(o, 'integer parameter %s is not named stride*/offset*' % p['text'])
        suffix = m.group(1)
        tgt = None
        key = 'bind.' + p['name']
        if key in ov:
            tgt = ov[key]
        elif suffix in byname:
            tgt = byname[suffix]
        elif suffix.isdigit():
            cands = [s for s in ('a', 'b') if spec[s] and spec[s]['pname'].endswith(suffix)]
            if len(cands) != 1:
                return unc(o, 'stride parameter %s: no operand whose name ends in %s' % (p['text'], suffix))
            tgt = cands[0]
        elif suffix == '':
            if j > 0 and roles[j - 1] and roles[j - 1][1] == 'ptr':
                tgt = ('r', 'a', 'b')[roles[j - 1][0]]
            else:
                return unc(o, 'unnamed stride %s does not follow a pointer parameter' % p['text'])
        else:
            return unc(o, 'stride parameter %s: suffix %r names no operand' % (p['text'], suffix))
        t = spec[tgt]
        if t is None:
            return unc(o, 'stride parameter %s refers to a missing operand' % p['text'])
        if t['carrier'] != 'arr_unit':
            return unc(o, 'stride parameter %s is bound to operand %s whose carrier is %s' % (p['text'], tgt, t['carrier']))
        t['carrier'] = 'arr_idx' if p['pt'] == 'uarr' else 'arr_stride'
        t['sparam'] = p['name']
        t['sbits'] = 32 if p['norm'].startswith('u32') else 64
        roles[j] = ({'r': 0, 'a': 1, 'b': 2}[tgt], 'idx' if p['pt'] == 'uarr' else 'stride')
        # evidence from the body (never used to build the spec): how is the scalar used?
        if p['pt'] == 'u':
            dp = (o.get('def_params') or P)[j]['name']
            b = o['body']
            if re.search(r'\*\s*%s\b|\b%s\s*\*' % (dp, dp), b):
                use = 'k*s'
            elif re.search(r'\b%s\b' % dp, b):
                use = 'other'
            else:
                use = 'unused'
            t['uses'] = use
        else:
            dp = (o.get('def_params') or P)[j]['name']
            subs = re.findall(r'\b%s\s*\[([^\]]*)\]' % dp, o['body'])
            t['uses'] = 'unused' if not subs else ('idx[k]' if all(re.match(r'^\s*[A-Za-z_]\w*\s*$', x) for x in subs) else 'other')
    if any(r is None for r in roles):
        return unc(o, 'parameter without a role: ' + ', '.join(P[j]['text'] for j in range(n) if roles[j] is None))
    if fam == 'copy' and spec['b'] is not None:
        return unc(o, 'copy with two operands')
    o['spec'] = spec
    o['alias'] = alias_forms(spec)
    o['roles'] = roles
    o['status'] = 'covered'
    return o


MEMARR = ('arr_unit', 'arr_stride', 'arr_idx')


def can_share(x, y):
    """may carriers x and y be ONE object with identical designated positions?  (rule, from the parameter list only)
    registers: same kind, same shape (Element_avx[_512] array / single register / three registers) and the operand is passed as an
               object (reference or array), not copied by value;
    arrays:    same kind and both element arrays (unit, strided or indexed): same base pointer, and the harness fixes stride / index
               array so that position k of one IS position k of the other (never partially overlapping)."""
    if not x or not y or x['kind'] != y['kind']:
        return False
    if x['carrier'] == 'reg' and y['carrier'] == 'reg':
        shape = {'arr': 'A', 'arrref': 'A', 'one': 'O', 'sep': 'S'}
        return shape[x['form']] == shape[y['form']] and x.get('obj') and y.get('obj')
    return x['carrier'] in MEMARR and y['carrier'] in MEMARR


def alias_forms(spec):
    """alias forms added for this overload: c:a (result object == operand a), c:b, a:b (both operands one object), c:a:b"""
    f = []
    ca, cb, ab = can_share(spec['r'], spec['a']), can_share(spec['r'], spec['b']), can_share(spec['a'], spec['b'])
    if ca:
        f.append('c:a')
    if cb:
        f.append('c:b')
    if ab:
        f.append('a:b')
    if ca and cb and ab:
        f.append('c:a:b')
    return f


def unc(o, why):
    o['status'] = 'uncovered'
    o['why'] = why
    return o


def is_lane_kernel(d):
    """add/sub/mul of class Goldilocks whose parameters are all single registers = pure lane kernel (C02/C11)"""
    fam = NAME_RE.match(d['name']).group(1)
    return fam != 'copy' and len(d['params']) == 3 and all(p['pt'] == 'reg' for p in d['params'])


def catalogue(src, prop):
    exceptions = load_exceptions()
    notes = []
    if prop == 'C16':
        items = extract_cubic(src)
    else:
        items, orphans = extract_base(src)
        kernels = [d for d in items if is_lane_kernel(d)]
        items = [d for d in items if not is_lane_kernel(d)]
        notes.append('excluded as pure lane kernels (covered by C02/C11): ' + ', '.join('%s%s' % (d['name'], sig_of(d['params'])) for d in kernels))
        for x in orphans:
            if not (len(x['sig'].split(',')) == 3 and set(x['sig'].strip('()').replace('&', '').split(',')) <= {'V', 'W'}):
                notes.append('definition without declaration: %s%s at %s:%d' % (x['name'], x['sig'], x['file'], x['line']))
    count = {}
    for o in items:
        derive(o, exceptions)
        count[o['name']] = count.get(o['name'], 0) + 1
        o['id'] = '%s#%d' % (o['name'], count[o['name']])
    # body-usage evidence: deviations from the majority form are candidate defects (reported, judged by behaviour)
    for o in items:
        if o['status'] != 'covered':
            continue
        for s in ('r', 'a', 'b'):
            t = o['spec'][s]
            if t and t.get('uses') in ('other', 'unused'):
                notes.append('candidate: %s (%s:%d) parameter %s is %s in the body (family rule: k*stride / idx[k])' % (
                    o['id'], o['def_file'], o['def_line'], t.get('sparam'), t['uses']))
    cls = 'Goldilocks3' if prop == 'C16' else 'Goldilocks'
    for k, e in exceptions.items():
        if k[0] == cls and not e['used']:
            notes.append('exceptions.tsv:%d (%s%s) matches no overload of the current tree' % (e['line'], k[1], k[2]))
    return items, notes


def summary(items):
    fams = {}
    for o in items:
        f = fams.setdefault(o['family'], dict(total=0, covered=0, uncovered=0))
        f['total'] += 1
        f[o['status']] += 1
    return fams


def main():
    import argparse
    ap = argparse.ArgumentParser()
    ap.add_argument('--src', default=os.path.join(os.environ.get('VERIF_REPO', '/repo'), 'src'))
    ap.add_argument('--prop', default='C16')
    ap.add_argument('--json', action='store_true')
    a = ap.parse_args()
    items, notes = catalogue(a.src, a.prop)
    if a.json:
        json.dump([{k: v for k, v in o.items() if k not in ('body',)} for o in items], sys.stdout, indent=1)
        return
    for o in items:
        if o['status'] == 'covered':
            sp = o['spec']
            d = ' '.join('%s=%s%s' % (s, sp[s]['kind'], sp[s]['carrier']) for s in ('r', 'a', 'b') if sp[s]) + (' aux=' + sp['aux'] if sp['aux'] != 'none' else '')
            d += '  alias{%s}' % ','.join(o['alias']) if o['alias'] else ''
        else:
            d = 'UNCOVERED: ' + o['why']
        print('%-22s %s:%-5d %-40s %s%s' % (o['id'], o['file'].replace('goldilocks_', ''), o['line'], o['sig'], d, '  [exception]' if 'exception' in o else ''))
    print(json.dumps(summary(items)))
    for nt in notes:
        print('NOTE', nt)


if __name__ == '__main__':
    main()
