// ovl engine: the generic harness.  Links against the generated spec table + wrappers
// (engine/ovl/gen.py) and enumerates, per overload, every stride / index-array configuration
// and every value pass; oracle = scalar operation with unsigned __int128; exact write set via
// sentinel arenas; exact read extent via exact-size heap blocks when built with ASan.
//
//   <exe> --tier quick|thorough --seed N --jobs N [--role plain|asan] [--only <id-prefix>]
//   <exe> --one "<case>" [--role ...]         re-runs one case, prints the same VIOL line
//
// Protocol: see engine/common/vcommon.hpp.  One forked process per overload (a crash or an
// ASan abort of one overload is a VIOL of that overload and does not hide the others).
#pragma once
#include "vcommon.hpp"
#include "ovl_types.hpp"
#include <unordered_set>
#include <array>
#include <errno.h>

#if defined(__SANITIZE_ADDRESS__)
#define OVL_EXACT 1
#include <sanitizer/asan_interface.h>
extern "C" const char *__asan_default_options() { return "detect_leaks=0:abort_on_error=0:exitcode=77"; }
#else
#define OVL_EXACT 0
#endif
#if defined(__SANITIZE_THREAD__)
#define OVL_TSAN 1
#include <thread>
#include <atomic>
#include <fcntl.h>
extern "C" const char *__tsan_default_options() { return "halt_on_error=0:exitcode=0"; }
#else
#define OVL_TSAN 0
#endif
#define OVL_PRIVATE (OVL_EXACT || OVL_TSAN) // every case allocates its own exact-size heap blocks (no shared arenas)

namespace ovl
{
using namespace vc;
static const u64 P = GP;
enum { NBV = 11 };
static const u64 BV[NBV] = {0, 1, P - 1, P, P + 1, 0xFFFFFFFFULL, 0x100000000ULL, 0xFFFFFFFFFFFFFFFFULL,
                            0x8000000000000000ULL, 0xFFFFFFFE00000001ULL, 0x5555555555555555ULL};
static const u64 STRIDES_Q[] = {0, 1, 3, 5, 1000};
static const u64 STRIDES_T[] = {0, 1, 2, 3, 4, 5, 7, 64, 1000};
static const u64 STRIDES_HUGE[] = {715827883ULL, (1ULL << 31) + 5, (1ULL << 32) + 7}; // ceil(2^31/3): 3*s no longer fits int32; > 2^31; > 2^32
static const u64 HUGE_FROM = 1ULL << 20;
static bool g_thorough = false;
enum { IP_IDENT = 0, IP_REV, IP_EQ, IP_SCAT, IP_REP, IP_BIG, NIP };
static const char *const IPN[NIP] = {"ident", "rev", "eq", "scat", "rep", "big"};
static const u64 SCAT[8] = {9, 2, 14, 5, 17, 0, 12, 7};
static const u64 REPT[8] = {3, 3, 0, 7, 0, 3, 7, 1};
static const char *const FAMN[] = {"add", "sub", "mul", "copy"};
static const char *const CARN[] = {"none", "arr_unit", "arr_stride", "arr_idx", "const_ptr", "const_val", "reg", "regc"};
static const size_t BIGN = 8703; // plain build: arrays live at the END of a mapping this long (guard page right behind); the window in use
                                 // is as long as the largest extent any operand of the case designates + MARGIN, so a stride or index
                                 // applied to the wrong operand still lands inside a sentinel-filled window
static const size_t MARGIN = 64;

inline u64 mix(u64 x)
{
    x += 0x9E3779B97F4A7C15ULL;
    x = (x ^ (x >> 30)) * 0xBF58476D1CE4E5B9ULL;
    x = (x ^ (x >> 27)) * 0x94D049BB133111EBULL;
    return x ^ (x >> 31);
}
inline u64 tagv(int slot, u64 pos) { return mix(((u64)(slot + 1) << 40) + pos) % P; } // canonical, distinct per (operand, position)
inline u64 sentv(u64 pos) { return mix(0xD00D000000000000ULL + pos) | 0x8000000000000000ULL; }

// gap words: pattern NIP + code, code = sum g_k 3^(k-1) over the L-1 gaps between neighbouring lanes, g in
//   0 consecutive (idx[k] = idx[k-1] + dim), 1 jump (idx[k] = max used + dim + 1), 2 wrap (idx[k] = min used - 9*dim - 1);
// every word designates L distinct, non-overlapping elements (a run after a wrap is at most 7 elements long and stays below
// the previous minimum), so the words are legal for results as well
// repeat words (INPUT operands only): code RW + sum g_k 4^(k-1) with the fourth gap kind 3 = repeat (idx[k] = idx[k-1]): lists in
// which some neighbours designate the same element and others do not
static const int RW = 1000000;
inline u64 gapval(int code, int k, int L, int dim)
{
    u64 cur = (u64)(9 * dim + 1) * 8, lo = cur, hi = cur;
    int base = 3;
    if (code >= RW) { code -= RW; base = 4; }
    for (int j = 1; j <= k; j++)
    {
        int g = code % base;
        code /= base;
        if (g == 3) continue;
        cur = g == 0 ? cur + dim : g == 1 ? hi + dim + 1 : lo - 9 * dim - 1;
        lo = std::min(lo, cur);
        hi = std::max(hi, cur);
    }
    (void)L;
    return cur;
}
inline std::string ipname(int pat);
inline u64 idxval(int pat, int k, int L, int dim)
{
    if (pat >= NIP) return gapval(pat - NIP, k, L, dim);
    switch (pat)
    {
    case IP_IDENT: return (u64)k * dim;
    case IP_REV: return (u64)(L - 1 - k) * dim;
    case IP_EQ: return 5;
    case IP_SCAT: return SCAT[k] * dim + (k & 1);
    case IP_REP: return REPT[k] * dim;
    default: return (u64)((k * 5 + 3) % L) * 997;
    }
}

// ---------------------------------------------------------------- field oracle
inline u64 fadd(u64 a, u64 b) { return (u64)(((u128)(a % P) + (b % P)) % P); }
inline u64 fsub(u64 a, u64 b) { return (u64)(((u128)(a % P) + P - (b % P)) % P); }
inline u64 fmul(u64 a, u64 b) { return (u64)((u128)(a % P) * (b % P) % P); }
inline u64 fneg(u64 a) { return (P - a % P) % P; }
// (a0 + a1 x + a2 x^2)(b0 + b1 x + b2 x^2) mod x^3 - x - 1  (x^3 = x + 1, x^4 = x^2 + x)
inline void mul33(const u64 a[3], const u64 b[3], u64 c[3])
{
    u64 d0 = fmul(a[0], b[0]);
    u64 d1 = fadd(fmul(a[0], b[1]), fmul(a[1], b[0]));
    u64 d2 = fadd(fadd(fmul(a[0], b[2]), fmul(a[1], b[1])), fmul(a[2], b[0]));
    u64 d3 = fadd(fmul(a[1], b[2]), fmul(a[2], b[1]));
    u64 d4 = fmul(a[2], b[2]);
    c[0] = fadd(d0, d3);           // x^3 -> 1
    c[1] = fadd(fadd(d1, d3), d4); // x^3 -> x, x^4 -> x
    c[2] = fadd(d2, d4);           // x^4 -> x^2
}
// scalar operation of the family on operands of kind ka / kb -> result of kind rk (canonical values)
inline void oracle(const Spec &s, const u64 a[3], const u64 b[3], u64 c[3])
{
    int ka = s.a.kind, kb = s.b.kind;
    c[0] = c[1] = c[2] = 0;
    switch (s.family)
    {
    case F_COPY:
        for (int i = 0; i < ka; i++) c[i] = a[i] % P;
        break;
    case F_ADD:
        if (ka == 3 && kb == 3) { for (int i = 0; i < 3; i++) c[i] = fadd(a[i], b[i]); }
        else if (ka == 1 && kb == 3) { c[0] = fadd(a[0], b[0]); c[1] = b[1] % P; c[2] = b[2] % P; }
        else if (ka == 3 && kb == 1) { c[0] = fadd(a[0], b[0]); c[1] = a[1] % P; c[2] = a[2] % P; }
        else c[0] = fadd(a[0], b[0]);
        break;
    case F_SUB:
        if (ka == 3 && kb == 3) { for (int i = 0; i < 3; i++) c[i] = fsub(a[i], b[i]); }
        else if (ka == 1 && kb == 3) { c[0] = fsub(a[0], b[0]); c[1] = fneg(b[1]); c[2] = fneg(b[2]); }
        else if (ka == 3 && kb == 1) { c[0] = fsub(a[0], b[0]); c[1] = a[1] % P; c[2] = a[2] % P; }
        else c[0] = fsub(a[0], b[0]);
        break;
    case F_MUL:
        if (ka == 3 && kb == 3) mul33(a, b, c);
        else if (ka == 1 && kb == 3) { for (int i = 0; i < 3; i++) c[i] = fmul(a[0], b[i]); }
        else if (ka == 3 && kb == 1) { for (int i = 0; i < 3; i++) c[i] = fmul(a[i], b[0]); }
        else c[0] = fmul(a[0], b[0]);
        break;
    }
}

// ---------------------------------------------------------------- cases
struct Case
{
    int si;
    u64 s[3];  // scalar stride per slot (when the carrier is arr_stride)
    int ip[3]; // index pattern per slot (when the carrier is arr_idx)
    int vp;    // 0 = tag pass, 1..11 = boundary rotation r = vp-1
    int vd;    // extra rotation of operand b against operand a
    int vm;    // step of the rotation between neighbouring positions (1..10; 11 is prime, so every step is a permutation)
    int al;    // Alias form: AL_NONE, AL_CA (result object IS operand a), AL_CB, AL_AB (a and b one object), AL_CAB
    int se;    // structured elements: 0 = off; else 1 + pat + 9*sel + 27*lane0: a whole cubic element (1,0,0), 0, (p+1,p,0), (0,1,0), (0,0,1),
               // -1, (x,0,0), (1,1,1), (p,p,p) in operand a / b / both (sel), in every lane or in lane 0 only
    int cv;    // constant sweep: 0 = off; 1..192 = the broadcast / constant operand takes the value 2^k - 1, 2^k, 2^k + 1 (k = (cv-1)/3)
    int bo;    // alias form a:b only: operand b starts `bo` elements after operand a inside the one object (0 = same base pointer)
    int pl;    // placement: 0 = the default address of every array; 1..4 = every array starts at an address = 8*(pl-1) modulo 32
    int reent; // re-entrancy step: number of threads that execute the case concurrently on private data (0 = ordinary case)
};
inline bool is_huge(const Case &c);
static const char *const ALN[NAL] = {"-", "c:a", "c:b", "a:b", "c:a:b"};
// slot q lives in the object of slot root(q)
inline int root_of(int al, int q)
{
    if (q == 1) return (al == AL_CA || al == AL_CAB) ? 0 : 1;
    if (q == 2) return (al == AL_CB || al == AL_CAB) ? 0 : al == AL_AB ? 1 : 2;
    return 0;
}
inline const Operand &opnd(const Spec &s, int slot) { return slot == 0 ? s.r : slot == 1 ? s.a : s.b; }
inline bool has_mem(const Operand &o) { return o.carrier == C_ARR_UNIT || o.carrier == C_ARR_STRIDE || o.carrier == C_ARR_IDX || o.carrier == C_CONST_PTR; }

inline std::string casestr(const Case &c)
{
    const Spec &s = ovl_specs[c.si];
    std::string t = fmt("ovl=%s isa=%s", s.id, ovl_isa);
    static const char *sn[3] = {"r", "a", "b"};
    for (int q = 0; q < 3; q++)
    {
        const Operand &o = opnd(s, q);
        if (o.carrier == C_ARR_STRIDE) t += fmt(" s%s=%llu", sn[q], (unsigned long long)c.s[q]);
        if (o.carrier == C_ARR_IDX) t += fmt(" i%s=%s", sn[q], ipname(c.ip[q]).c_str());
    }
    t += fmt(" vp=%d vd=%d vm=%d", c.vp, c.vd, c.vm);
    if (c.al) t += fmt(" alias=%s", ALN[c.al]);
    if (c.reent) t += fmt(" reent=%d", c.reent);
    if (c.pl) t += fmt(" pl=%d", c.pl);
    if (c.bo) t += fmt(" bo=%d", c.bo);
    if (c.cv) t += fmt(" cv=%d", c.cv);
    if (c.se) t += fmt(" se=%d", c.se);
    return t;
}
inline std::string ipname(int pat) { return pat < NIP ? std::string(IPN[pat]) : fmt("g%d", pat - NIP); }
inline int find_spec(const std::string &id)
{
    for (int i = 0; i < ovl_nspecs; i++)
        if (id == ovl_specs[i].id) return i;
    return -1;
}
inline bool parse_casestr(const std::string &str, Case &c)
{
    auto m = parse_case(str);
    c.si = find_spec(cs(m, "ovl"));
    if (c.si < 0) return false;
    static const char *sk[3] = {"sr", "sa", "sb"}, *ik[3] = {"ir", "ia", "ib"};
    for (int q = 0; q < 3; q++)
    {
        c.s[q] = cu(m, sk[q], 0);
        c.ip[q] = 0;
        std::string p = cs(m, ik[q], "ident");
        for (int j = 0; j < NIP; j++)
            if (p == IPN[j]) c.ip[q] = j;
        if (p.size() > 1 && p[0] == 'g' && isdigit((unsigned char)p[1])) c.ip[q] = NIP + atoi(p.c_str() + 1);
    }
    c.vp = (int)cu(m, "vp", 0);
    c.vd = (int)cu(m, "vd", 0);
    c.vm = (int)cu(m, "vm", 1);
    if (c.vm < 1 || c.vm >= NBV) c.vm = 1;
    c.reent = (int)cu(m, "reent", 0);
    c.pl = (int)cu(m, "pl", 0);
    c.bo = (int)cu(m, "bo", 0);
    c.cv = (int)cu(m, "cv", 0);
    c.se = (int)cu(m, "se", 0);
    c.al = AL_NONE;
    std::string al = cs(m, "alias", "-");
    for (int j = 1; j < NAL; j++)
        if (al == ALN[j]) c.al = j;
    if (c.al && !(ovl_specs[c.si].alias & (1 << (c.al - 1)))) return false; // not expressible for this overload
    return true;
}

inline bool is_huge(const Case &c)
{
    const Spec &s = ovl_specs[c.si];
    for (int q = 0; q < 3; q++)
        if (opnd(s, q).carrier == C_ARR_STRIDE && c.s[q] >= HUGE_FROM) return true;
    return false;
}
inline bool is_gapword(const Case &c) { return c.ip[0] >= NIP || c.ip[1] >= NIP || c.ip[2] >= NIP; }
inline std::string sig_suffix(const Case &c) { return std::string(c.al ? ".alias" : "") + (is_huge(c) ? ".hugestride" : "") + (is_gapword(c) ? ".idxshape" : "") + (c.pl ? ".placed" : "") + (c.bo ? ".adjacent" : "") + (c.cv ? ".constsweep" : "") + (c.se ? ".unitelement" : ""); }

// ---------------------------------------------------------------- one case
struct Counters
{
    long long cases = 0, evals = 0, nontriv = 0, viol = 0;
    std::unordered_set<u64> outcomes;
};

struct Slot
{
    u64 *base = 0;     // array / const_ptr memory
    size_t len = 0;    // elements addressable
    u64 *alloc = 0;    // exact mode: malloc block
    size_t allocwords = 0;
    u64 *idx = 0;      // index array (lanes entries)
    u64 idxcopy[MAXL];
    std::vector<u64> copy; // input snapshot (concatenation of the ranges)
    // positions that exist: dense slot = one range [0,len); sparse slot (huge stride) = the pages that hold designated
    // elements inside a PROT_NONE reservation of the whole span -- everything else faults on any access
    std::vector<std::pair<size_t, size_t>> rng;
    char *map = 0;
    size_t maplen = 0;
    bool sparse = false;
    std::vector<u64> snapshot() const
    {
        std::vector<u64> v;
        for (auto &r : rng) v.insert(v.end(), base + r.first, base + r.second);
        return v;
    }
};

static u64 g_shidx[3][MAXL]; // index / stride tables shared by the concurrent callers of the re-entrancy step
static bool g_shared_idx = false;
static u64 *g_big[3]; // plain mode arenas (mmap, guard pages on both sides)
static u64 *g_aux;

inline void plain_arenas()
{
    if (g_big[0]) return;
    size_t pg = 4096, bytes = ((BIGN * 8 + pg - 1) / pg) * pg;
    for (int q = 0; q < 3; q++)
    {
        char *m = (char *)mmap(0, bytes + 2 * pg, PROT_READ | PROT_WRITE, MAP_PRIVATE | MAP_ANONYMOUS, -1, 0);
        if (m == MAP_FAILED) { perror("mmap"); exit(3); }
        mprotect(m, pg, PROT_NONE);
        mprotect(m + pg + bytes, pg, PROT_NONE);
        g_big[q] = (u64 *)(m + pg + bytes); // END of the arena (guard page starts here)
    }
}

inline u64 pos_of(const Operand &o, const Case &c, int q, int k, int i, const u64 *idx)
{
    switch (o.carrier)
    {
    case C_ARR_UNIT: return (u64)k * o.kind + i;
    case C_ARR_STRIDE: return (u64)k * c.s[q] + i;
    case C_ARR_IDX: return idx[k] + i;
    default: return (u64)i; // const_ptr
    }
}

// returns "" if the case passes, else "<kind>\t<detail>"
inline std::string run_case(const Case &c, Counters *cnt, std::string *sample = 0)
{
    const Spec &s = ovl_specs[c.si];
    const int L = s.lanes, rk = s.r.kind;
    CallArgs A;
    memset(&A, 0, sizeof A);
    Slot sl[3];
    u64 idxbuf[3][MAXL];
    if (!OVL_PRIVATE) plain_arenas();

    // ---- geometry
    for (int q = 0; q < 3; q++)
    {
        const Operand &o = opnd(s, q);
        if (o.carrier == C_ARR_IDX)
        {
            for (int k = 0; k < L; k++) idxbuf[q][k] = idxval(c.ip[q], k, L, o.kind);
            if (g_shared_idx)
                sl[q].idx = g_shidx[q]; // re-entrancy step: the index / stride tables are inputs, all concurrent callers share one copy
            else if (OVL_PRIVATE)
            {
                sl[q].idx = (u64 *)malloc(L * sizeof(u64));
                memcpy(sl[q].idx, idxbuf[q], L * sizeof(u64));
            }
            else sl[q].idx = idxbuf[q];
            memcpy(sl[q].idxcopy, idxbuf[q], L * sizeof(u64));
            A.idx[q] = sl[q].idx;
        }
        A.stride[q] = c.s[q];
    }
    int root[3];
    for (int q = 0; q < 3; q++) A.root[q] = root[q] = root_of(c.al, q);
    u64 extq[3] = {0, 0, 0}, extmax = 0;
    for (int q = 0; q < 3; q++)
    {
        const Operand &o = opnd(s, q);
        if (!has_mem(o)) continue;
        int nk = o.carrier == C_CONST_PTR ? 1 : L;
        for (int k = 0; k < nk; k++)
            for (int i = 0; i < o.kind; i++) extq[q] = std::max(extq[q], pos_of(o, c, q, k, i, idxbuf[q]) + 1);
        if (extq[q] <= BIGN) extmax = std::max(extmax, extq[q]);
    }
    // slots that are one object: the object is as long as the longest extent any of them designates (the index lists of two
    // INPUT slots that share an object may differ, see alias_configs)
    const u64 bshift = (c.al == AL_AB && c.bo > 0) ? (u64)c.bo : 0; // b's base pointer = a's base pointer + bshift
    for (int q = 1; q < 3; q++)
        if (root[q] != q && has_mem(opnd(s, q)) && has_mem(opnd(s, root[q])))
        {
            u64 m = std::max(extq[q] + (q == 2 ? bshift : 0), extq[root[q]]);
            extq[q] = extq[root[q]] = m;
        }
    for (int q = 0; q < 3; q++)
    {
        const Operand &o = opnd(s, q);
        if (!has_mem(o)) continue;
        if (root[q] != q)
        {
            // alias form: the same array object; the enumeration guarantees that both designate exactly the same positions
            if (extq[q] != extq[root[q]]) return "framework\talias form with different extents";
            sl[q].len = sl[root[q]].len - (q == 2 ? bshift : 0);
            sl[q].base = sl[root[q]].base + (q == 2 ? bshift : 0);
            sl[q].rng = sl[root[q]].rng;
            A.ptr[q] = sl[q].base;
            continue;
        }
        if (extq[q] > BIGN)
        {
            // huge stride: reserve the whole span without access rights, open only the pages that hold designated elements
            if (OVL_PRIVATE || root_of(c.al, 1) != 1 || root_of(c.al, 2) != 2) return "framework\thuge strides only in the plain build without aliasing";
            const size_t pg = 4096, per = pg / sizeof(u64);
            size_t bytes = ((extq[q] * sizeof(u64) + pg - 1) / pg) * pg;
            char *m = (char *)mmap(0, bytes, PROT_NONE, MAP_PRIVATE | MAP_ANONYMOUS | MAP_NORESERVE, -1, 0);
            if (m == MAP_FAILED) return "uncovered\t" + fmt("mmap(PROT_NONE, MAP_NORESERVE) of %zu bytes failed: %s", bytes, strerror(errno));
            sl[q].map = m;
            sl[q].maplen = bytes;
            sl[q].sparse = true;
            sl[q].base = (u64 *)m;
            sl[q].len = bytes / sizeof(u64);
            std::set<size_t> pages;
            for (int k = 0; k < L; k++)
                for (int i = 0; i < o.kind; i++) pages.insert(pos_of(o, c, q, k, i, idxbuf[q]) / per);
            for (size_t pgi : pages)
            {
                if (mprotect(m + pgi * pg, pg, PROT_READ | PROT_WRITE) != 0) return "uncovered\t" + fmt("mprotect failed: %s", strerror(errno));
                sl[q].rng.push_back({pgi * per, (pgi + 1) * per});
            }
            A.ptr[q] = sl[q].base;
            continue;
        }
        if (OVL_PRIVATE)
        {
            sl[q].len = extq[q];
            const size_t slack = c.pl >= 5 ? 516 : 4; // words the block is longer than the extent (placement room)
            sl[q].alloc = (u64 *)malloc((extq[q] + slack) * sizeof(u64));
            sl[q].allocwords = extq[q] + slack;
            sl[q].base = sl[q].alloc;
            if (c.pl >= 1 && c.pl <= 4) while ((((uintptr_t)sl[q].base) >> 3) % 4 != (uintptr_t)(c.pl - 1)) sl[q].base++;
            if (c.pl >= 5) while ((((uintptr_t)sl[q].base) & 4095) != (uintptr_t)(4096 - 8 * (c.pl - 4))) sl[q].base++; // 8, 16, 24 bytes before a page boundary
        }
        else
        {
            size_t len = std::max<size_t>(extmax, 3 * L) + MARGIN;
            if ((len & 3) == 0) len++; // never vector aligned
            if (len > BIGN) return "framework\tconfiguration exceeds the arena";
            sl[q].len = len;
            sl[q].base = g_big[q] - len;
            if (c.pl >= 1 && c.pl <= 4) while ((((uintptr_t)sl[q].base) >> 3) % 4 != (uintptr_t)(c.pl - 1)) sl[q].base--; // up to three sentinel words of slack before the guard page
            if (c.pl >= 5) while ((((uintptr_t)sl[q].base) & 4095) != (uintptr_t)(4096 - 8 * (c.pl - 4))) sl[q].base--; // 8, 16, 24 bytes before a page boundary (up to 511 words of slack)
        }
        sl[q].rng.push_back({0, sl[q].len});
        A.ptr[q] = sl[q].base;
    }
    // ---- fill.  Objects first (an object shared with the result starts as sentinels, an input object carries a tag in
    // every position), then the operand values are written through the slots (a, then b), then the operand values are
    // READ BACK: this snapshot, taken before the call, is what the oracle uses -- also when the result object is an operand.
    auto passval = [&](int q, int k, int i) -> u64 {
        int j = (q == 2 ? 3 * MAXL : 0) + k * 3 + i;
        return BV[(j * c.vm + (c.vp - 1) + (q == 2 ? c.vd : 0)) % NBV];
    };
    const Operand &ro = s.r;
    auto regsent = [&](int i, int k) { return sentv(9000 + i * MAXL + k); };
    if (has_mem(ro))
    {
        for (auto &r : sl[0].rng)
            for (size_t p = r.first; p < r.second; p++) sl[0].base[p] = sentv(p);
    }
    else
        for (int i = 0; i < 3; i++)
            for (int k = 0; k < MAXL; k++) A.reg[0][i][k] = regsent(i, k);
    for (int q = 1; q < 3; q++)
    {
        const Operand &o = opnd(s, q);
        if (root[q] != q) continue;
        if (has_mem(o))
        {
            for (auto &r : sl[q].rng)
                for (size_t p = r.first; p < r.second; p++) sl[q].base[p] = tagv(q, p);
        }
        else if (o.carrier == C_REG)
            for (int i = 0; i < 3; i++)
                for (int k = 0; k < MAXL; k++) A.reg[q][i][k] = tagv(q, 8000 + k * 3 + i);
    }
    // storage cell of element (k, i) of slot q
    auto cell = [&](int q, int k, int i) -> u64 * {
        const Operand &o = opnd(s, q);
        if (has_mem(o)) return &sl[q].base[pos_of(o, c, q, o.carrier == C_CONST_PTR ? 0 : k, i, idxbuf[q])];
        if (o.carrier == C_CONST_VAL) return &A.cval[q][i];
        return &A.reg[root[q]][i][k]; // C_REG / C_REGC
    };
    u64 val[3][MAXL][3];
    memset(val, 0, sizeof val);
    for (int q = 1; q < 3; q++)
    {
        const Operand &o = opnd(s, q);
        if (o.carrier == C_NONE) continue;
        bool lanewise = o.carrier == C_ARR_UNIT || o.carrier == C_ARR_STRIDE || o.carrier == C_ARR_IDX || o.carrier == C_REG;
        if (lanewise)
        {
            for (int k = 0; k < L; k++)
                for (int i = 0; i < o.kind; i++)
                {
                    if (c.vp > 0) *cell(q, k, i) = passval(q, k, i);
                    else if (root[q] == 0) *cell(q, k, i) = tagv(q, 6000 + k * 3 + i); // shared with the result: replace the sentinel by a tag
                }
        }
        else // one constant for all lanes: const_ptr, const_val, regc
        {
            for (int i = 0; i < o.kind; i++)
            {
                u64 v = c.vp > 0 ? passval(q, 0, i) : tagv(q, 7000 + i);
                if (c.cv) { int k = (c.cv - 1) / 3, d = (c.cv - 1) % 3; v = (1ULL << k) + (u64)d - 1; if (i) v = (v * 0x9E3779B97F4A7C15ULL) | (1ULL << k); } // coefficient 0 sweeps, the others stay generic
                if (o.carrier == C_REGC)
                    for (int k = 0; k < MAXL; k++) A.reg[q][i][k] = v;
                else *cell(q, 0, i) = v;
            }
        }
    }
    if (c.se)
    {
        static const u64 SE[9][3] = {{1, 0, 0}, {0, 0, 0}, {P + 1, P, 0}, {0, 1, 0}, {0, 0, 1}, {P - 1, 0, 0}, {0x123456789ABCDEFULL, 0, 0}, {1, 1, 1}, {P, P, P}};
        int pat = (c.se - 1) % 9, sel = ((c.se - 1) / 9) % 3, l0 = (c.se - 1) / 27;
        for (int q = 1; q < 3; q++)
        {
            const Operand &o = opnd(s, q);
            if (o.carrier == C_NONE || !(sel == 2 || sel == q - 1)) continue;
            bool lanewise = o.carrier == C_ARR_UNIT || o.carrier == C_ARR_STRIDE || o.carrier == C_ARR_IDX || o.carrier == C_REG;
            for (int k = 0; k < (lanewise ? (l0 ? 1 : L) : (o.carrier == C_REGC ? MAXL : 1)); k++)
                for (int i = 0; i < o.kind; i++)
                {
                    if (o.carrier == C_REGC) A.reg[q][i][k] = SE[pat][i];
                    else *cell(q, k, i) = SE[pat][i];
                }
        }
    }
    for (int q = 1; q < 3; q++)
    {
        const Operand &o = opnd(s, q);
        if (o.carrier == C_NONE) continue;
        for (int k = 0; k < L; k++)
            for (int i = 0; i < o.kind; i++) val[q][k][i] = *cell(q, k, i);
        if (has_mem(o) && root[q] == q) sl[q].copy = sl[q].snapshot();
    }
    // ---- precomputed sums (b0+b1, b0+b2, b1+b2), taken from the values b actually holds
    u64 auxbuf[3];
    u64 *auxalloc = 0;
    if (s.aux != AUX_NONE)
    {
        for (int k = 0; k < (s.aux == AUX_PTR ? 1 : L); k++)
        {
            u64 t[3] = {fadd(val[2][k][0], val[2][k][1]), fadd(val[2][k][0], val[2][k][2]), fadd(val[2][k][1], val[2][k][2])};
            for (int i = 0; i < 3; i++)
            {
                if ((c.vp & 1) == 0 && c.vp > 0 && t[i] < 0xFFFFFFFFULL) t[i] += P; // a non-canonical representation of the same sum
                if (s.aux == AUX_PTR) auxbuf[i] = t[i];
                else A.auxreg[i][k] = t[i];
            }
        }
        if (s.aux == AUX_PTR)
        {
            if (OVL_PRIVATE) { auxalloc = (u64 *)malloc(3 * sizeof(u64)); memcpy(auxalloc, auxbuf, sizeof auxbuf); A.auxptr = auxalloc; }
            else A.auxptr = auxbuf;
        }
    }
    // result registers that are an operand object at the same time start with the operand values (written above);
    // a snapshot of what the result object held before the call tells "never written" apart from "written"
    CallArgs before = A;
    std::vector<u64> rbefore;
    if (has_mem(ro) && !sl[0].sparse) rbefore.assign(sl[0].base, sl[0].base + sl[0].len);

#if OVL_EXACT
    // exact access sets: every element of an array that the strides / indices do not designate is poisoned
    // (elements are 8-byte granules), so reading or writing it faults inside the library
    for (int q = 0; q < 3; q++)
    {
        const Operand &o = opnd(s, q);
        if (!has_mem(o) || root[q] != q) continue;
        ASAN_POISON_MEMORY_REGION(sl[q].base, sl[q].len * sizeof(u64));
        if (sl[q].alloc) ASAN_POISON_MEMORY_REGION(sl[q].alloc, sl[q].allocwords * sizeof(u64)); // the placement slack as well
    }
    for (int q = 0; q < 3; q++) // designated positions of every slot (slots that share an object may designate different ones)
    {
        const Operand &o = opnd(s, q);
        if (!has_mem(o)) continue;
        int nk = o.carrier == C_CONST_PTR ? 1 : L;
        for (int k = 0; k < nk; k++)
            for (int i = 0; i < o.kind; i++) ASAN_UNPOISON_MEMORY_REGION(sl[q].base + pos_of(o, c, q, k, i, idxbuf[q]), sizeof(u64));
    }
#endif

    // ---- the call
    s.call(A);

#if OVL_EXACT
    for (int q = 0; q < 3; q++)
        if (has_mem(opnd(s, q))) { ASAN_UNPOISON_MEMORY_REGION(sl[q].base, sl[q].len * sizeof(u64)); if (sl[q].alloc && root[q] == q) ASAN_UNPOISON_MEMORY_REGION(sl[q].alloc, sl[q].allocwords * sizeof(u64)); }
#endif

    // ---- judge
    std::string fail;
    auto opstr = [&](int k) {
        std::string t = "a=(";
        for (int i = 0; i < s.a.kind; i++) t += (i ? "," : "") + hex(val[1][k][i]);
        t += ")";
        if (s.b.kind)
        {
            t += " b=(";
            for (int i = 0; i < s.b.kind; i++) t += (i ? "," : "") + hex(val[2][k][i]);
            t += ")";
        }
        return t;
    };
    std::vector<char> desig;        // dense result object
    std::set<u64> desigs;           // sparse result object
    if (has_mem(ro) && !sl[0].sparse) desig.assign(sl[0].len, 0);
    u64 got0[MAXL][3];
    for (int k = 0; k < L && fail.empty(); k++)
    {
        u64 ex[3];
        oracle(s, val[1][k], val[2][k], ex);
        for (int i = 0; i < rk; i++)
        {
            u64 got, p = 0;
            if (has_mem(ro))
            {
                p = pos_of(ro, c, 0, k, i, idxbuf[0]);
                if (sl[0].sparse) desigs.insert(p);
                else desig[p] = 1;
                got = sl[0].base[p];
            }
            else got = A.reg[0][i][k];
            got0[k][i] = got;
            if (cnt) { cnt->evals++; cnt->outcomes.insert(got % P); }
            if (got % P != ex[i] && fail.empty())
            {
                bool untouched = has_mem(ro) ? got == (sl[0].sparse ? sentv(p) : rbefore[p]) : got == before.reg[0][i][k];
                fail = "wrong\t" + fmt("lane %d coefficient %d", k, i) + (has_mem(ro) ? fmt(" (result position %llu)", (unsigned long long)p) : std::string(" (result register)")) +
                       ": got " + hex(got) + (untouched ? " (unchanged: never written)" : "") + " = " + hex(got % P) + " mod p, scalar operation gives " + hex(ex[i]) + "; " + opstr(k);
            }
        }
    }
    if (fail.empty() && has_mem(ro))
        for (auto &r : sl[0].rng)
            for (size_t p = r.first; p < r.second && fail.empty(); p++)
                if (!(sl[0].sparse ? desigs.count(p) != 0 : desig[p] != 0) && sl[0].base[p] != sentv(p))
                    fail = "write-outside\t" + fmt("result position %llu is not designated by the strides/indices but was overwritten with ", (unsigned long long)p) + hex(sl[0].base[p]);
    if (fail.empty() && !has_mem(ro))
        for (int i = 0; i < 3 && fail.empty(); i++)
            for (int k = 0; k < MAXL; k++)
                if ((i >= rk) && A.reg[0][i][k] != before.reg[0][i][k]) { fail = "write-outside\tresult register beyond the result kind was written"; break; }
    for (int q = 1; q < 3 && fail.empty(); q++)
    {
        const Operand &o = opnd(s, q);
        if (root[q] != q) continue; // the object is the result object (or operand a, which is checked as slot 1)
        if (has_mem(o) && sl[q].snapshot() != sl[q].copy)
        {
            size_t t = 0;
            for (auto &r : sl[q].rng)
                for (size_t p = r.first; p < r.second && fail.empty(); p++, t++)
                    if (sl[q].base[p] != sl[q].copy[t])
                        fail = "input-modified\t" + fmt("operand %c position %llu changed from ", q == 1 ? 'a' : 'b', (unsigned long long)p) + hex(sl[q].copy[t]) + " to " + hex(sl[q].base[p]);
        }
        else if ((o.carrier == C_REG || o.carrier == C_REGC) && memcmp(A.reg[q], before.reg[q], sizeof A.reg[q]) != 0)
            fail = std::string("input-modified\tregister operand ") + (q == 1 ? "a" : "b") + " changed";
        else if (o.carrier == C_CONST_VAL && memcmp(A.cval[q], before.cval[q], sizeof A.cval[q]) != 0)
            fail = std::string("input-modified\tconstant operand ") + (q == 1 ? "a" : "b") + " changed";
    }
    for (int q = 0; q < 3 && fail.empty(); q++)
        if (sl[q].idx && memcmp(sl[q].idx, sl[q].idxcopy, L * sizeof(u64)) != 0) fail = fmt("input-modified\tindex array of slot %d changed", q);
    if (fail.empty() && s.aux == AUX_PTR && memcmp(A.auxptr, auxbuf, sizeof auxbuf) != 0) fail = "input-modified\tprecomputed sums changed";

    if (sample && fail.empty())
    {
        std::string t = fmt("\"overload\":\"%s\",\"file\":\"%s\",\"line\":%d,\"case\":\"%s\",\"lane0\":\"%s\",\"result_lane0\":\"", s.id, s.file, s.line, casestr(c).c_str(), opstr(0).c_str());
        for (int i = 0; i < rk; i++) t += (i ? "," : "") + hex(got0[0][i]);
        *sample = t + "\"";
    }
    if (cnt)
    {
        cnt->cases++;
        bool nt = c.vp > 0 || c.al != AL_NONE;
        for (int q = 0; q < 3; q++)
        {
            const Operand &o = opnd(s, q);
            if (o.carrier == C_ARR_STRIDE && c.s[q] != (u64)o.kind) nt = true;
            if (o.carrier == C_ARR_IDX && c.ip[q] != IP_IDENT) nt = true;
        }
        if (nt) cnt->nontriv++;
    }
    for (int q = 0; q < 3; q++)
    {
        if (sl[q].alloc) free(sl[q].alloc);
        if (sl[q].map && root[q] == q) munmap(sl[q].map, sl[q].maplen);
        if (OVL_PRIVATE && sl[q].idx && !g_shared_idx) free(sl[q].idx);
    }
    if (auxalloc) free(auxalloc);
    return fail;
}

// ---------------------------------------------------------------- enumeration of one overload
inline std::vector<std::vector<std::pair<u64, int>>> axes(const Spec &s)
{
    std::vector<std::vector<std::pair<u64, int>>> ax(3);
    for (int q = 0; q < 3; q++)
    {
        const Operand &o = opnd(s, q);
        if (o.carrier == C_ARR_STRIDE)
        {
            const u64 *sv = g_thorough ? STRIDES_T : STRIDES_Q;
            size_t nsv = g_thorough ? sizeof STRIDES_T / sizeof(u64) : sizeof STRIDES_Q / sizeof(u64);
            for (size_t t = 0; t < nsv; t++)
            {
                u64 v = sv[t];
                // result lanes must not collide: stride 0 always collides, stride < kind overlaps neighbouring elements
                if (q == 0 && v < (u64)o.kind) continue;
                ax[q].push_back({v, 0});
            }
        }
        else if (o.carrier == C_ARR_IDX)
        {
            for (int p = 0; p < NIP; p++)
            {
                if (q == 0 && (p == IP_EQ || p == IP_REP)) continue;
                ax[q].push_back({0, p});
            }
        }
        else ax[q].push_back({0, 0});
    }
    return ax;
}

static char *g_cur; // shared page: the case being executed (read by the parent after a crash)

// configurations of an alias form: the slots that share one object get ONE geometry (same stride / same index pattern; unit
// stride and identity indices when a unit-stride array is among them), so that position k of one is position k of the other;
// the remaining slot and the values use a reduced set in the quick tier (unit + one non-unit stride, identity + scattered)
typedef std::vector<std::pair<u64, int>> Axis;
inline Axis reduced_axis(const Operand &o, bool is_result, bool thorough)
{
    Axis ax;
    if (o.carrier == C_ARR_STRIDE)
    {
        if (thorough) { for (u64 v : STRIDES_T) if (!(is_result && v < (u64)o.kind)) ax.push_back({v, 0}); }
        else { ax.push_back({(u64)o.kind, 0}); ax.push_back({5, 0}); }
    }
    else if (o.carrier == C_ARR_IDX)
    {
        for (int p = 0; p < NIP; p++)
        {
            if (is_result && (p == IP_EQ || p == IP_REP)) continue;
            if (!thorough && p != IP_IDENT && p != IP_SCAT) continue;
            ax.push_back({0, p});
        }
    }
    else ax.push_back({0, 0});
    return ax;
}
inline std::vector<std::array<std::pair<u64, int>, 3>> alias_configs(const Spec &s, int al, bool thorough)
{
    bool in[3];
    int r0 = al == AL_AB ? 1 : 0;
    for (int q = 0; q < 3; q++) in[q] = root_of(al, q) == r0; // the slots that are one object
    bool unit = false, str = false, idx = false, mem = false, res = in[0];
    int kind = 0;
    for (int q = 0; q < 3; q++)
        if (in[q])
        {
            const Operand &o = opnd(s, q);
            kind = o.kind;
            if (o.carrier == C_ARR_UNIT) unit = mem = true;
            if (o.carrier == C_ARR_STRIDE) str = mem = true;
            if (o.carrier == C_ARR_IDX) idx = mem = true;
        }
    Axis shared;
    if (!mem) shared.push_back({0, 0});
    else if (unit || (str && idx)) shared.push_back({(u64)kind, IP_IDENT});
    else
    {
        Operand probe = {kind, str ? C_ARR_STRIDE : C_ARR_IDX};
        shared = reduced_axis(probe, res, thorough);
    }
    Axis fr[3];
    for (int q = 0; q < 3; q++)
        if (!in[q]) fr[q] = reduced_axis(opnd(s, q), q == 0, thorough);
        else fr[q].push_back({0, 0});
    std::vector<std::array<std::pair<u64, int>, 3>> out;
    for (auto &g : shared)
        for (auto &x0 : fr[0])
            for (auto &x1 : fr[1])
                for (auto &x2 : fr[2])
                {
                    std::array<std::pair<u64, int>, 3> cfg = {x0, x1, x2};
                    for (int q = 0; q < 3; q++)
                        if (in[q]) cfg[q] = g;
                    out.push_back(cfg);
                }
    // two INPUT operands in one object need not designate the same positions: when both are index-array carriers, every ordered
    // pair of index lists from the single-deviation gap words (all gaps consecutive but one; same first entry, later entries
    // differ) is run as well -- a shortcut that recognises "a and b are the same operand" must compare the whole lists
    if (al == AL_AB && opnd(s, 1).carrier == C_ARR_IDX && opnd(s, 2).carrier == C_ARR_IDX)
    {
        std::vector<int> words = {NIP + 0};
        int L = s.lanes, pw3 = 1;
        for (int t = 1; t < L; t++) { words.push_back(NIP + 1 * pw3); words.push_back(NIP + 2 * pw3); pw3 *= 3; }
        for (auto &x0 : fr[0])
            for (int pa : words)
                for (int pb : words)
                {
                    if (pa == pb) continue;
                    std::array<std::pair<u64, int>, 3> cfg = {x0, std::pair<u64, int>{0, pa}, std::pair<u64, int>{0, pb}};
                    out.push_back(cfg);
                }
    }
    // two INPUT arrays may also be neighbouring parts of one object: b's base pointer 1, 2 or 3 elements after a's, every pair of
    // strides from {unit, 3, 5} / index lists from {identity, scattered} -- a shortcut keyed on "b is next to a" must check the
    // strides as well
    if (al == AL_AB)
    {
        const Operand &oa = opnd(s, 1), &ob = opnd(s, 2);
        auto geos = [&](const Operand &o) {
            Axis g;
            if (o.carrier == C_ARR_STRIDE) { g.push_back({(u64)o.kind, 0}); g.push_back({3, 0}); g.push_back({5, 0}); }
            else if (o.carrier == C_ARR_IDX) { g.push_back({0, IP_IDENT}); g.push_back({0, IP_SCAT}); }
            else if (o.carrier == C_ARR_UNIT) g.push_back({0, 0});
            return g;
        };
        Axis ga = geos(oa), gb = geos(ob);
        if (!ga.empty() && !gb.empty() && oa.kind == ob.kind)
            for (int bo = 1; bo <= 3; bo++)
                for (auto &x0 : fr[0])
                    for (auto &xa : ga)
                        for (auto &xb : gb)
                        {
                            if (xa.first < (u64)oa.kind && oa.carrier == C_ARR_STRIDE) continue;
                            std::array<std::pair<u64, int>, 3> cfg = {x0, xa, std::pair<u64, int>{xb.first, xb.second | (bo << 16)}};
                            out.push_back(cfg);
                        }
    }
    return out;
}

inline void run_overload(int si, bool thorough, const char *prop)
{
    const Spec &s = ovl_specs[si];
    Counters cnt;
    long long alias_cases = 0;
    int nsample = 0;
    for (int al = 0; al < NAL; al++)
    {
        if (al && !(s.alias & (1 << (al - 1)))) continue;
        std::vector<std::array<std::pair<u64, int>, 3>> cfgs;
        if (al == AL_NONE)
        {
            auto ax = axes(s);
            for (auto &r : ax[0])
                for (auto &a : ax[1])
                    for (auto &b : ax[2]) cfgs.push_back({r, a, b});
        }
        else cfgs = alias_configs(s, al, thorough);
        // value passes: tags once; boundary values BV[(j*vm + r + vd) % 11] at flat position j:
        //   quick    vm = 1, every rotation r and every relative rotation vd of b against a (121 passes)
        //   thorough every step vm = 1..10 as well (1210 passes): all arithmetic-progression triples of coefficients
        //   alias forms: vm = 1; quick vd in {0,5} (22 passes + tags), thorough every vd (121 passes + tags)
        int nm = (thorough && al == AL_NONE) ? NBV - 1 : 1;
        for (size_t ci = 0; ci < cfgs.size(); ci++)
            for (int vm = 1; vm <= nm; vm++)
                for (int vd = 0; vd < NBV; vd++)
                    for (int vp = ((vd == 0 && vm == 1) ? 0 : 1); vp <= NBV; vp++)
                    {
                        if (s.b.kind == 0 && vd > 0) continue;                // one operand only: no relative rotation
                        if (al && !thorough && vd != 0 && vd != 5) continue; // reduced value passes for alias forms
                        Case c;
                        memset(&c, 0, sizeof c);
                        c.si = si;
                        for (int q = 0; q < 3; q++) { c.s[q] = cfgs[ci][q].first; c.ip[q] = cfgs[ci][q].second; }
                        if (al == AL_AB && (cfgs[ci][2].second >> 16)) { c.bo = cfgs[ci][2].second >> 16; c.ip[2] &= 0xFFFF; } // base offset of b rides in the upper half of its pattern field
                        c.vp = vp;
                        c.vd = vd;
                        c.vm = vm;
                        c.al = al;
                        c.reent = 0;
                        c.pl = 0;
                        std::string cs_ = casestr(c);
                        if (g_cur) { strncpy(g_cur, cs_.c_str(), 4000); g_cur[4000] = 0; }
                        std::string smp;
                        bool want = nsample < 2 && vp == 2 && ci + 1 == cfgs.size();
                        std::string f = run_case(c, &cnt, want ? &smp : 0);
                        if (al) alias_cases++;
                        if (want && !smp.empty()) { rep().sample(std::string(al ? "alias-case" : "case"), smp, 1); nsample++; }
                        if (!f.empty())
                        {
                            size_t t = f.find('\t');
                            rep().viol(std::string(prop) + "." + f.substr(0, t) + "." + s.id + sig_suffix(c), cs_, fmt("%s(%s) %s:%d: ", s.name, s.decl, s.file, s.line) + f.substr(t + 1));
                            if (++cnt.viol >= 40) goto done;
                        }
                    }
    }
done:
    if (g_cur) g_cur[0] = 0;
    const char *pre = OVL_EXACT ? "asan_" : "";
    rep().stat(std::string(pre) + "states", cnt.cases);
    rep().stat(std::string(pre) + "transitions", cnt.cases);
    rep().stat(std::string(pre) + "evaluations", cnt.evals);
    if (!OVL_EXACT)
    {
        rep().stat("distinct_nontrivial", cnt.nontriv);
        rep().stat("distinct_outcomes", (long long)cnt.outcomes.size());
        rep().stat("alias_states", alias_cases);
    }
    rep().flush();
}

// ---------------------------------------------------------------- huge strides (plain build)
// Every overload with a scalar stride on an array carrier: strides 715827883 (3*s >= 2^31), 2^31+5, 2^32+7 -- each stride
// parameter alone (the others unit) and all together; tag pass; the array is a PROT_NONE reservation of the whole span in which
// only the pages of the designated elements exist.  A 32-bit stride parameter only gets values that fit.
inline void run_huge(int si, const char *prop)
{
    const Spec &s = ovl_specs[si];
    std::vector<int> sq;
    for (int q = 0; q < 3; q++)
        if (opnd(s, q).carrier == C_ARR_STRIDE) sq.push_back(q);
    if (sq.empty()) return;
    Counters cnt;
    long long n = 0, unc = 0;
    for (u64 h : STRIDES_HUGE)
        for (size_t pick = 0; pick <= sq.size(); pick++) // pick < size: that slot alone; pick == size: all of them
        {
            if (pick == sq.size() && sq.size() < 2) continue;
            Case c;
            memset(&c, 0, sizeof c);
            c.si = si;
            c.vm = 1;
            bool any = false;
            for (int q = 0; q < 3; q++)
            {
                const Operand &o = opnd(s, q);
                c.s[q] = o.kind;
                c.ip[q] = IP_IDENT;
                bool mine = o.carrier == C_ARR_STRIDE && (pick == sq.size() || sq[pick] == q);
                if (mine && !((s.s32 >> q) & 1 && h > 0xFFFFFFFFULL)) { c.s[q] = h; any = true; }
            }
            if (!any) continue;
            std::string cs_ = casestr(c);
            if (g_cur) { strncpy(g_cur, cs_.c_str(), 4000); g_cur[4000] = 0; }
            std::string f = run_case(c, &cnt);
            n++;
            if (f.empty()) continue;
            size_t t = f.find('\t');
            if (f.substr(0, t) == "uncovered")
            {
                if (!unc++) rep().uncovered(fmt("huge-stride pass of %s: ", s.id) + f.substr(t + 1));
                continue;
            }
            rep().viol(std::string(prop) + "." + f.substr(0, t) + "." + s.id + sig_suffix(c), cs_, fmt("%s(%s) %s:%d: ", s.name, s.decl, s.file, s.line) + f.substr(t + 1));
        }
    if (g_cur) g_cur[0] = 0;
    rep().stat("states", cnt.cases);
    rep().stat("transitions", cnt.cases);
    rep().stat("evaluations", cnt.evals);
    rep().stat("distinct_nontrivial", cnt.cases);
    rep().stat("hugestride_states", cnt.cases);
    rep().flush();
}

// ---------------------------------------------------------------- index-list shapes
// Every overload with an index-array carrier: every gap word (see gapval) over {consecutive, jump, wrap}^(L-1) -- each index
// parameter alone (the others identity) and all of them together; tag pass.  A shortcut taken for "consecutive" lists has to be
// right for every list in which only some neighbours are consecutive.
inline void run_gaps(int si, const char *prop)
{
    const Spec &s = ovl_specs[si];
    std::vector<int> iq;
    for (int q = 0; q < 3; q++)
        if (opnd(s, q).carrier == C_ARR_IDX) iq.push_back(q);
    if (iq.empty()) return;
    int L = s.lanes, nw = 1;
    for (int k = 1; k < L; k++) nw *= 3;
    Counters cnt;
    long long nv = 0;
    for (int code = 1; code < nw; code++) // code 0 is the identity list up to its base
        for (size_t pick = 0; pick <= iq.size(); pick++)
        {
            if (pick == iq.size() && iq.size() < 2) continue;
            Case c;
            memset(&c, 0, sizeof c);
            c.si = si;
            c.vm = 1;
            for (int q = 0; q < 3; q++)
            {
                const Operand &o = opnd(s, q);
                c.s[q] = o.kind;
                bool mine = o.carrier == C_ARR_IDX && (pick == iq.size() || iq[pick] == q);
                c.ip[q] = mine ? NIP + code : IP_IDENT;
            }
            std::string cs_ = casestr(c);
            if (g_cur) { strncpy(g_cur, cs_.c_str(), 4000); g_cur[4000] = 0; }
            std::string f = run_case(c, &cnt);
            if (f.empty()) continue;
            size_t t = f.find('\t');
            rep().viol(std::string(prop) + "." + f.substr(0, t) + "." + s.id + sig_suffix(c), cs_, fmt("%s(%s) %s:%d: ", s.name, s.decl, s.file, s.line) + f.substr(t + 1));
            if (++nv >= 40) goto done;
        }
    // repeat words on the input operands: every word over {consecutive, jump, wrap, repeat}^(L-1) with at least one repeat
    {
        std::vector<int> inq;
        for (int q : iq) if (q != 0) inq.push_back(q);
        int nw4 = 1;
        for (int k = 1; k < L; k++) nw4 *= 4;
        for (int code = 1; code < nw4 && !inq.empty(); code++)
        {
            bool hasrep = false;
            for (int t = code, k = 1; k < L; k++, t /= 4) hasrep |= (t % 4 == 3);
            if (!hasrep) continue;
            for (size_t pick = 0; pick <= inq.size(); pick++)
            {
                if (pick == inq.size() && inq.size() < 2) continue;
                Case c;
                memset(&c, 0, sizeof c);
                c.si = si;
                c.vm = 1;
                for (int q = 0; q < 3; q++)
                {
                    const Operand &o = opnd(s, q);
                    c.s[q] = o.kind;
                    bool mine = q != 0 && o.carrier == C_ARR_IDX && (pick == inq.size() || inq[pick] == q);
                    c.ip[q] = mine ? NIP + RW + code : IP_IDENT;
                }
                std::string cs_ = casestr(c);
                if (g_cur) { strncpy(g_cur, cs_.c_str(), 4000); g_cur[4000] = 0; }
                std::string f = run_case(c, &cnt);
                if (f.empty()) continue;
                size_t t = f.find('\t');
                rep().viol(std::string(prop) + "." + f.substr(0, t) + "." + s.id + sig_suffix(c), cs_, fmt("%s(%s) %s:%d: ", s.name, s.decl, s.file, s.line) + f.substr(t + 1));
                if (++nv >= 40) goto done;
            }
        }
    }
done:
    if (g_cur) g_cur[0] = 0;
    const char *pre = OVL_EXACT ? "asan_" : "";
    rep().stat(std::string(pre) + "states", cnt.cases);
    rep().stat(std::string(pre) + "transitions", cnt.cases);
    rep().stat(std::string(pre) + "evaluations", cnt.evals);
    if (!OVL_EXACT) rep().stat("distinct_nontrivial", cnt.cases);
    rep().stat(std::string(pre) + "idxshape_states", cnt.cases);
    rep().flush();
}

// ---------------------------------------------------------------- constant sweep
// Overloads with an operand that is ONE constant for all lanes (scalar by pointer, by value or broadcast register): the constant
// takes every 2^k - 1, 2^k, 2^k + 1 (k = 0..63) against tagged lane operands (about half of them >= 2^63) -- a strength-reduced
// path for "nice" constants has to be right for each of them.
inline void run_consts(int si, const char *prop)
{
    const Spec &s = ovl_specs[si];
    bool anyc = false;
    for (int q = 1; q < 3; q++)
    {
        int cr = opnd(s, q).carrier;
        anyc |= (cr == C_CONST_PTR || cr == C_CONST_VAL || cr == C_REGC);
    }
    if (!anyc) return;
    Counters cnt;
    long long nv = 0;
    for (int cv = 1; cv <= 192; cv++)
    {
        Case c;
        memset(&c, 0, sizeof c);
        c.si = si;
        c.vm = 1;
        c.cv = cv;
        for (int q = 0; q < 3; q++)
        {
            const Operand &o = opnd(s, q);
            c.s[q] = o.carrier == C_ARR_STRIDE ? (u64)o.kind : 0;
            c.ip[q] = IP_IDENT;
        }
        std::string cs_ = casestr(c);
        if (g_cur) { strncpy(g_cur, cs_.c_str(), 4000); g_cur[4000] = 0; }
        std::string f = run_case(c, &cnt);
        if (f.empty()) continue;
        size_t t = f.find('\t');
        rep().viol(std::string(prop) + "." + f.substr(0, t) + "." + s.id + sig_suffix(c), cs_, fmt("%s(%s) %s:%d: ", s.name, s.decl, s.file, s.line) + f.substr(t + 1));
        if (++nv >= 8) break;
    }
    if (g_cur) g_cur[0] = 0;
    const char *pre = OVL_EXACT ? "asan_" : "";
    rep().stat(std::string(pre) + "states", cnt.cases);
    rep().stat(std::string(pre) + "transitions", cnt.cases);
    rep().stat(std::string(pre) + "evaluations", cnt.evals);
    if (!OVL_EXACT) rep().stat("distinct_nontrivial", cnt.cases);
    rep().stat(std::string(pre) + "constsweep_states", cnt.cases);
    rep().flush();
}

// ---------------------------------------------------------------- whole-element patterns
// Every overload, every stride / index configuration of the tag pass: operand a, operand b or both hold a WHOLE element with
// algebraic meaning -- one (1,0,0), zero, the non-canonical one (p+1,p,0), the basis elements, -1, a base-field element, (1,1,1),
// the non-canonical zero -- in every lane or in lane 0 only (the other lanes tagged).  The coefficient-wise boundary passes draw
// the three coefficients from a rotation of the alphabet and never form these triples; a shortcut for "multiply by one" has to be
// right for every geometry.
inline void run_units(int si, const char *prop)
{
    const Spec &s = ovl_specs[si];
    Counters cnt;
    long long nv = 0;
    auto ax = axes(s);
    for (auto &r : ax[0])
        for (auto &a : ax[1])
            for (auto &b : ax[2])
                for (int se = 1; se <= 54; se++)
                {
                    int sel = ((se - 1) / 9) % 3;
                    if (s.b.kind == 0 && sel != 0) continue;
                    Case c;
                    memset(&c, 0, sizeof c);
                    c.si = si;
                    c.vm = 1;
                    c.se = se;
                    std::pair<u64, int> cf[3] = {r, a, b};
                    for (int q = 0; q < 3; q++) { c.s[q] = cf[q].first; c.ip[q] = cf[q].second; }
                    std::string cs_ = casestr(c);
                    if (g_cur) { strncpy(g_cur, cs_.c_str(), 4000); g_cur[4000] = 0; }
                    std::string f = run_case(c, &cnt);
                    if (f.empty()) continue;
                    size_t t = f.find('\t');
                    rep().viol(std::string(prop) + "." + f.substr(0, t) + "." + s.id + sig_suffix(c), cs_, fmt("%s(%s) %s:%d: ", s.name, s.decl, s.file, s.line) + f.substr(t + 1));
                    if (++nv >= 8) goto done;
                }
done:
    if (g_cur) g_cur[0] = 0;
    const char *pre = OVL_EXACT ? "asan_" : "";
    rep().stat(std::string(pre) + "states", cnt.cases);
    rep().stat(std::string(pre) + "transitions", cnt.cases);
    rep().stat(std::string(pre) + "evaluations", cnt.evals);
    if (!OVL_EXACT) rep().stat("distinct_nontrivial", cnt.cases);
    rep().stat(std::string(pre) + "unitelement_states", cnt.cases);
    rep().flush();
}

// ---------------------------------------------------------------- placements
// Every overload with every memory operand starting at each of the four addresses 0, 8, 16, 24 modulo 32 (an Element needs
// 8-byte alignment only; vector code may take an aligned fast path or use an instruction that needs alignment): unit / stride 5,
// identity / scattered index lists, tag pass and one boundary pass.
inline void run_place(int si, const char *prop)
{
    const Spec &s = ovl_specs[si];
    bool anymem = false;
    for (int q = 0; q < 3; q++) anymem |= has_mem(opnd(s, q));
    if (!anymem) return;
    Counters cnt;
    long long nv = 0;
    for (int pl = 1; pl <= 7; pl++) // 1..4: address 0, 8, 16, 24 modulo 32; 5..7: 8, 16, 24 bytes before a page boundary
        for (int geo = 0; geo < 2; geo++)
            for (int vp : {0, 3})
            {
                Case c;
                memset(&c, 0, sizeof c);
                c.si = si;
                c.vm = 1;
                c.vp = vp;
                c.pl = pl;
                for (int q = 0; q < 3; q++)
                {
                    const Operand &o = opnd(s, q);
                    c.s[q] = o.carrier == C_ARR_STRIDE ? (geo ? 5 : (u64)o.kind) : 0;
                    c.ip[q] = o.carrier == C_ARR_IDX ? (geo ? IP_SCAT : IP_IDENT) : IP_IDENT;
                }
                std::string cs_ = casestr(c);
                if (g_cur) { strncpy(g_cur, cs_.c_str(), 4000); g_cur[4000] = 0; }
                std::string f = run_case(c, &cnt);
                if (f.empty()) continue;
                size_t t = f.find('\t');
                rep().viol(std::string(prop) + "." + f.substr(0, t) + "." + s.id + sig_suffix(c), cs_, fmt("%s(%s) %s:%d: ", s.name, s.decl, s.file, s.line) + f.substr(t + 1));
                if (++nv >= 8) goto done;
            }
done:
    if (g_cur) g_cur[0] = 0;
    const char *pre = OVL_EXACT ? "asan_" : "";
    rep().stat(std::string(pre) + "states", cnt.cases);
    rep().stat(std::string(pre) + "transitions", cnt.cases);
    rep().stat(std::string(pre) + "evaluations", cnt.evals);
    if (!OVL_EXACT) rep().stat("distinct_nontrivial", cnt.cases);
    rep().stat(std::string(pre) + "placement_states", cnt.cases);
    rep().flush();
}

inline std::string clean(std::string t);
#if OVL_TSAN || defined(OVL_NOOMP)
} // namespace ovl
// the ThreadSanitizer build is compiled without OpenMP (libgomp's barriers are invisible to it): a library that calls the omp_*
// query functions outside a pragma still has to link -- outside a parallel region they answer for a team of one
extern "C"
{
__attribute__((weak)) int omp_get_num_threads(void) { return 1; }
__attribute__((weak)) int omp_get_thread_num(void) { return 0; }
__attribute__((weak)) int omp_get_max_threads(void) { return 1; }
__attribute__((weak)) int omp_get_num_procs(void) { return 1; }
__attribute__((weak)) int omp_in_parallel(void) { return 0; }
__attribute__((weak)) void omp_set_num_threads(int) {}
__attribute__((weak)) void omp_set_dynamic(int) {}
}
namespace ovl
{
#endif
#if OVL_TSAN
// ---------------------------------------------------------------- re-entrancy (ThreadSanitizer build)
// Every overload is executed by T threads at the same time, each thread on its own private heap blocks (tag pass, stride 5 /
// scattered indices).  (a) every thread's result must equal the sequential oracle; (b) the library code is instrumented
// (inline functions of the headers are compiled into this binary), so any state shared between two executions -- a
// function-local static buffer -- is a data race that ThreadSanitizer reports without any lucky timing.
inline Case reent_case(int si, int T)
{
    const Spec &s = ovl_specs[si];
    Case c;
    memset(&c, 0, sizeof c);
    c.si = si;
    c.vm = 1;
    c.reent = T;
    for (int q = 0; q < 3; q++)
    {
        const Operand &o = opnd(s, q);
        c.s[q] = o.carrier == C_ARR_STRIDE ? 5 : 0;
        c.ip[q] = o.carrier == C_ARR_IDX ? IP_SCAT : IP_IDENT;
    }
    return c;
}
// runs the case from T threads (after a common start line, no synchronisation between the calls); returns the first failure
inline std::string reent_run(const Case &c)
{
    int T = c.reent < 2 ? 3 : c.reent;
    {
        const Spec &s = ovl_specs[c.si];
        for (int q = 0; q < 3; q++)
            for (int k = 0; k < s.lanes && k < MAXL; k++) g_shidx[q][k] = idxval(c.ip[q], k, s.lanes, opnd(s, q).kind);
        g_shared_idx = true;
    }
    std::atomic<int> ready(0);
    std::vector<std::string> fails(T);
    std::vector<std::thread> th;
    for (int t = 0; t < T; t++)
        th.emplace_back([&, t]() {
            ready.fetch_add(1);
            while (ready.load() < T) {}
            for (int r = 0; r < 8; r++)
            {
                std::string f = run_case(c, 0);
                if (!f.empty() && fails[t].empty()) fails[t] = fmt("thread %d of %d, repetition %d: ", t, T, r) + f.substr(f.find('\t') + 1);
            }
        });
    for (auto &x : th) x.join();
    g_shared_idx = false;
    for (auto &f : fails)
        if (!f.empty()) return f;
    return "";
}
// child: stderr -> file, one marker line per overload; parent: cut the file at the markers
inline void reentrancy_step(const std::vector<int> &todo, const char *prop, int T)
{
    char tmpl[] = "/tmp/ovl_tsan_XXXXXX";
    int fd = mkstemp(tmpl);
    if (fd < 0) { perror("mkstemp"); exit(3); }
    fflush(stdout);
    pid_t pid = fork();
    if (pid == 0)
    {
        dup2(fd, 2);
        alarm(900);
        long long n = 0;
        for (int si : todo)
        {
            const Spec &s = ovl_specs[si];
            Case c = reent_case(si, T);
            fprintf(stderr, "\nOVLMARK %d\n", si);
            fflush(stderr);
            std::string f = reent_run(c);
            n += T * 8;
            if (!f.empty())
                rep().viol(std::string(prop) + ".reentrancy." + s.id, casestr(c), fmt("%s(%s) %s:%d: result differs from the sequential oracle when %d threads run the overload on private data: ", s.name, s.decl, s.file, s.line, T) + f);
        }
        rep().stat("tsan_states", (long long)todo.size());
        rep().stat("tsan_transitions", n);
        rep().flush();
        fflush(stdout);
        _exit(0);
    }
    int st = 0;
    waitpid(pid, &st, 0);
    std::string err;
    {
        lseek(fd, 0, SEEK_SET);
        char buf[65536];
        ssize_t k;
        while ((k = read(fd, buf, sizeof buf)) > 0) err.append(buf, k);
        close(fd);
        unlink(tmpl);
    }
    size_t at = 0;
    int last = -1;
    while (true)
    {
        size_t m = err.find("\nOVLMARK ", at);
        if (m == std::string::npos) break;
        int si = atoi(err.c_str() + m + 9);
        size_t nx = err.find("\nOVLMARK ", m + 1);
        std::string seg = err.substr(m, nx == std::string::npos ? std::string::npos : nx - m);
        last = si;
        size_t w = seg.find("WARNING: ThreadSanitizer: data race");
        if (w != std::string::npos)
        {
            const Spec &s = ovl_specs[si];
            // first access line, first frame of it, and the location line
            std::string acc, frame, loc;
            size_t l1 = seg.find('\n', w);
            if (l1 != std::string::npos) { size_t l2 = seg.find('\n', l1 + 1); acc = seg.substr(l1 + 1, l2 - l1 - 1); size_t l3 = seg.find('\n', l2 + 1); frame = seg.substr(l2 + 1, l3 - l2 - 1); }
            size_t lo = seg.find("Location is", w);
            if (lo != std::string::npos) loc = seg.substr(lo, seg.find('\n', lo) - lo);
            int nrep = 0;
            for (size_t x = w; x != std::string::npos; x = seg.find("WARNING: ThreadSanitizer: data race", x + 1)) nrep++;
            rep().viol(std::string(prop) + ".reentrancy." + s.id, casestr(reent_case(si, T)),
                       clean(fmt("%s(%s) %s:%d: ThreadSanitizer: data race between two executions on private data (%d report(s)): ", s.name, s.decl, s.file, s.line, nrep) + acc + " | " + frame + " | " + loc).substr(0, 900));
        }
        at = m + 1;
    }
    bool abnormal = WIFSIGNALED(st) || (WIFEXITED(st) && WEXITSTATUS(st) != 0);
    if (abnormal && last >= 0)
        rep().viol(std::string(prop) + ".crash." + ovl_specs[last].id, casestr(reent_case(last, T)), fmt("re-entrancy step ended abnormally (status %d) while %d threads executed this overload", st, T));
    rep().flush();
}
#endif

// ---------------------------------------------------------------- process isolation
struct Iso { int kind, code; std::string err; };
// runs fn in a forked child; stdout is inherited, stderr is captured (head kept)
inline Iso isolated(const std::function<void()> &fn, int timeout_s)
{
    int pe[2];
    if (pipe(pe)) { perror("pipe"); exit(3); }
    fflush(stdout);
    fflush(stderr);
    pid_t pid = fork();
    if (pid < 0) { perror("fork"); exit(3); }
    if (pid == 0)
    {
        close(pe[0]);
        dup2(pe[1], 2);
        alarm(timeout_s);
        fn();
        fflush(stdout);
        _exit(0);
    }
    close(pe[1]);
    Iso r;
    char buf[4096];
    ssize_t n;
    while ((n = read(pe[0], buf, sizeof buf)) > 0)
        if (r.err.size() < 32768) r.err.append(buf, n);
    close(pe[0]);
    int st = 0;
    waitpid(pid, &st, 0);
    if (WIFSIGNALED(st)) { r.kind = 1; r.code = WTERMSIG(st); }
    else if (WEXITSTATUS(st) != 0) { r.kind = 2; r.code = WEXITSTATUS(st); }
    else { r.kind = 0; r.code = 0; }
    return r;
}
inline std::string clean(std::string t)
{
    for (char &ch : t)
        if (ch == '\t' || ch == '\n' || ch == '\r') ch = ' ';
    return t;
}
// abnormal end of the child that was running overload si -> VIOL line
inline void report_abnormal(const Iso &r, int si, const char *prop, const std::string &curcase)
{
    const Spec &s = ovl_specs[si];
    std::string where = fmt("%s(%s) %s:%d: ", s.name, s.decl, s.file, s.line);
    Case cc;
    std::string sfx;
    bool huge = false;
    if (parse_casestr(curcase, cc)) { sfx = sig_suffix(cc); huge = is_huge(cc); }
    size_t a = r.err.find("ERROR: AddressSanitizer");
    if (a != std::string::npos)
    {
        std::string head = r.err.substr(a + 7, r.err.find('\n', a) - a - 7);
        std::string acc, frame;
        size_t q = r.err.find(" of size ", a);
        if (q != std::string::npos) { size_t b0 = r.err.rfind('\n', q); acc = r.err.substr(b0 + 1, r.err.find('\n', q) - b0 - 1); }
        size_t g = r.err.find("Goldilocks", a);
        if (g != std::string::npos) { size_t b0 = r.err.rfind('\n', g); frame = r.err.substr(b0 + 1, r.err.find('\n', g) - b0 - 1); }
        rep().viol(std::string(prop) + ".asan." + s.id + sfx, curcase, clean(where + head + " | " + acc + " | " + frame).substr(0, 900));
    }
    else if (r.kind == 1 && r.code == SIGALRM)
        rep().viol(std::string(prop) + ".timeout." + s.id + sfx, curcase, where + "no answer within the time limit");
    else
        rep().viol(std::string(prop) + ((huge && r.kind == 1 && r.code == SIGSEGV) ? ".segv-hugestride." + std::string(s.id) + (cc.al ? ".alias" : "") : ".crash." + std::string(s.id) + sfx), curcase, where + (r.kind == 1 ? fmt("killed by signal %d (%s)", r.code, strsignal(r.code)) : fmt("exit code %d", r.code)) + " " + clean(r.err.substr(0, 300)));
}

inline int ovl_main(int argc, char **argv)
{
    Args args = parse_args(argc, argv);
    const char *prop = ovl_prop;
    std::string role = OVL_EXACT ? "asan" : "plain";
    std::string only = args.kv.count("only") ? args.kv["only"] : "";
    g_cur = (char *)mmap(0, 4096, PROT_READ | PROT_WRITE, MAP_SHARED | MAP_ANONYMOUS, -1, 0);
    if (!args.one.empty())
    {
        Case c;
        if (!parse_casestr(args.one, c) || !ovl_specs[c.si].covered) { printf("INFO replay unknown overload in case [%s]\n", args.one.c_str()); return 0; }
        std::string cstr_ = casestr(c);
        strncpy(g_cur, cstr_.c_str(), 4000);
        const Spec &s = ovl_specs[c.si];
#if OVL_TSAN
        if (c.reent)
        {
            std::vector<int> one(1, c.si);
            reentrancy_step(one, prop, c.reent);
            return 0;
        }
#endif
        Iso r = isolated([&]() {
            std::string f = run_case(c, 0);
            if (!f.empty())
            {
                size_t t = f.find('\t');
                rep().viol(std::string(prop) + "." + f.substr(0, t) + "." + s.id + sig_suffix(c), cstr_, fmt("%s(%s) %s:%d: ", s.name, s.decl, s.file, s.line) + f.substr(t + 1));
            }
            else printf("INFO replay case passes: %s\n", cstr_.c_str());
        }, 120);
        if (r.kind != 0) report_abnormal(r, c.si, prop, cstr_);
        return 0;
    }
    // catalogue figures (once: the plain build reports them)
    if (!OVL_PRIVATE)
    {
        int cov = 0;
        for (int i = 0; i < ovl_nspecs; i++)
        {
            const Spec &s = ovl_specs[i];
            if (s.covered) cov++;
            else printf("UNCOVERED overload %s %s(%s) %s:%d: %s\n", s.id, s.name, s.decl, s.file, s.line, s.why);
        }
        rep().stat("overloads_total", ovl_nspecs);
        rep().stat("overloads_covered", cov);
        rep().stat("overloads_uncovered", ovl_nspecs - cov);
        int nal = 0, nalo = 0;
        for (int i = 0; i < ovl_nspecs; i++)
        {
            if (ovl_specs[i].alias) nalo++;
            for (int b = 0; b < 4; b++) nal += (ovl_specs[i].alias >> b) & 1;
        }
        rep().stat("overloads_with_alias_forms", nalo);
        rep().stat("alias_forms", nal);
        rep().flush();
    }
    std::vector<int> todo;
    for (int i = 0; i < ovl_nspecs; i++)
        if (ovl_specs[i].covered && (only.empty() || std::string(ovl_specs[i].id).rfind(only, 0) == 0)) todo.push_back(i);
    bool thorough = args.thorough();
    g_thorough = thorough;
#if OVL_TSAN
    reentrancy_step(todo, prop, 3);
    return 0;
#endif
    fork_pool((long)todo.size(), args.jobs, [&](long j) {
        int si = todo[j];
        static char *mine = 0; // one shared page per worker process (workers are forked from here)
        if (!mine) mine = (char *)mmap(0, 4096, PROT_READ | PROT_WRITE, MAP_SHARED | MAP_ANONYMOUS, -1, 0);
        g_cur = mine;
        g_cur[0] = 0;
        Iso r = isolated([&]() { run_overload(si, thorough, prop); }, 600);
        if (r.kind != 0)
        {
            report_abnormal(r, si, prop, g_cur);
            rep().stat("overloads_aborted", 1);
            rep().flush(); // before the next child is forked (it would inherit and re-print these counters)
        }
        if (!OVL_PRIVATE)
        {
            g_cur[0] = 0;
            Iso h = isolated([&]() { run_consts(si, prop); }, 300);
            if (h.kind != 0)
            {
                report_abnormal(h, si, prop, g_cur);
                rep().flush();
            }
        }
        {
            g_cur[0] = 0;
            Iso h = isolated([&]() { run_units(si, prop); }, 300);
            if (h.kind != 0)
            {
                report_abnormal(h, si, prop, g_cur);
                rep().flush();
            }
        }
        {
            g_cur[0] = 0;
            Iso h = isolated([&]() { run_place(si, prop); }, 300);
            if (h.kind != 0)
            {
                report_abnormal(h, si, prop, g_cur);
                rep().flush();
            }
        }
        {
            g_cur[0] = 0;
            Iso h = isolated([&]() { run_gaps(si, prop); }, 300);
            if (h.kind != 0)
            {
                report_abnormal(h, si, prop, g_cur);
                rep().flush();
            }
        }
        if (!OVL_PRIVATE)
        {
            g_cur[0] = 0;
            Iso h = isolated([&]() { run_huge(si, prop); }, 300);
            if (h.kind != 0)
            {
                report_abnormal(h, si, prop, g_cur);
                rep().flush();
            }
        }
    });
    rep().flush();
    return 0;
}
} // namespace ovl
