"""ovl/ovlcheck.py -- shared by checks/c16.py and checks/c17.py: regenerate the catalogue and the
wrappers from the tree under test, compile (wrapper TUs in parallel, -O1), run the plain and the
ASan build of the generic harness for the AVX2 and (when the CPU has avx512f) the AVX-512 block."""
import os, sys, json
sys.path.insert(0, os.path.dirname(os.path.abspath(__file__)))
import gen
from lib import vlib

OVL = os.path.dirname(os.path.abspath(__file__))
ASAN = ['-fsanitize=address', '-fno-omit-frame-pointer', '-g1']
TSAN = ['-fsanitize=thread', '-g1']
TSAN_ENV = {'TSAN_OPTIONS': 'halt_on_error=0:exitcode=0'}
NTU = {('C16', 'avx2'): 7, ('C16', 'avx512'): 4, ('C17', 'avx2'): 4, ('C17', 'avx512'): 2}


def steps_for(ctx, prop):
    isas = ['avx2'] + (['avx512'] if ctx.hardware_avx512 else [])
    st = [('%s_%s_%s' % (prop.lower(), isa, mode), isa, mode) for isa in isas for mode in ('plain', 'asan', 'tsan')]
    # another build configuration of the SAME AVX2 overloads: compiled inside an AVX-512 build (-mavx512f -D__AVX512__) and with
    # -march=native -- code behind #ifdef is code too (plain mode only)
    if ctx.hardware_avx512:
        st.append(('%s_avx2_plainx512' % prop.lower(), 'avx2', 'plainx512'))
    st.append(('%s_avx2_plainxnative' % prop.lower(), 'avx2', 'plainxnative'))
    # ... and with another compiler (clang++ evaluates function arguments left to right, g++ right to left; unspecified behaviour
    # the code may not rely on).  Built without OpenMP (no libomp here); optional: if clang++ rejects the sources the step is skipped
    import shutil
    if shutil.which('clang++'):
        st.append(('%s_avx2_plainxclang' % prop.lower(), 'avx2', 'plainxclang'))
    return st


def build(ctx, prop, main_cpp, only_step=None, extra_objs=(), extra_links=()):
    """extra_objs: [(name, [sources], flags, libs)] compiled together with the wrapper objects;
    extra_links: [(name, [source or object names], flags, libs)] linked in the second round (object names are resolved)"""
    gdir = os.path.join(ctx.build_dir, 'gen')
    if os.path.isdir(gdir):
        for f in os.listdir(gdir):
            os.unlink(os.path.join(gdir, f))
    steps = steps_for(ctx, prop)
    if only_step:
        steps = [s for s in steps if s[0] == only_step]
    inc = ['-I' + OVL, '-O1']
    objs, links = [], []
    ctx.ovl_notes = []
    ctx.ovl_items = None
    gens = {}
    for isa in sorted({s[1] for s in steps}) if steps else []:
        gens[isa] = gen.generate(vlib.SRC, prop, isa, gdir, NTU[(prop, isa)])
        ctx.ovl_items = gens[isa]['items']
        ctx.ovl_notes = gens[isa]['notes']
    if ctx.ovl_items is None:    # replay of a step that is not an overload step: still produce the catalogue
        g = gen.generate(vlib.SRC, prop, 'avx2', gdir, 1)
        ctx.ovl_items, ctx.ovl_notes = g['items'], g['notes']
    for name, isa, mode in steps:
        g = gens[isa]
        fl = ctx.flags_native(avx512=(isa == 'avx512' or mode == 'plainx512'), omp=(mode not in ('tsan', 'plainxclang')), extra=inc + (ASAN if mode == 'asan' else TSAN if mode == 'tsan' else ['-march=native'] if mode == 'plainxnative' else ['--cxx=clang++', '--optional', '-DOVL_NOOMP'] if mode == 'plainxclang' else []))
        mine = []
        for k, tu in enumerate(g['tus']):
            on = '%s_w%d.o' % (name, k)
            objs.append((on, [tu], fl + ['-c'], []))
            mine.append(on)
        objs.append((name + '_tab.o', [g['table']], fl + ['-c'], []))
        objs.append((name + '_main.o', [main_cpp], fl + ['-c'], []))
        objs.append((name + '_bf.o', [os.path.join(vlib.SRC, 'goldilocks_base_field.cpp')], fl + ['-c'], []))
        links.append((name, mine + [name + '_tab.o', name + '_main.o', name + '_bf.o'], fl, ['-lgmp']))
    objs += list(extra_objs)
    o = ctx.compile_many(objs) if objs else {}
    jobs = []
    for name, parts, fl, libs in links + list(extra_links):
        jobs.append((name, [o.get(p, p) for p in parts], fl, libs))
    ctx.bins = ctx.compile_many(jobs) if jobs else {}
    ctx.ovl_steps = steps
    return ctx.bins


def explore(ctx, prop):
    items = ctx.ovl_items or []
    fams = {}
    for it in items:
        f = fams.setdefault(it['family'], dict(total=0, covered=0, uncovered=0))
        f['total'] += 1
        f[it['status']] += 1
    ctx.bounds.update({
        'overloads': fams,
        'exceptions_to_the_naming_rule': sorted({it['id'] for it in items if 'exception' in it}),
        'scalar strides (each stride parameter independently)': '{0,1,3,5,1000}; result carriers: only strides >= element size (0 and overlapping strides make lanes collide)',
        'index arrays': 'identity, reversed, all-equal (inputs), scattered+odd offsets, with repeats (inputs), permuted x997',
        'value passes': 'tags (every arena position its own value) + boundary values {0,1,p-1,p,p+1,2^32-1,2^32,2^64-1,2^63,0xFFFFFFFE00000001,0x5555555555555555} '
                        'at position j: B[(j*m + r + d_b) mod 11], all r, all d_b; m=1 (quick) / m=1..10 (thorough)',
        'alias forms (rule: decls.can_share)': {it['id']: it['alias'] for it in items if it.get('alias')},
        'alias enumeration': 'shared object gets one geometry (unit/identity when a unit array is involved, else same stride or same index pattern); '
                             'quick: strides {unit,5}, indices {identity,scattered}, tags + 11 rotations x d_b in {0,5}; thorough: full stride/index alphabets, all d_b',
        'placements': 'every memory operand starting at 0, 8, 16, 24 modulo 32 (unit / stride 5, identity / scattered lists, tag pass and one boundary pass); plain and ASan builds',
        'index-list shapes': 'every gap word over {consecutive, jump past the maximum, wrap below the minimum}^(lanes-1) (3^7 = 2187 lists for 8 lanes, 27 for 4) on every index-array parameter alone and on all together; tag pass; plain and ASan builds',
        'huge strides (plain build)': '{715827883, 2^31+5, 2^32+7} on every scalar-stride array carrier (each alone and all together, tag pass) on a PROT_NONE reservation with only the designated pages present; 32-bit stride parameters only get values that fit',
        're-entrancy (ThreadSanitizer build)': 'every overload from 3 threads at once on private heap blocks (tag pass, stride 5 / scattered indices, 8 repetitions): results vs sequential oracle, any data-race report = violation',
        'isa': [s[0] for s in ctx.ovl_steps],
    })
    for nt in ctx.ovl_notes:
        ctx.notes.append('catalogue: ' + nt)
    if not ctx.hardware_avx512:
        n512 = sum(1 for it in items if it['isa'] == 'avx512')
        ctx.uncovered.append('%d AVX-512 overloads not executed (CPU lacks avx512f)' % n512)
        ctx.exhaustive = False
    for name, isa, mode in ctx.ovl_steps:
        if name in ctx.bins:
            ctx.run_step(name, ctx.bins[name], tag=name, env=(TSAN_ENV if mode == 'tsan' else None))
    # every explored case is an execution of the compiled library code itself
    ctx.stats['traces_validated_against_impl'] = ctx.stats.get('transitions', 0)
