// ovl engine: types shared by the generated wrapper translation units, the generated
// spec table and the generic harness.  No library header, no intrinsics here.
#pragma once
#include <stdint.h>

namespace ovl
{
enum Carrier
{
    C_NONE = 0,
    C_ARR_UNIT,   // Element* : element k at k*kind + i
    C_ARR_STRIDE, // Element* + scalar s : element k at k*s + i
    C_ARR_IDX,    // Element* + uint64_t idx[] : element k at idx[k] + i
    C_CONST_PTR,  // Element* : one element x[0..kind-1] for every lane
    C_CONST_VAL,  // Element by value / reference, Goldilocks3::Element& : one element for every lane
    C_REG,        // kind registers, coefficient i of element k = lane k of register i
    C_REGC        // kind registers that hold one constant in every lane (see exceptions.tsv)
};
enum Family { F_ADD = 0, F_SUB, F_MUL, F_COPY };
enum Aux { AUX_NONE = 0, AUX_PTR, AUX_REGS };
enum Alias { AL_NONE = 0, AL_CA, AL_CB, AL_AB, AL_CAB, NAL }; // result object == a, == b, a == b, all three one object
enum { MAXL = 8 };

struct Operand
{
    int kind;    // 1 base element, 3 extension element, 0 absent
    int carrier; // Carrier
};

// Everything a wrapper may need.  slot 0 = result, 1 = a, 2 = b.
struct CallArgs
{
    uint64_t *ptr[3];           // arrays / const_ptr
    uint64_t stride[3];         // scalar strides
    uint64_t *idx[3];           // index arrays (lanes entries)
    uint64_t cval[3][3];        // const_val coefficients (written back by the wrapper when passed by non-const reference)
    uint64_t reg[3][3][MAXL];   // registers: [slot][coefficient][lane]; result registers are written back, input registers too
    int root[3];                // alias forms: slot q uses the OBJECT of slot root[q] (root[q] == q: its own object)
    uint64_t *auxptr;           // precomputed sums, pointer form
    uint64_t auxreg[3][MAXL];   // precomputed sums, register form
};

struct Spec
{
    const char *id;      // e.g. mul13c_avx#3 (ordinal in source order among same-name overloads)
    const char *name;
    const char *sig;     // normalised signature
    const char *decl;    // parameter list as written
    const char *file;
    int line;
    int family, lanes;
    Operand r, a, b;
    int aux;
    int alias;           // alias forms expressible by rule (decls.py can_share): bit0 c:a, bit1 c:b, bit2 a:b, bit3 c:a:b
    int s32;             // bit q set: the scalar stride parameter of slot q is a 32-bit integer (values must fit)
    int covered;         // 0 = uncovered (call == 0), why holds the reason
    const char *why;
    void (*call)(CallArgs &);
};
} // namespace ovl

extern const ovl::Spec ovl_specs[];
extern const int ovl_nspecs;
extern const char *const ovl_prop; // "C16" / "C17"
extern const char *const ovl_isa;  // "avx2" / "avx512"
