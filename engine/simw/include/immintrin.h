// Width-parametric software model of the AVX2 / AVX-512 subset used by the
// Goldilocks library.  Drop-in replacement for <immintrin.h> (placed first on
// the include path).  -DVW=w selects the half-word width: a "64-bit lane" is
// 2w bits, a "32-bit element" is w bits.  With VW=32 every function is the
// bit-exact hardware semantics (checked against the hardware by
// harness/conf_intrin.cpp).  Shift counts written for 64-bit lanes are mapped
// 32q+r -> wq+r.
//
// Lanes are stored one per uint64_t, so memory operands keep the library's
// layout (Goldilocks::Element = one uint64_t).
//
// -DSIMW_SIG: every compare / mask producing intrinsic appends its per-lane
// result bits to simw::sig[lane] (path signature of the execution).
#ifndef SIMW_IMMINTRIN_H
#define SIMW_IMMINTRIN_H
#include <stdint.h>
#include <stdlib.h>
#include <stdio.h>

#ifndef VW
#define VW 32
#endif
#if VW < 2 || VW > 32
#error "VW must be in 2..32"
#endif

namespace simw
{
typedef uint64_t u64;
static const unsigned W = VW;
static const u64 HM = (VW == 32) ? 0xFFFFFFFFULL : ((1ULL << VW) - 1);               // half mask
static const u64 LM = (VW == 32) ? 0xFFFFFFFFFFFFFFFFULL : ((1ULL << (2 * VW % 64)) - 1); // lane mask
static const u64 LSB_SIGN = 1ULL << (2 * VW - 1);
static const u64 HSB_SIGN = 1ULL << (VW - 1);

#ifdef SIMW_SIG
extern thread_local u64 sig[8];
static inline void sigbit(int lane, unsigned bit) { sig[lane] = (sig[lane] << 1) | (bit & 1); }
static inline void sig_reset() { for (int i = 0; i < 8; i++) sig[i] = 1; }
#else
static inline void sigbit(int, unsigned) {}
static inline void sig_reset() {}
#endif

// map a shift count written for 64-bit lanes to 2w-bit lanes
static inline unsigned mapcount(unsigned c)
{
    if (VW == 32) return c;
    if (c >= 64) return 2 * VW;
    if (c >= 48) return 2 * VW - (64 - c);
    if (c >= 16) return (unsigned)((int)VW + ((int)c - 32));
    return c;
}
static inline u64 shr(u64 x, unsigned c) { c = mapcount(c); return c >= 2 * VW ? 0 : ((x & LM) >> c); }
static inline u64 shl(u64 x, unsigned c) { c = mapcount(c); return c >= 2 * VW ? 0 : ((x << c) & LM); }
static inline bool sgt_lane(u64 a, u64 b) { return ((a & LM) ^ LSB_SIGN) > ((b & LM) ^ LSB_SIGN); }
static inline bool sgt_half(u64 a, u64 b) { return ((a & HM) ^ HSB_SIGN) > ((b & HM) ^ HSB_SIGN); }
static inline u64 hi(u64 x) { return (x >> VW) & HM; }
static inline u64 lo(u64 x) { return x & HM; }
static inline u64 mk(u64 h, u64 l) { return ((h & HM) << VW) | (l & HM); }
[[noreturn]] static inline void misaligned(const char *what, const void *p)
{
    fprintf(stderr, "simw: misaligned %s at %p\n", what, p);
    abort();
}
} // namespace simw

struct __m256i { uint64_t v[4]; };
struct __m512i { uint64_t v[8]; };
typedef __m256i __m256d;
typedef __m256i __m256;
typedef __m512i __m512d;
typedef __m512i __m512;
typedef unsigned char __mmask8;
typedef unsigned short __mmask16;

#define SIMW_FN static inline __attribute__((always_inline))
#define SIMW_LOOP4(expr) do { for (int i = 0; i < 4; i++) { r.v[i] = (expr) & simw::LM; } } while (0)
#define SIMW_LOOP8(expr) do { for (int i = 0; i < 8; i++) { r.v[i] = (expr) & simw::LM; } } while (0)

// ------------------------------------------------------------------ 256-bit
SIMW_FN __m256i _mm256_set_epi64x(long long e3, long long e2, long long e1, long long e0)
{
    __m256i r;
    r.v[0] = (uint64_t)e0 & simw::LM; r.v[1] = (uint64_t)e1 & simw::LM;
    r.v[2] = (uint64_t)e2 & simw::LM; r.v[3] = (uint64_t)e3 & simw::LM;
    return r;
}
SIMW_FN __m256i _mm256_set1_epi64x(long long a) { return _mm256_set_epi64x(a, a, a, a); }
SIMW_FN __m256i _mm256_loadu_si256(const __m256i *p) { __m256i r; SIMW_LOOP4(p->v[i]); return r; }
SIMW_FN __m256i _mm256_load_si256(const __m256i *p)
{
    if (((uintptr_t)p) & 31) simw::misaligned("_mm256_load_si256", p);
    __m256i r; SIMW_LOOP4(p->v[i]); return r;
}
SIMW_FN void _mm256_storeu_si256(__m256i *p, __m256i a) { for (int i = 0; i < 4; i++) p->v[i] = a.v[i]; }
SIMW_FN void _mm256_store_si256(__m256i *p, __m256i a)
{
    if (((uintptr_t)p) & 31) simw::misaligned("_mm256_store_si256", p);
    for (int i = 0; i < 4; i++) p->v[i] = a.v[i];
}
SIMW_FN __m256i _mm256_xor_si256(__m256i a, __m256i b) { __m256i r; SIMW_LOOP4(a.v[i] ^ b.v[i]); return r; }
SIMW_FN __m256i _mm256_and_si256(__m256i a, __m256i b) { __m256i r; SIMW_LOOP4(a.v[i] & b.v[i]); return r; }
SIMW_FN __m256i _mm256_or_si256(__m256i a, __m256i b) { __m256i r; SIMW_LOOP4(a.v[i] | b.v[i]); return r; }
SIMW_FN __m256i _mm256_andnot_si256(__m256i a, __m256i b) { __m256i r; SIMW_LOOP4((~a.v[i]) & b.v[i]); return r; }
SIMW_FN __m256i _mm256_add_epi64(__m256i a, __m256i b) { __m256i r; SIMW_LOOP4(a.v[i] + b.v[i]); return r; }
SIMW_FN __m256i _mm256_sub_epi64(__m256i a, __m256i b) { __m256i r; SIMW_LOOP4(a.v[i] - b.v[i]); return r; }
SIMW_FN __m256i _mm256_cmpgt_epi64(__m256i a, __m256i b)
{
    __m256i r;
    for (int i = 0; i < 4; i++) { bool g = simw::sgt_lane(a.v[i], b.v[i]); simw::sigbit(i, g); r.v[i] = g ? simw::LM : 0; }
    return r;
}
SIMW_FN __m256i _mm256_cmpgt_epi32(__m256i a, __m256i b)
{
    __m256i r;
    for (int i = 0; i < 4; i++)
    {
        bool gh = simw::sgt_half(simw::hi(a.v[i]), simw::hi(b.v[i]));
        bool gl = simw::sgt_half(simw::lo(a.v[i]), simw::lo(b.v[i]));
        simw::sigbit(i, gh);
        r.v[i] = simw::mk(gh ? simw::HM : 0, gl ? simw::HM : 0);
    }
    return r;
}
SIMW_FN __m256i _mm256_srli_epi64(__m256i a, int c) { __m256i r; SIMW_LOOP4(simw::shr(a.v[i], (unsigned)c)); return r; }
SIMW_FN __m256i _mm256_slli_epi64(__m256i a, int c) { __m256i r; SIMW_LOOP4(simw::shl(a.v[i], (unsigned)c)); return r; }
SIMW_FN __m256i _mm256_mul_epu32(__m256i a, __m256i b) { __m256i r; SIMW_LOOP4(simw::lo(a.v[i]) * simw::lo(b.v[i])); return r; }
SIMW_FN __m256i _mm256_movehdup_ps(__m256i a) { __m256i r; SIMW_LOOP4(simw::mk(simw::hi(a.v[i]), simw::hi(a.v[i]))); return r; }
SIMW_FN __m256i _mm256_moveldup_ps(__m256i a) { __m256i r; SIMW_LOOP4(simw::mk(simw::lo(a.v[i]), simw::lo(a.v[i]))); return r; }
SIMW_FN __m256i _mm256_castsi256_ps(__m256i a) { return a; }
SIMW_FN __m256i _mm256_castps_si256(__m256i a) { return a; }
SIMW_FN __m256i _mm256_castsi256_pd(__m256i a) { return a; }
SIMW_FN __m256i _mm256_castpd_si256(__m256i a) { return a; }
SIMW_FN __m256i _mm256_blend_epi32(__m256i a, __m256i b, int imm)
{
    __m256i r;
    for (int i = 0; i < 4; i++)
    {
        uint64_t l = ((imm >> (2 * i)) & 1) ? simw::lo(b.v[i]) : simw::lo(a.v[i]);
        uint64_t h = ((imm >> (2 * i + 1)) & 1) ? simw::hi(b.v[i]) : simw::hi(a.v[i]);
        r.v[i] = simw::mk(h, l);
    }
    return r;
}
SIMW_FN __m256i _mm256_permute2f128_si256(__m256i a, __m256i b, int imm)
{
    __m256i r;
    for (int half = 0; half < 2; half++)
    {
        int c = (imm >> (4 * half)) & 0xF;
        const uint64_t *s = (c & 2) ? b.v : a.v;
        int off = (c & 1) ? 2 : 0;
        r.v[2 * half] = (c & 8) ? 0 : s[off];
        r.v[2 * half + 1] = (c & 8) ? 0 : s[off + 1];
    }
    return r;
}
SIMW_FN __m256i _mm256_unpacklo_pd(__m256i a, __m256i b) { __m256i r; r.v[0] = a.v[0]; r.v[1] = b.v[0]; r.v[2] = a.v[2]; r.v[3] = b.v[2]; return r; }
SIMW_FN __m256i _mm256_unpackhi_pd(__m256i a, __m256i b) { __m256i r; r.v[0] = a.v[1]; r.v[1] = b.v[1]; r.v[2] = a.v[3]; r.v[3] = b.v[3]; return r; }


// ---- further AVX2 intrinsics an edit might reach for (lane-granular ones are width independent)
SIMW_FN __m256i _mm256_setzero_si256(void) { __m256i r; for (int i = 0; i < 4; i++) r.v[i] = 0; return r; }
SIMW_FN __m256i _mm256_permute4x64_epi64(__m256i a, int imm) { __m256i r; for (int i = 0; i < 4; i++) r.v[i] = a.v[(imm >> (2 * i)) & 3]; return r; }
SIMW_FN __m256i _mm256_unpacklo_epi64(__m256i a, __m256i b) { return _mm256_unpacklo_pd(a, b); }
SIMW_FN __m256i _mm256_unpackhi_epi64(__m256i a, __m256i b) { return _mm256_unpackhi_pd(a, b); }
SIMW_FN __m256i _mm256_blend_epi64_(__m256i a, __m256i b, int imm) { __m256i r; for (int i = 0; i < 4; i++) r.v[i] = ((imm >> i) & 1) ? b.v[i] : a.v[i]; return r; }
SIMW_FN __m256i _mm256_blendv_epi8(__m256i a, __m256i b, __m256i m) { __m256i r; for (int i = 0; i < 4; i++) r.v[i] = ((a.v[i] & ~m.v[i]) | (b.v[i] & m.v[i])) & simw::LM; return r; }
// whole-register tests and masks (decisions taken on them are part of the path signature of lane 0)
SIMW_FN int _mm256_testz_si256(__m256i a, __m256i b) { int z = 1; for (int i = 0; i < 4; i++) if (a.v[i] & b.v[i] & simw::LM) z = 0; simw::sigbit(0, (unsigned)z); return z; }
SIMW_FN int _mm256_testc_si256(__m256i a, __m256i b) { int c = 1; for (int i = 0; i < 4; i++) if (~a.v[i] & b.v[i] & simw::LM) c = 0; simw::sigbit(0, (unsigned)c); return c; }
SIMW_FN int _mm256_movemask_pd(__m256i a) { int m = 0; for (int i = 0; i < 4; i++) if (a.v[i] & simw::LM & ~(simw::LM >> 1)) m |= 1 << i; return m; }
SIMW_FN __m256i _mm256_max_epu32(__m256i a, __m256i b) { __m256i r; for (int i = 0; i < 4; i++) r.v[i] = simw::mk(simw::hi(a.v[i]) > simw::hi(b.v[i]) ? simw::hi(a.v[i]) : simw::hi(b.v[i]), simw::lo(a.v[i]) > simw::lo(b.v[i]) ? simw::lo(a.v[i]) : simw::lo(b.v[i])); return r; }
SIMW_FN __m256i _mm256_min_epu32(__m256i a, __m256i b) { __m256i r; for (int i = 0; i < 4; i++) r.v[i] = simw::mk(simw::hi(a.v[i]) < simw::hi(b.v[i]) ? simw::hi(a.v[i]) : simw::hi(b.v[i]), simw::lo(a.v[i]) < simw::lo(b.v[i]) ? simw::lo(a.v[i]) : simw::lo(b.v[i])); return r; }
SIMW_FN __m256i _mm256_add_epi32(__m256i a, __m256i b) { __m256i r; for (int i = 0; i < 4; i++) r.v[i] = simw::mk(simw::hi(a.v[i]) + simw::hi(b.v[i]), simw::lo(a.v[i]) + simw::lo(b.v[i])); return r; }
SIMW_FN __m256i _mm256_sub_epi32(__m256i a, __m256i b) { __m256i r; for (int i = 0; i < 4; i++) r.v[i] = simw::mk(simw::hi(a.v[i]) - simw::hi(b.v[i]), simw::lo(a.v[i]) - simw::lo(b.v[i])); return r; }
SIMW_FN __m256i _mm256_cmpeq_epi32(__m256i a, __m256i b) { __m256i r; for (int i = 0; i < 4; i++) r.v[i] = simw::mk(simw::hi(a.v[i]) == simw::hi(b.v[i]) ? ~0ULL : 0, simw::lo(a.v[i]) == simw::lo(b.v[i]) ? ~0ULL : 0); return r; }
SIMW_FN __m512i _mm512_min_epu64(__m512i a, __m512i b) { __m512i r; SIMW_LOOP8(((a.v[i] & simw::LM) < (b.v[i] & simw::LM)) ? a.v[i] : b.v[i]); return r; }
SIMW_FN __m512i _mm512_max_epu64(__m512i a, __m512i b) { __m512i r; SIMW_LOOP8(((a.v[i] & simw::LM) > (b.v[i] & simw::LM)) ? a.v[i] : b.v[i]); return r; }
SIMW_FN __m512i _mm512_min_epi64(__m512i a, __m512i b) { __m512i r; SIMW_LOOP8(simw::sgt_lane(a.v[i], b.v[i]) ? b.v[i] : a.v[i]); return r; }
SIMW_FN __m512i _mm512_max_epi64(__m512i a, __m512i b) { __m512i r; SIMW_LOOP8(simw::sgt_lane(a.v[i], b.v[i]) ? a.v[i] : b.v[i]); return r; }
SIMW_FN __m512i _mm512_andnot_si512(__m512i a, __m512i b) { __m512i r; SIMW_LOOP8(~a.v[i] & b.v[i]); return r; }
SIMW_FN __m512i _mm512_ternarylogic_epi64(__m512i a, __m512i b, __m512i c, int imm) { __m512i r; for (int i = 0; i < 8; i++) { uint64_t o = 0; for (int bit = 0; bit < 64; bit++) { int idx = (int)(((a.v[i] >> bit) & 1) << 2 | ((b.v[i] >> bit) & 1) << 1 | ((c.v[i] >> bit) & 1)); if ((imm >> idx) & 1) o |= 1ULL << bit; } r.v[i] = o & simw::LM; } return r; }
SIMW_FN __m256i _mm256_cmpeq_epi64(__m256i a, __m256i b) { __m256i r; for (int i = 0; i < 4; i++) { bool e = (a.v[i] & simw::LM) == (b.v[i] & simw::LM); simw::sigbit(i, e); r.v[i] = e ? simw::LM : 0; } return r; }
SIMW_FN __m256i _mm256_shuffle_epi32(__m256i a, int imm)
{
    // per 128-bit lane: four half-word elements e0..e3 = (lo(v0), hi(v0), lo(v1), hi(v1))
    __m256i r;
    for (int l = 0; l < 2; l++)
    {
        uint64_t e[4] = {simw::lo(a.v[2 * l]), simw::hi(a.v[2 * l]), simw::lo(a.v[2 * l + 1]), simw::hi(a.v[2 * l + 1])};
        uint64_t o[4];
        for (int i = 0; i < 4; i++) o[i] = e[(imm >> (2 * i)) & 3];
        r.v[2 * l] = simw::mk(o[1], o[0]);
        r.v[2 * l + 1] = simw::mk(o[3], o[2]);
    }
    return r;
}
SIMW_FN long long _mm256_extract_epi64(__m256i a, int i) { return (long long)a.v[i & 3]; }

// ------------------------------------------------------------------ 512-bit
SIMW_FN __m512i _mm512_set_epi64(long long e7, long long e6, long long e5, long long e4, long long e3, long long e2, long long e1, long long e0)
{
    __m512i r;
    long long e[8] = {e0, e1, e2, e3, e4, e5, e6, e7};
    for (int i = 0; i < 8; i++) r.v[i] = (uint64_t)e[i] & simw::LM;
    return r;
}
SIMW_FN __m512i _mm512_set4_epi64(long long d, long long c, long long b, long long a) { return _mm512_set_epi64(d, c, b, a, d, c, b, a); }
SIMW_FN __m512i _mm512_set1_epi64(long long a) { return _mm512_set_epi64(a, a, a, a, a, a, a, a); }
SIMW_FN __m512i _mm512_loadu_si512(const void *p) { __m512i r; const uint64_t *q = (const uint64_t *)p; SIMW_LOOP8(q[i]); return r; }
SIMW_FN __m512i _mm512_load_si512(const void *p)
{
    if (((uintptr_t)p) & 63) simw::misaligned("_mm512_load_si512", p);
    return _mm512_loadu_si512(p);
}
SIMW_FN void _mm512_storeu_si512(void *p, __m512i a) { uint64_t *q = (uint64_t *)p; for (int i = 0; i < 8; i++) q[i] = a.v[i]; }
SIMW_FN void _mm512_store_si512(void *p, __m512i a)
{
    if (((uintptr_t)p) & 63) simw::misaligned("_mm512_store_si512", p);
    _mm512_storeu_si512(p, a);
}
SIMW_FN __m512i _mm512_and_si512(__m512i a, __m512i b) { __m512i r; SIMW_LOOP8(a.v[i] & b.v[i]); return r; }
SIMW_FN __m512i _mm512_xor_si512(__m512i a, __m512i b) { __m512i r; SIMW_LOOP8(a.v[i] ^ b.v[i]); return r; }
SIMW_FN __m512i _mm512_or_si512(__m512i a, __m512i b) { __m512i r; SIMW_LOOP8(a.v[i] | b.v[i]); return r; }
SIMW_FN __m512i _mm512_add_epi64(__m512i a, __m512i b) { __m512i r; SIMW_LOOP8(a.v[i] + b.v[i]); return r; }
SIMW_FN __m512i _mm512_sub_epi64(__m512i a, __m512i b) { __m512i r; SIMW_LOOP8(a.v[i] - b.v[i]); return r; }
SIMW_FN __m512i _mm512_srli_epi64(__m512i a, unsigned c) { __m512i r; SIMW_LOOP8(simw::shr(a.v[i], c)); return r; }
SIMW_FN __m512i _mm512_slli_epi64(__m512i a, unsigned c) { __m512i r; SIMW_LOOP8(simw::shl(a.v[i], c)); return r; }
SIMW_FN __m512i _mm512_mul_epu32(__m512i a, __m512i b) { __m512i r; SIMW_LOOP8(simw::lo(a.v[i]) * simw::lo(b.v[i])); return r; }
SIMW_FN __m512i _mm512_mullox_epi64(__m512i a, __m512i b) { __m512i r; SIMW_LOOP8(a.v[i] * b.v[i]); return r; } // low lane-width half of the product
SIMW_FN __m512i _mm512_mullo_epi64(__m512i a, __m512i b) { return _mm512_mullox_epi64(a, b); }
SIMW_FN __m512i _mm512_movehdup_ps(__m512i a) { __m512i r; SIMW_LOOP8(simw::mk(simw::hi(a.v[i]), simw::hi(a.v[i]))); return r; }
SIMW_FN __m512i _mm512_moveldup_ps(__m512i a) { __m512i r; SIMW_LOOP8(simw::mk(simw::lo(a.v[i]), simw::lo(a.v[i]))); return r; }
SIMW_FN __m512i _mm512_castsi512_ps(__m512i a) { return a; }
SIMW_FN __m512i _mm512_castps_si512(__m512i a) { return a; }
SIMW_FN __m512i _mm512_castsi512_pd(__m512i a) { return a; }
SIMW_FN __m512i _mm512_castpd_si512(__m512i a) { return a; }
SIMW_FN __mmask8 _mm512_cmpge_epu64_mask(__m512i a, __m512i b)
{
    unsigned m = 0;
    for (int i = 0; i < 8; i++) { bool g = (a.v[i] & simw::LM) >= (b.v[i] & simw::LM); simw::sigbit(i, g); m |= (unsigned)g << i; }
    return (__mmask8)m;
}
SIMW_FN __mmask8 _mm512_cmpgt_epu64_mask(__m512i a, __m512i b)
{
    unsigned m = 0;
    for (int i = 0; i < 8; i++) { bool g = (a.v[i] & simw::LM) > (b.v[i] & simw::LM); simw::sigbit(i, g); m |= (unsigned)g << i; }
    return (__mmask8)m;
}
SIMW_FN __mmask8 _mm512_cmplt_epu64_mask(__m512i a, __m512i b) { return _mm512_cmpgt_epu64_mask(b, a); }
SIMW_FN __mmask8 _mm512_cmple_epu64_mask(__m512i a, __m512i b) { return _mm512_cmpge_epu64_mask(b, a); }
SIMW_FN __m512i _mm512_mask_add_epi64(__m512i src, __mmask8 k, __m512i a, __m512i b)
{
    __m512i r; SIMW_LOOP8(((k >> i) & 1) ? (a.v[i] + b.v[i]) : src.v[i]); return r;
}
SIMW_FN __m512i _mm512_mask_sub_epi64(__m512i src, __mmask8 k, __m512i a, __m512i b)
{
    __m512i r; SIMW_LOOP8(((k >> i) & 1) ? (a.v[i] - b.v[i]) : src.v[i]); return r;
}
SIMW_FN __m512i _mm512_mask_blend_epi32(__mmask16 k, __m512i a, __m512i b)
{
    __m512i r;
    for (int i = 0; i < 8; i++)
    {
        uint64_t l = ((k >> (2 * i)) & 1) ? simw::lo(b.v[i]) : simw::lo(a.v[i]);
        uint64_t h = ((k >> (2 * i + 1)) & 1) ? simw::hi(b.v[i]) : simw::hi(a.v[i]);
        r.v[i] = simw::mk(h, l);
    }
    return r;
}
SIMW_FN __m512i _mm512_permutex2var_epi64(__m512i a, __m512i idx, __m512i b)
{
    __m512i r;
    for (int i = 0; i < 8; i++)
    {
        unsigned s = (unsigned)(idx.v[i] & 0xF);
        r.v[i] = (s & 8) ? b.v[s & 7] : a.v[s & 7];
    }
    return r;
}
SIMW_FN __m512i _mm512_unpacklo_pd(__m512i a, __m512i b)
{
    __m512i r;
    for (int k = 0; k < 4; k++) { r.v[2 * k] = a.v[2 * k]; r.v[2 * k + 1] = b.v[2 * k]; }
    return r;
}
SIMW_FN __m512i _mm512_unpackhi_pd(__m512i a, __m512i b)
{
    __m512i r;
    for (int k = 0; k < 4; k++) { r.v[2 * k] = a.v[2 * k + 1]; r.v[2 * k + 1] = b.v[2 * k + 1]; }
    return r;
}

// ---- further AVX-512 intrinsics an edit might reach for
SIMW_FN __m512i _mm512_setzero_si512(void) { __m512i r; for (int i = 0; i < 8; i++) r.v[i] = 0; return r; }
SIMW_FN __m512i _mm512_permutex_epi64(__m512i a, int imm) { __m512i r; for (int h = 0; h < 2; h++) for (int i = 0; i < 4; i++) r.v[4 * h + i] = a.v[4 * h + ((imm >> (2 * i)) & 3)]; return r; }
SIMW_FN __m512i _mm512_permutexvar_epi64(__m512i idx, __m512i a) { __m512i r; for (int i = 0; i < 8; i++) r.v[i] = a.v[idx.v[i] & 7]; return r; }
SIMW_FN __m512i _mm512_shuffle_i64x2(__m512i a, __m512i b, int imm)
{
    __m512i r;
    for (int k = 0; k < 4; k++) { const uint64_t *s = (k < 2) ? a.v : b.v; int sel = (imm >> (2 * k)) & 3; r.v[2 * k] = s[2 * sel]; r.v[2 * k + 1] = s[2 * sel + 1]; }
    return r;
}
SIMW_FN __m512i _mm512_alignr_epi64(__m512i a, __m512i b, int imm) { __m512i r; for (int i = 0; i < 8; i++) { int j = i + (imm & 7); r.v[i] = j < 8 ? b.v[j] : a.v[j - 8]; } return r; }
SIMW_FN __m512i _mm512_unpacklo_epi64(__m512i a, __m512i b) { return _mm512_unpacklo_pd(a, b); }
SIMW_FN __m512i _mm512_unpackhi_epi64(__m512i a, __m512i b) { return _mm512_unpackhi_pd(a, b); }
SIMW_FN __m512i _mm512_mask_mov_epi64(__m512i src, __mmask8 k, __m512i a) { __m512i r; SIMW_LOOP8(((k >> i) & 1) ? a.v[i] : src.v[i]); return r; }
SIMW_FN __m512i _mm512_maskz_mov_epi64(__mmask8 k, __m512i a) { __m512i r; SIMW_LOOP8(((k >> i) & 1) ? a.v[i] : 0); return r; }
SIMW_FN __m512i _mm512_mask_blend_epi64(__mmask8 k, __m512i a, __m512i b) { __m512i r; SIMW_LOOP8(((k >> i) & 1) ? b.v[i] : a.v[i]); return r; }
SIMW_FN __mmask8 _mm512_cmpeq_epu64_mask(__m512i a, __m512i b) { unsigned m = 0; for (int i = 0; i < 8; i++) { bool g = (a.v[i] & simw::LM) == (b.v[i] & simw::LM); simw::sigbit(i, g); m |= (unsigned)g << i; } return (__mmask8)m; }
SIMW_FN __mmask8 _mm512_cmpneq_epu64_mask(__m512i a, __m512i b) { return (__mmask8)~_mm512_cmpeq_epu64_mask(a, b); }
SIMW_FN __m256i _mm512_castsi512_si256(__m512i a) { __m256i r; for (int i = 0; i < 4; i++) r.v[i] = a.v[i]; return r; }
SIMW_FN __m256i _mm512_extracti64x4_epi64(__m512i a, int h) { __m256i r; for (int i = 0; i < 4; i++) r.v[i] = a.v[4 * (h & 1) + i]; return r; }
SIMW_FN __m512i _mm512_castsi256_si512(__m256i a) { __m512i r; for (int i = 0; i < 8; i++) r.v[i] = i < 4 ? a.v[i] : 0; return r; }
SIMW_FN __m512i _mm512_inserti64x4(__m512i a, __m256i b, int h) { __m512i r = a; for (int i = 0; i < 4; i++) r.v[4 * (h & 1) + i] = b.v[i]; return r; }
SIMW_FN __m512i _mm512_broadcast_i64x4(__m256i a) { __m512i r; for (int i = 0; i < 8; i++) r.v[i] = a.v[i & 3]; return r; }
SIMW_FN __m512i _mm512_shuffle_epi32(__m512i a, int imm)
{
    __m512i r;
    for (int l = 0; l < 4; l++)
    {
        uint64_t e[4] = {simw::lo(a.v[2 * l]), simw::hi(a.v[2 * l]), simw::lo(a.v[2 * l + 1]), simw::hi(a.v[2 * l + 1])};
        uint64_t o[4];
        for (int i = 0; i < 4; i++) o[i] = e[(imm >> (2 * i)) & 3];
        r.v[2 * l] = simw::mk(o[1], o[0]);
        r.v[2 * l + 1] = simw::mk(o[3], o[2]);
    }
    return r;
}
SIMW_FN long long _mm512_reduce_add_epi64(__m512i a) { uint64_t s = 0; for (int i = 0; i < 8; i++) s += a.v[i]; return (long long)(s & simw::LM); }
#endif
