// Width-scaled constants for the scaled source copy (see scale_tree.py).
#ifndef SIMW_CONSTS_H
#define SIMW_CONSTS_H
#include <stdint.h>
#ifndef VW
#define VW 32
#endif
#if VW == 32
#define SIMW_P 0xFFFFFFFF00000001ULL
#define SIMW_PN 0xFFFFFFFFULL
#define SIMW_MSB 0x8000000000000000ULL
#define SIMW_SQMASK 0x1FFFFFFFFULL
#else
#define SIMW_P ((1ULL << (2 * VW)) - (1ULL << VW) + 1ULL)
#define SIMW_PN ((1ULL << VW) - 1ULL)
#define SIMW_MSB (1ULL << (2 * VW - 1))
#define SIMW_SQMASK ((1ULL << (VW + 1)) - 1ULL)
#endif
// Half-word rule: a 32-bit half h of a 64-bit constant maps to a w-bit half:
//   h < 2^16 (small)            -> h           (must fit w bits)
//   h >= 2^32 - 2^16 (near top) -> h - 2^32 + 2^w
//   h == 2^31                   -> 2^(w-1)
constexpr uint64_t simw_half(uint64_t h)
{
    return (VW == 32) ? h
           : (h < 0x10000ULL) ? ((h < (1ULL << VW)) ? h : throw "half does not fit")
           : (h >= 0xFFFF0000ULL) ? ((0x100000000ULL - h) < (1ULL << VW) ? (h + (1ULL << VW) - 0x100000000ULL) : throw "half does not fit")
           : (h == 0x80000000ULL) ? (1ULL << (VW - 1))
                                  : throw "unknown half-word pattern";
}
constexpr uint64_t simw_scale64(uint64_t x) { return (simw_half(x >> 32) << VW) | simw_half(x & 0xFFFFFFFFULL); }
#define SIMW_SCALE64(x) simw_scale64(x)
#define SIMW_RED(x) ((uint64_t)(x) % SIMW_P)
#endif
