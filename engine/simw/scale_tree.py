#!/usr/bin/env python3
"""Width-scaled copy of the library source (engine E2 'simw').

scale_tree.py <repo_src_dir> <out_dir>

Copies every file of src/ and rewrites *only* the width-carrying parts, by rule:
  * #define GOLDILOCKS_PRIME / GOLDILOCKS_PRIME_NEG / MSB_  -> SIMW_P / SIMW_PN / SIMW_MSB
  * literal 0x1FFFFFFFF                                   -> SIMW_SQMASK
  * 16-hex-digit initialisers of the Element constants in goldilocks_base_field.cpp
      {(uint64_t)0x....LL} -> {SIMW_SCALE64(0x....ULL)}  (half-word rule, see simw_consts.h)
  * Poseidon tables (non-Montgomery section): {0x...} -> {SIMW_RED(0x...ULL)} (value mod p_w)
  * every __asm__(...) statement -> C++ generated from its text (x86-64 subset, registers 2w bits)
The generated code is valid for every VW (selected at compile time with -DVW=w);
with VW=32 it is bit-exact to the original (checked by the conformance harness).
Anything the rules do not recognise makes the script fail (exit 3) so the caller can
report the scaled tier as unavailable instead of guessing.
"""
import os, re, sys, shutil


class Unsupported(Exception):
    pass


REG64 = {'rax', 'rbx', 'rcx', 'rdx', 'rsi', 'rdi', 'r8', 'r9', 'r10', 'r11', 'r12', 'r13', 'r14', 'r15'}
REG32 = {'eax': 'rax', 'ebx': 'rbx', 'ecx': 'rcx', 'edx': 'rdx', 'esi': 'rsi', 'edi': 'rdi',
         'r8d': 'r8', 'r9d': 'r9', 'r10d': 'r10', 'r11d': 'r11'}


def split_top(s, sep):
    """split s at separator chars that are outside quotes and parentheses"""
    out, cur, depth, inq = [], '', 0, False
    i = 0
    while i < len(s):
        c = s[i]
        if inq:
            cur += c
            if c == '\\':
                cur += s[i + 1]
                i += 1
            elif c == '"':
                inq = False
        elif c == '"':
            inq = True
            cur += c
        elif c in '([':
            depth += 1
            cur += c
        elif c in ')]':
            depth -= 1
            cur += c
        elif c == sep and depth == 0:
            out.append(cur)
            cur = ''
        else:
            cur += c
        i += 1
    out.append(cur)
    return out


def strip_comments(s):
    s = re.sub(r'/\*.*?\*/', '', s, flags=re.S)
    out = []
    for line in s.split('\n'):
        # remove // comments outside string literals
        res, inq, i = '', False, 0
        while i < len(line):
            c = line[i]
            if inq:
                res += c
                if c == '\\' and i + 1 < len(line):
                    res += line[i + 1]
                    i += 1
                elif c == '"':
                    inq = False
            elif c == '"':
                inq = True
                res += c
            elif c == '/' and i + 1 < len(line) and line[i + 1] == '/':
                break
            else:
                res += c
            i += 1
        out.append(res)
    return '\n'.join(out)


def parse_operands(sec):
    ops = []
    sec = sec.strip()
    if not sec:
        return ops
    for item in split_top(sec, ','):
        item = item.strip()
        m = re.match(r'"([^"]*)"\s*\((.*)\)\s*$', item, flags=re.S)
        if not m:
            raise Unsupported('operand: ' + item)
        ops.append((m.group(1), m.group(2).strip()))
    return ops


class AsmGen:
    def __init__(self, blockid):
        self.id = blockid
        self.lines = []

    def operand(self, tok, opmap, as_dst=False):
        """returns (kind, cexpr, is32) ; kind in reg/mem/imm"""
        tok = tok.strip()
        if tok.startswith('%%'):
            r = tok[2:]
            if r in REG64:
                return ('reg', 'R.' + r, False)
            if r in REG32:
                return ('reg', 'R.' + REG32[r], True)
            raise Unsupported('register ' + tok)
        if tok.startswith('%'):
            n = int(tok[1:])
            return opmap[n]
        if tok.startswith('$'):
            return ('imm', tok[1:], False)
        raise Unsupported('operand token ' + tok)

    def gen(self, text, outs, ins):
        L = self.lines
        L.append('{ /* generated from inline asm block %s */' % self.id)
        L.append('  simw_asm::Regs R;')
        opmap = {}
        n = 0
        post = []
        for (c, e) in outs:
            cc = c.replace('=', '').replace('&', '').replace('+', '')
            if cc == 'a':
                opmap[n] = ('reg', 'R.rax', False)
                post.append('(%s) = R.rax;' % e)
            elif cc == 'd':
                opmap[n] = ('reg', 'R.rdx', False)
                post.append('(%s) = R.rdx;' % e)
            elif cc == 'r':
                L.append('  simw_asm::u64 simw_o%d = 0;' % n)
                opmap[n] = ('reg', 'simw_o%d' % n, False)
                post.append('(%s) = simw_o%d;' % (e, n))
            else:
                raise Unsupported('output constraint ' + c)
            n += 1
        for (c, e) in ins:
            if c == 'r':
                L.append('  simw_asm::u64 simw_i%d = simw_asm::rd(%s);' % (n, e))
                opmap[n] = ('reg', 'simw_i%d' % n, False)
            elif c == 'm':
                L.append('  const simw_asm::u64 simw_i%d = simw_asm::rdmem(&(%s));' % (n, e))
                opmap[n] = ('mem', 'simw_i%d' % n, False)
            else:
                raise Unsupported('input constraint ' + c)
            n += 1
        labels_used = set()
        for ins_ in [x.strip() for x in re.split(r'\\n\\t|\\n|;', text)]:
            if not ins_:
                continue
            m = re.match(r'^(\d+):$', ins_)
            if m:
                L.append('  simw_L%s_%s: ;' % (self.id, m.group(1)))
                continue
            m = re.match(r'^(\w+)\s*(.*)$', ins_)
            mn, rest = m.group(1), m.group(2)
            args = [a.strip() for a in rest.split(',')] if rest.strip() else []
            if mn in ('jnc', 'jc', 'jae', 'jb', 'jnb', 'jz', 'je', 'jnz', 'jne', 'jmp'):
                lab = re.match(r'^(\d+)[fb]$', args[0])
                if not lab:
                    raise Unsupported('jump target ' + args[0])
                cond = {'jnc': '!R.cf', 'jae': '!R.cf', 'jnb': '!R.cf', 'jc': 'R.cf', 'jb': 'R.cf', 'jz': 'R.zf', 'je': 'R.zf', 'jnz': '!R.zf', 'jne': '!R.zf', 'jmp': 'true'}[mn]
                if mn == 'jmp':
                    L.append('  goto simw_L%s_%s;' % (self.id, lab.group(1)))
                else:
                    flag = 'R.zf' if 'z' in mn or mn in ('je', 'jne') else 'R.cf'
                    L.append('  simw_asm::sig(%s); if (%s) goto simw_L%s_%s;' % (flag, cond, self.id, lab.group(1)))
                continue
            if mn in ('mul', 'mulq'):
                k, e, is32 = self.operand(args[0], opmap)
                L.append('  simw_asm::mul(R, %s);' % e)
                continue
            if mn in ('divq', 'div'):
                k, e, is32 = self.operand(args[0], opmap)
                L.append('  simw_asm::div(R, %s);' % e)
                continue
            if mn in ('neg', 'not', 'inc', 'dec') and len(args) == 1:
                dk, de, d32 = self.operand(args[0], opmap)
                if dk != 'reg':
                    raise Unsupported('non-register operand in ' + ins_)
                L.append('  simw_asm::%s_(R, %s);' % (mn, de))
                continue
            if len(args) != 2:
                raise Unsupported('instruction ' + ins_)
            sk, se, s32 = self.operand(args[0], opmap)
            dk, de, d32 = self.operand(args[1], opmap)
            if dk != 'reg':
                raise Unsupported('non-register destination in ' + ins_)
            if mn == 'mov':
                if d32 or s32:
                    L.append('  %s = simw_asm::lo(%s);' % (de, se))
                else:
                    L.append('  %s = %s;' % (de, se))
            elif mn == 'xor':
                L.append('  %s = (%s ^ %s) & simw_asm::LM; R.cf = false; R.zf = (%s == 0);' % (de, de, se, de))
            elif mn == 'add':
                L.append('  simw_asm::add(R, %s, %s, false);' % (de, se))
            elif mn == 'adc':
                L.append('  simw_asm::add(R, %s, %s, true);' % (de, se))
            elif mn == 'sub':
                L.append('  simw_asm::sub(R, %s, %s);' % (de, se))
            elif mn == 'sbb':
                L.append('  simw_asm::sbb(R, %s, %s);' % (de, se))
            elif mn == 'cmp':
                L.append('  simw_asm::cmp(R, %s, %s);' % (de, se))
            elif mn == 'test':
                L.append('  simw_asm::test(R, %s, %s);' % (de, se))
            elif mn in ('and', 'or'):
                L.append('  simw_asm::logic(R, %s, %s, %d);' % (de, se, 0 if mn == 'and' else 1))
            elif mn in ('shl', 'shr', 'sal'):
                if sk != 'imm':
                    raise Unsupported('shift count ' + ins_)
                L.append('  simw_asm::shift(R, %s, %s, %d);' % (de, se, 0 if mn in ('shl', 'sal') else 1))
            elif mn in ('cmovz', 'cmove'):
                L.append('  simw_asm::sig(R.zf); if (R.zf) %s = %s;' % (de, se))
            elif mn in ('cmovnz', 'cmovne'):
                L.append('  simw_asm::sig(R.zf); if (!R.zf) %s = %s;' % (de, se))
            elif mn in ('cmovb',):
                L.append('  simw_asm::sig(R.cf); if (R.cf) %s = %s;' % (de, se))
            elif mn in ('cmovae', 'cmovnb'):
                L.append('  simw_asm::sig(R.cf); if (!R.cf) %s = %s;' % (de, se))
            elif mn == 'cmovc':
                L.append('  simw_asm::sig(R.cf); if (R.cf) %s = %s;' % (de, se))
            elif mn == 'cmovnc':
                L.append('  simw_asm::sig(R.cf); if (!R.cf) %s = %s;' % (de, se))
            elif mn == 'rol':
                if sk != 'imm':
                    raise Unsupported('rol count ' + ins_)
                L.append('  simw_asm::rol(R, %s, %s);' % (de, se))
            else:
                raise Unsupported('mnemonic ' + mn)
        for p in post:
            L.append('  ' + p)
        L.append('}')
        return '\n'.join(L)


def translate_asm(src, fname):
    out, pos, blk = '', 0, 0
    while True:
        m = re.search(r'__asm__\s*(?:volatile\s*)?\(', src[pos:])
        if not m:
            out += src[pos:]
            break
        start = pos + m.start()
        i = pos + m.end()
        depth, inq = 1, False
        while depth:
            c = src[i]
            if inq:
                if c == '\\':
                    i += 1
                elif c == '"':
                    inq = False
            elif c == '"':
                inq = True
            elif c == '(':
                depth += 1
            elif c == ')':
                depth -= 1
            elif c == '/' and src[i + 1] == '/':
                while src[i] != '\n':
                    i += 1
            i += 1
        body = src[pos + m.end():i - 1]
        # swallow the trailing ';'
        j = i
        while src[j] in ' \t\n':
            j += 1
        if src[j] != ';':
            raise Unsupported('asm statement end in ' + fname)
        body = strip_comments(body)
        secs = split_top(body, ':')
        text = ''.join(re.findall(r'"((?:[^"\\]|\\.)*)"', secs[0]))
        outs = parse_operands(secs[1]) if len(secs) > 1 else []
        ins = parse_operands(secs[2]) if len(secs) > 2 else []
        blk += 1
        gen = AsmGen('%s_%d' % (re.sub(r'\W', '_', os.path.basename(fname)), blk)).gen(text, outs, ins)
        out += src[pos:start] + gen
        pos = j + 1
    return out, blk


def main():
    srcdir, outdir = sys.argv[1], sys.argv[2]
    os.makedirs(outdir, exist_ok=True)
    report = {'asm_blocks': 0, 'consts': 0, 'tables': 0}
    for fn in sorted(os.listdir(srcdir)):
        p = os.path.join(srcdir, fn)
        if not os.path.isfile(p) or not re.search(r'\.(hpp|cpp|h)$', fn):
            continue
        s = open(p).read()
        if fn == 'goldilocks_base_field.hpp':
            for name, repl in (('GOLDILOCKS_PRIME', 'SIMW_P'), ('GOLDILOCKS_PRIME_NEG', 'SIMW_PN'), ('MSB_', 'SIMW_MSB')):
                s, k = re.subn(r'(#define\s+%s\s+)0x[0-9A-Fa-f]+(ULL|LL|UL)?' % name, r'\g<1>%s' % repl, s)
                if k != 1:
                    raise Unsupported('define ' + name)
                report['consts'] += 1
            s = '#include "simw_consts.h"\n' + s
        if fn == 'goldilocks_base_field.cpp':
            s, k = re.subn(r'\{\s*(?:\(uint64_t\))?\s*0[xX]([0-9A-Fa-f]{16})(?:ULL|LL)?\s*\}', r'{SIMW_SCALE64(0x\1ULL)}', s)
            report['consts'] += k
            if k < 9:
                raise Unsupported('base field constants: only %d matched' % k)
        if fn == 'poseidon_goldilocks_constants.hpp':
            head, sep, tail = s.partition('#else')
            if not sep:
                raise Unsupported('poseidon constants layout')
            tail, k = re.subn(r'\{\s*0x([0-9A-Fa-f]+)\s*\}', r'{SIMW_RED(0x\1ULL)}', tail)
            report['tables'] += k
            s = '#include "simw_consts.h"\n' + head + sep + tail
        s, k = re.subn(r'\b0x1FFFFFFFF\b', 'SIMW_SQMASK', s)
        report['consts'] += k
        if '__asm__' in s:
            s, k = translate_asm(s, fn)
            report['asm_blocks'] += k
            s = '#include "simw_asm.h"\n' + s
        # any other 64-bit hex literal is unknown to the rules -> list it (decided by the caller)
        open(os.path.join(outdir, fn), 'w').write(s)
    here = os.path.dirname(os.path.abspath(__file__))
    for h in ('simw_consts.h', 'simw_asm.h'):
        shutil.copy(os.path.join(here, h), os.path.join(outdir, h))
    print('SCALED asm_blocks=%(asm_blocks)d consts=%(consts)d tables=%(tables)d' % report)


if __name__ == '__main__':
    try:
        main()
    except Unsupported as e:
        print('UNSUPPORTED ' + str(e))
        sys.exit(3)
