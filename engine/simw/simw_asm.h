// Semantics of the x86-64 instruction subset used by the library's inline asm,
// on registers of 2w bits (w = VW).  With VW = 32 this is the hardware semantics.
#ifndef SIMW_ASM_H
#define SIMW_ASM_H
#include <stdint.h>
#include <stdlib.h>
#include <stdio.h>
#ifndef VW
#define VW 32
#endif
namespace simw_asm
{
typedef uint64_t u64;
typedef unsigned __int128 u128;
static const u64 HM = (VW == 32) ? 0xFFFFFFFFULL : ((1ULL << VW) - 1);
static const u64 LM = (VW == 32) ? 0xFFFFFFFFFFFFFFFFULL : ((1ULL << ((2 * VW) % 64)) - 1);
struct Regs
{
    u64 rax = 0, rbx = 0, rcx = 0, rdx = 0, rsi = 0, rdi = 0, r8 = 0, r9 = 0, r10 = 0, r11 = 0, r12 = 0, r13 = 0, r14 = 0, r15 = 0;
    bool cf = false, zf = false;
};
#ifdef SIMW_SIG
extern thread_local u64 asig;
static inline void sig(bool b) { asig = (asig << 1) | (b ? 1 : 0); }
static inline void sig_reset() { asig = 1; }
#else
static inline void sig(bool) {}
static inline void sig_reset() {}
#endif
static inline u64 rd(u64 x) { return x & LM; }
template <class T> static inline u64 rdmem(const T *p) { return (*(const u64 *)p) & LM; }
static inline u64 lo(u64 x) { return x & HM; }
static inline void add(Regs &R, u64 &dst, u64 src, bool with_carry)
{
    u128 s = (u128)(dst & LM) + (src & LM) + ((with_carry && R.cf) ? 1 : 0);
    R.cf = (VW == 32) ? (s >> 64) != 0 : ((s >> (2 * VW)) & 1) != 0;
    dst = (u64)s & LM;
    R.zf = dst == 0;
}
static inline void sub(Regs &R, u64 &dst, u64 src)
{
    u64 a = dst & LM, b = src & LM;
    R.cf = a < b;
    dst = (a - b) & LM;
    R.zf = dst == 0;
}
static inline void sbb(Regs &R, u64 &dst, u64 src)
{
    u128 a = dst & LM, b = (u128)(src & LM) + (R.cf ? 1 : 0);
    R.cf = a < b;
    dst = (u64)(a - b) & LM;
    R.zf = dst == 0;
}
static inline void cmp(Regs &R, u64 dst, u64 src) { u64 a = dst & LM, b = src & LM; R.cf = a < b; R.zf = a == b; }
static inline void test(Regs &R, u64 dst, u64 src) { R.cf = false; R.zf = ((dst & src) & LM) == 0; }
static inline void logic(Regs &R, u64 &dst, u64 src, int which) { dst = (which == 0 ? (dst & src) : (dst | src)) & LM; R.cf = false; R.zf = dst == 0; }
static inline void neg_(Regs &R, u64 &dst) { u64 a = dst & LM; R.cf = a != 0; dst = (0 - a) & LM; R.zf = dst == 0; }
static inline void not_(Regs &, u64 &dst) { dst = (~dst) & LM; }
static inline void inc_(Regs &R, u64 &dst) { dst = (dst + 1) & LM; R.zf = dst == 0; }
static inline void dec_(Regs &R, u64 &dst) { dst = (dst - 1) & LM; R.zf = dst == 0; }
static inline void shift(Regs &R, u64 &dst, unsigned count, int right)
{
    // counts written for 64-bit registers: 32q + r -> wq + r
    unsigned c = count;
    if (VW != 32) { if (c >= 48) c = 2 * VW - (64 - c); else if (c >= 16) c = (unsigned)((int)VW + ((int)c - 32)); }
    u64 x = dst & LM;
    if (c == 0) return;
    if (c >= 2 * VW) { R.cf = false; dst = 0; R.zf = true; return; }
    if (right) { R.cf = (x >> (c - 1)) & 1; x >>= c; }
    else { R.cf = (x >> (2 * VW - c)) & 1; x = (x << c) & LM; }
    dst = x;
    R.zf = x == 0;
}
static inline void mul(Regs &R, u64 src)
{
    u128 p = (u128)(R.rax & LM) * (src & LM);
    R.rax = (u64)p & LM;
    R.rdx = (VW == 32) ? (u64)(p >> 64) : ((u64)(p >> (2 * VW)) & LM);
    R.cf = R.rdx != 0;
}
static inline void div(Regs &R, u64 src)
{
    u128 n = (VW == 32) ? (((u128)R.rdx << 64) | R.rax) : (((u128)(R.rdx & LM) << (2 * VW)) | (R.rax & LM));
    src &= LM;
    if (src == 0) { fprintf(stderr, "simw_asm: #DE divide by zero\n"); abort(); }
    u128 q = n / src;
    if ((VW == 32) ? (q >> 64) != 0 : (q >> (2 * VW)) != 0) { fprintf(stderr, "simw_asm: #DE quotient overflow\n"); abort(); }
    R.rax = (u64)q & LM;
    R.rdx = (u64)(n % src) & LM;
}
static inline void rol(Regs &R, u64 &dst, unsigned count)
{
    // counts are written for 64-bit registers: 32 -> w
    unsigned c = (VW == 32) ? count : (count == 32 ? VW : count);
    c %= (2 * VW);
    u64 x = dst & LM;
    if (c) x = ((x << c) | (x >> (2 * VW - c))) & LM;
    dst = x;
    R.cf = x & 1;
}
} // namespace simw_asm
#endif
