// Common harness support: reporting protocol, oracle arithmetic, alphabets,
// crash-isolating runner.  Header-only; every harness includes it.
//
// Reporting protocol (stdout, one record per line, consumed by lib/driver.py):
//   STAT <key> <int>                 counters, summed over harness runs
//   SAMPLE <json>                    an actual explored case, written out
//   VIOL <sig>\t<case>\t<detail>     a failing case: signature, replay string, text
//   UNCOVERED <text>                 something the harness could not judge (never an alarm)
//   INFO <key> <text>
#pragma once
#include <stdint.h>
#include <stdio.h>
#include <stdarg.h>
#include <stdlib.h>
#include <string.h>
#include <string>
#include <vector>
#include <map>
#include <set>
#include <mutex>
#include <atomic>
#include <functional>
#include <algorithm>
#include <unistd.h>
#include <signal.h>
#include <sys/wait.h>
#include <sys/mman.h>
#include <poll.h>
#include <errno.h>

typedef unsigned __int128 u128;
typedef uint64_t u64;

namespace vc
{
// ---------------------------------------------------------------- args
struct Args
{
    std::string tier = "quick";
    uint64_t seed = 0;
    std::string one;    // replay exactly this case string
    std::string part;   // harness-specific sub-selection
    int jobs = 16;
    std::map<std::string, std::string> kv;
    bool thorough() const { return tier == "thorough"; }
    long num(const char *k, long dflt) const
    {
        auto it = kv.find(k);
        return it == kv.end() ? dflt : strtol(it->second.c_str(), 0, 0);
    }
};
inline Args parse_args(int argc, char **argv)
{
    Args a;
    for (int i = 1; i < argc; i++)
    {
        std::string s = argv[i];
        auto nxt = [&]() -> std::string { return i + 1 < argc ? argv[++i] : ""; };
        if (s == "--tier") a.tier = nxt();
        else if (s == "--seed") a.seed = strtoull(nxt().c_str(), 0, 0);
        else if (s == "--one") a.one = nxt();
        else if (s == "--part") a.part = nxt();
        else if (s == "--jobs") a.jobs = atoi(nxt().c_str());
        else if (s.rfind("--", 0) == 0) { std::string k = s.substr(2); a.kv[k] = nxt(); }
    }
    if (a.jobs < 1) a.jobs = 1;
    return a;
}

// ---------------------------------------------------------------- reporting
struct Reporter
{
    std::mutex mu;
    std::map<std::string, long long> stats;
    std::map<std::string, int> viol_per_sig;
    std::map<std::string, int> samples_per_kind;
    long long nviol = 0;
    int max_per_sig = 3; // print at most this many cases per signature (all are counted)

    void stat(const std::string &k, long long n = 1)
    {
        std::lock_guard<std::mutex> g(mu);
        stats[k] += n;
    }
    void sample(const std::string &kind, const std::string &json, int maxn = 2)
    {
        std::lock_guard<std::mutex> g(mu);
        if (samples_per_kind[kind]++ < maxn)
            printf("SAMPLE {\"kind\":\"%s\",%s}\n", kind.c_str(), json.c_str());
    }
    void viol(const std::string &sig_, const std::string &cas, const std::string &detail)
    {
        std::string sig = sig_; // a signature is one token: no blanks
        for (char &c : sig) if (c == ' ' || c == '\t' || c == '\n') c = '_';
        if (sig.size() > 160) sig.resize(160);
        std::lock_guard<std::mutex> g(mu);
        nviol++;
        stats["violations_seen"]++;
        if (viol_per_sig[sig]++ < max_per_sig)
        {
            printf("VIOL %s\t%s\t%s\n", sig.c_str(), cas.c_str(), detail.c_str());
            fflush(stdout);
        }
    }
    void uncovered(const std::string &t)
    {
        std::lock_guard<std::mutex> g(mu);
        printf("UNCOVERED %s\n", t.c_str());
    }
    void info(const std::string &k, const std::string &t)
    {
        std::lock_guard<std::mutex> g(mu);
        printf("INFO %s %s\n", k.c_str(), t.c_str());
    }
    void reset() // in a forked child: forget what the parent had accumulated
    {
        stats.clear();
        viol_per_sig.clear();
        samples_per_kind.clear();
        nviol = 0;
    }
    void flush()
    {
        std::lock_guard<std::mutex> g(mu);
        for (auto &kv : stats) printf("STAT %s %lld\n", kv.first.c_str(), kv.second);
        for (auto &kv : viol_per_sig) printf("STAT viol_sig:%s %d\n", kv.first.c_str(), kv.second);
        stats.clear();
        viol_per_sig.clear();
        fflush(stdout);
    }
};
inline Reporter &rep()
{
    static Reporter r;
    return r;
}

inline std::string hex(u64 x)
{
    char b[32];
    snprintf(b, sizeof b, "0x%llx", (unsigned long long)x);
    return b;
}
inline std::string dec(long long x)
{
    char b[32];
    snprintf(b, sizeof b, "%lld", x);
    return b;
}
inline std::string fmt(const char *f, ...) __attribute__((format(printf, 1, 2)));
inline std::string fmt(const char *f, ...)
{
    char b[2048];
    va_list ap;
    va_start(ap, f);
    vsnprintf(b, sizeof b, f, ap);
    va_end(ap);
    return b;
}
// split "k=v k2=v2" case strings
inline std::map<std::string, std::string> parse_case(const std::string &s)
{
    std::map<std::string, std::string> m;
    size_t i = 0;
    while (i < s.size())
    {
        while (i < s.size() && s[i] == ' ') i++;
        size_t j = s.find(' ', i);
        if (j == std::string::npos) j = s.size();
        std::string tok = s.substr(i, j - i);
        size_t e = tok.find('=');
        if (e != std::string::npos) m[tok.substr(0, e)] = tok.substr(e + 1);
        else if (!tok.empty()) m[tok] = "";
        i = j;
    }
    return m;
}
inline u64 cu(const std::map<std::string, std::string> &m, const char *k, u64 d = 0)
{
    auto it = m.find(k);
    return it == m.end() ? d : strtoull(it->second.c_str(), 0, 0);
}
inline std::string cs(const std::map<std::string, std::string> &m, const char *k, const char *d = "")
{
    auto it = m.find(k);
    return it == m.end() ? d : it->second;
}
inline std::vector<u64> culist(const std::map<std::string, std::string> &m, const char *k)
{
    std::vector<u64> v;
    auto it = m.find(k);
    if (it == m.end()) return v;
    const char *p = it->second.c_str();
    while (*p)
    {
        char *e;
        v.push_back(strtoull(p, &e, 0));
        p = (*e == ',') ? e + 1 : e;
        if (e == p && *p) break;
    }
    return v;
}
inline std::string joinhex(const u64 *v, size_t n)
{
    std::string s;
    for (size_t i = 0; i < n; i++) { if (i) s += ","; s += hex(v[i]); }
    return s;
}

// ---------------------------------------------------------------- oracle arithmetic
// Field/ring Z/P for a modulus given at run time (P = 2^2w - 2^w + 1).
struct Mod
{
    u64 P;
    explicit Mod(u64 p) : P(p) {}
    u64 red(u128 x) const { return (u64)(x % P); }
    u64 add(u64 a, u64 b) const { return red((u128)a + b); }
    u64 sub(u64 a, u64 b) const { return red((u128)(a % P) + P - (b % P)); }
    u64 mul(u64 a, u64 b) const { return red((u128)(a % P) * (b % P)); }
    u64 neg(u64 a) const { return (P - a % P) % P; }
    u64 pow(u64 a, u64 e) const
    {
        u64 r = 1 % P, b = a % P;
        while (e) { if (e & 1) r = mul(r, b); b = mul(b, b); e >>= 1; }
        return r;
    }
    u64 inv(u64 a) const { return pow(a, P - 2); } // P prime only
};
static const u64 GP = 0xFFFFFFFF00000001ULL;
inline u64 pw(unsigned w) { return w == 32 ? GP : ((1ULL << (2 * w)) - (1ULL << w) + 1); }

// ---------------------------------------------------------------- alphabets (full width)
// Half-word boundary sets; alphabet = H x H as (hi<<32)|lo.
inline std::vector<uint32_t> halfwords(bool thorough)
{
    std::vector<uint32_t> h = {0u, 1u, 2u, 0x7FFFFFFEu, 0x7FFFFFFFu, 0x80000000u, 0x80000001u,
                               0xFFFFFFFDu, 0xFFFFFFFEu, 0xFFFFFFFFu, 0xFFFFu, 0x10000u,
                               0xFFFF0000u, 0x55555555u, 0xAAAAAAAAu, 0x33333333u};
    if (thorough)
    {
        for (int k = 2; k < 32; k++)
        {
            h.push_back(1u << k);
            h.push_back((1u << k) - 1);
        }
        uint32_t more[] = {3u, 0xFFu, 0x100u, 0xCCCCCCCCu, 0x12345678u, 0x9ABCDEF0u, 0xDEADBEEFu,
                           0x0F0F0F0Fu, 0xF0F0F0F0u, 0xFFFFFFFCu, 0x80000002u, 0x7FFFFFFDu, 0xFFFEFFFFu, 0x00010001u};
        for (uint32_t x : more) h.push_back(x);
    }
    std::sort(h.begin(), h.end());
    h.erase(std::unique(h.begin(), h.end()), h.end());
    return h;
}
inline std::vector<u64> alphabet(bool thorough)
{
    std::vector<uint32_t> h = halfwords(thorough);
    std::vector<u64> a;
    for (uint32_t hi : h)
        for (uint32_t lo : h) a.push_back(((u64)hi << 32) | lo);
    // explicit extras
    u64 ex[] = {GP - 2, GP - 1, GP, GP + 1, GP + 2, (GP - 1) / 2, (GP + 1) / 2, (GP - 1) / 2 - 1, (GP + 1) / 2 + 1,
                GP - (1ULL << 31), GP - (1ULL << 31) + 1, GP - (1ULL << 31) - 1, 0xFFFFFFFFFFFFFFFFULL,
                0x5555555555555555ULL, 3, 7, 0xFFFFFFFFULL, 0x100000000ULL, 0xFFFFFFFEFFFFFFFFULL, 0xFFFFFFFE00000001ULL,
                0xFFFFFFFE00000002ULL, 0x7FFFFFFF80000000ULL, 0x7FFFFFFF80000001ULL};
    for (u64 x : ex) a.push_back(x);
    // every power of two and its neighbours (strength-reduced paths for "nice" operands)
    for (int k = 0; k < 64; k++) { a.push_back(1ULL << k); a.push_back((1ULL << k) - 1); a.push_back((1ULL << k) + 1); }
    std::sort(a.begin(), a.end());
    a.erase(std::unique(a.begin(), a.end()), a.end());
    return a;
}
// pairs (f, g) whose 64-bit product mod p lands in the non-canonical band when computed
// by "lo + hi*(2^32-1) ..." style reductions: f*g = 2^64-1-delta exactly.
inline std::vector<std::pair<u64, u64>> noncanon_generators()
{
    std::vector<std::pair<u64, u64>> g;
    for (u64 delta = 0; delta < 64; delta++)
    {
        u64 t = 0xFFFFFFFFFFFFFFFFULL - delta;
        if (t < GP) break;
        for (u64 f = 1; f < 4096; f++)
            if (t % f == 0) g.push_back({f, t / f});
    }
    return g;
}
// small alphabet of size n taken from boundary values (for high-arity tuples)
inline std::vector<u64> small_alphabet()
{
    return {0, 1, 2, 0xFFFFFFFFULL, 0x100000000ULL, GP - 1, GP, GP + 1, 0xFFFFFFFFFFFFFFFFULL,
            0x8000000000000000ULL, 0xFFFFFFFE00000001ULL, 0x5555555555555555ULL};
}

// ---------------------------------------------------------------- crash isolation
struct ChildResult
{
    int kind;       // 0 normal exit, 1 signal, 2 nonzero exit
    int code;       // exit code or signal number
    std::string out; // bytes the child wrote to the result pipe
    std::string err; // tail of stderr
};
// Runs fn in a forked child.  fn receives a FILE* to write its result to.
inline ChildResult run_child(const std::function<void(FILE *)> &fn, int timeout_s = 60)
{
    int po[2], pe[2];
    if (pipe(po) || pipe(pe)) { perror("pipe"); exit(3); }
    fflush(stdout);
    fflush(stderr);
    pid_t pid = fork();
    if (pid < 0) { perror("fork"); exit(3); }
    if (pid == 0)
    {
        close(po[0]);
        close(pe[0]);
        dup2(pe[1], 2);
        alarm(timeout_s);
        FILE *f = fdopen(po[1], "w");
        fn(f);
        fflush(f);
        _exit(0);
    }
    close(po[1]);
    close(pe[1]);
    ChildResult r;
    char buf[4096];
    ssize_t n;
    while ((n = read(po[0], buf, sizeof buf)) > 0) r.out.append(buf, n);
    while ((n = read(pe[0], buf, sizeof buf)) > 0)
    {
        r.err.append(buf, n);
        // keep the head (sanitizer headline) and the tail (assert text, SUMMARY line)
        if (r.err.size() > 65536) r.err = r.err.substr(0, 16384) + "\n[...]\n" + r.err.substr(r.err.size() - 16384);
    }
    close(po[0]);
    close(pe[0]);
    int st = 0;
    waitpid(pid, &st, 0);
    if (WIFSIGNALED(st)) { r.kind = 1; r.code = WTERMSIG(st); }
    else if (WEXITSTATUS(st) != 0) { r.kind = 2; r.code = WEXITSTATUS(st); }
    else { r.kind = 0; r.code = 0; }
    return r;
}
inline std::string first_line(const std::string &s)
{
    size_t i = s.find('\n');
    std::string t = i == std::string::npos ? s : s.substr(0, i);
    for (char &c : t) if (c == '\t') c = ' ';
    return t;
}

// Parallel-for over [0,n) using fork()ed workers, each handling a strided slice and
// writing protocol lines to its own pipe; parent relays them (lines are atomic per worker).
// Used where the code under test may crash or uses OpenMP itself.
inline void fork_pool(long n, int jobs, const std::function<void(long)> &body)
{
    if (jobs > n) jobs = (int)(n > 0 ? n : 1);
    std::vector<pid_t> pids;
    std::vector<int> fds;
    fflush(stdout);
    for (int j = 0; j < jobs; j++)
    {
        int p[2];
        if (pipe(p)) { perror("pipe"); exit(3); }
        pid_t pid = fork();
        if (pid == 0)
        {
            close(p[0]);
            dup2(p[1], 1);
            rep().reset();
            for (long i = j; i < n; i += jobs) body(i);
            rep().flush();
            fflush(stdout);
            _exit(0);
        }
        close(p[1]);
        pids.push_back(pid);
        fds.push_back(p[0]);
    }
    // relay: drain all worker pipes concurrently, emit each worker's output when it ends
    {
        std::vector<std::string> acc(fds.size());
        std::vector<bool> open_(fds.size(), true);
        size_t nopen = fds.size();
        std::vector<struct pollfd> pf(fds.size());
        char buf[65536];
        while (nopen)
        {
            for (size_t j = 0; j < fds.size(); j++) { pf[j].fd = open_[j] ? fds[j] : -1; pf[j].events = POLLIN; pf[j].revents = 0; }
            if (poll(pf.data(), pf.size(), -1) < 0) { if (errno == EINTR) continue; perror("poll"); exit(3); }
            for (size_t j = 0; j < fds.size(); j++)
            {
                if (!open_[j] || !(pf[j].revents & (POLLIN | POLLHUP | POLLERR))) continue;
                ssize_t k = read(fds[j], buf, sizeof buf);
                if (k > 0)
                {
                    acc[j].append(buf, k);
                    size_t nl = acc[j].rfind('\n');
                    if (nl != std::string::npos)
                    {
                        fwrite(acc[j].data(), 1, nl + 1, stdout); // whole lines only: records of different workers never mix
                        fflush(stdout);
                        acc[j].erase(0, nl + 1);
                    }
                }
                else
                {
                    close(fds[j]);
                    open_[j] = false;
                    nopen--;
                    fwrite(acc[j].data(), 1, acc[j].size(), stdout);
                    acc[j].clear();
                    int st;
                    waitpid(pids[j], &st, 0);
                    if (!WIFEXITED(st) || WEXITSTATUS(st) != 0)
                    {
                        printf("INFO worker_abnormal %d status=%d\n", (int)j, st);
                        rep().stat("framework_worker_abnormal");
                    }
                }
            }
        }
    }
    fflush(stdout);
}
// Crash-isolating parallel enumeration for code under test that may abort/segfault and
// that uses OpenMP itself.  The calling process and the workers never execute library code:
//   parent -> forks `jobs` workers -> each worker forks one grandchild per chunk of cases.
// A grandchild that ends abnormally has its output discarded and its chunk re-run one case
// per grandchild; a case that still ends abnormally is handed to on_crash (which normally
// reports a VIOL with the exact case).  body(i) prints protocol lines via rep()/printf.
inline void isolated_for(long n, int jobs, long chunk, const std::function<void(long)> &body,
                         const std::function<void(long, const ChildResult &)> &on_crash, int timeout_s = 120)
{
    if (chunk < 1) chunk = 1;
    long nchunks = (n + chunk - 1) / chunk;
    auto run_range = [&](long lo, long hi) -> ChildResult {
        return run_child([&](FILE *f) {
            int fd = fileno(f);
            fflush(stdout);
            dup2(fd, 1);
            rep().reset();
            for (long i = lo; i < hi; i++) body(i);
            rep().flush();
            fflush(stdout);
        }, timeout_s);
    };
    long crashes = 0; // per worker (each worker has its own copy after fork)
    fork_pool(nchunks, jobs, [&](long c) {
        if (crashes > 24)
        {
            // the code under test crashes on many cases: every one found so far is reported; do not spend
            // the whole time budget attributing more of them
            if (crashes == 25) { printf("INFO early-stop: worker skips its remaining cases after 25 crashing cases\n"); rep().stat("early_stop_workers"); crashes++; }
            return;
        }
        long lo = c * chunk, hi = std::min(n, lo + chunk);
        ChildResult r = run_range(lo, hi);
        if (r.kind == 0) { fwrite(r.out.data(), 1, r.out.size(), stdout); return; }
        if (hi - lo == 1) { crashes++; on_crash(lo, r); return; }
        for (long i = lo; i < hi && crashes <= 24; i++)
        {
            ChildResult r1 = run_range(i, i + 1);
            if (r1.kind == 0) fwrite(r1.out.data(), 1, r1.out.size(), stdout);
            else { crashes++; on_crash(i, r1); }
        }
    });
}
inline std::string crash_sig(const ChildResult &r)
{
    if (r.kind == 1)
    {
        if (r.code == SIGALRM) return "timeout";
        if (r.code == SIGABRT) return "abort";
        if (r.code == SIGSEGV) return "segv";
        if (r.code == SIGBUS) return "sigbus";
        if (r.code == SIGFPE) return "sigfpe";
        return "signal" + dec(r.code);
    }
    return "exit" + dec(r.code);
}
// last non-empty line of stderr, sanitised (assert text etc.)
inline std::string err_tail(const ChildResult &r)
{
    // a sanitizer SUMMARY line names the error kind and the source location: prefer it
    size_t sp = r.err.find("SUMMARY: ");
    if (sp != std::string::npos)
    {
        size_t e = r.err.find('\n', sp);
        std::string t = r.err.substr(sp, e == std::string::npos ? std::string::npos : e - sp);
        for (char &c : t) if (c == '\t') c = ' ';
        if (t.size() > 400) t.resize(400);
        // first stack frame inside the library sources (the SUMMARY may point into the sanitizer runtime)
        size_t pos = 0;
        while ((pos = r.err.find("/src/", pos)) != std::string::npos)
        {
            size_t ls = r.err.rfind('\n', pos);
            ls = (ls == std::string::npos) ? 0 : ls + 1;
            size_t le = r.err.find('\n', pos);
            std::string line = r.err.substr(ls, le == std::string::npos ? std::string::npos : le - ls);
            if (line.find("libsanitizer") == std::string::npos && line.find("    #") != std::string::npos)
            {
                size_t fs = line.rfind('/');
                std::string loc = line.substr(fs + 1);
                size_t sp2 = loc.find(' ');
                if (sp2 != std::string::npos) loc.resize(sp2);
                t += " @ " + loc;
                break;
            }
            pos = (le == std::string::npos) ? r.err.size() : le;
        }
        return t;
    }
    size_t up = r.err.find("runtime error:");
    if (up != std::string::npos)
    {
        size_t b = r.err.rfind('\n', up);
        b = (b == std::string::npos) ? 0 : b + 1;
        size_t e = r.err.find('\n', up);
        std::string t = r.err.substr(b, e == std::string::npos ? std::string::npos : e - b);
        if (t.size() > 400) t.resize(400);
        return t;
    }
    std::string e = r.err;
    while (!e.empty() && (e.back() == '\n' || e.back() == ' ')) e.pop_back();
    size_t i = e.rfind('\n');
    std::string t = i == std::string::npos ? e : e.substr(i + 1);
    for (char &c : t) if (c == '\t') c = ' ';
    if (t.size() > 300) t.resize(300);
    return t;
}

// Guard-page arena: `n` elements of `T` placed so that the element AFTER the last one
// (end-aligned) or BEFORE the first one (start-aligned) lies in a PROT_NONE page.
template <class T> struct GuardArena
{
    char *base = nullptr;
    size_t maplen = 0;
    T *p = nullptr;
    size_t n = 0;
    GuardArena(size_t n_, bool end_aligned, size_t align = sizeof(T)) : n(n_)
    {
        const size_t PG = 4096;
        size_t bytes = n * sizeof(T);
        size_t data_pages = (bytes + PG - 1) / PG + 1;
        maplen = (data_pages + 2) * PG;
        base = (char *)mmap(nullptr, maplen, PROT_READ | PROT_WRITE, MAP_PRIVATE | MAP_ANONYMOUS, -1, 0);
        if (base == MAP_FAILED) { perror("mmap"); exit(3); }
        memset(base, 0xA5, maplen);
        mprotect(base, PG, PROT_NONE);
        mprotect(base + maplen - PG, PG, PROT_NONE);
        if (end_aligned)
        {
            size_t off = maplen - PG - bytes;
            off -= off % align;
            p = (T *)(base + off);
        }
        else p = (T *)(base + PG);
    }
    ~GuardArena() { if (base) munmap(base, maplen); }
    GuardArena(const GuardArena &) = delete;
};
} // namespace vc
